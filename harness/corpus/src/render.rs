//! Canonical renderings of decoded values and the "deep" accessor walkers.
//!
//! Every function here is a pure function of the decoded VALUE (no addresses, no hash-map iteration, no
//! timing). Errors returned by accessors are values: they are rendered, never unwrapped. Nothing here
//! catches panics — callers wrap the whole transcript call in `vcore::guard::catch`.

use std::{fmt::Write as _, io};

use bstr::BStr;
use noodles_bed as bed;
use noodles_gff as gff;
use noodles_sam as sam;
use noodles_vcf as vcf;
use vcore::rng::fnv1a;

/// Escaped rendering of arbitrary bytes (printable ASCII stays as is).
pub fn esc(b: &[u8]) -> String {
    let s = format!("{:?}", BStr::new(b));
    // strip the surrounding quotes of bstr's Debug
    s[1..s.len() - 1].to_string()
}

/// Text produced by a noodles writer: valid UTF-8 is taken as is, anything else is escaped.
pub fn text(mut v: Vec<u8>) -> String {
    while v.last() == Some(&b'\n') {
        v.pop();
    }
    match String::from_utf8(v) {
        Ok(s) => s,
        Err(e) => esc(e.as_bytes()),
    }
}

pub fn err_str(e: &io::Error) -> String {
    format!("\u{15}{:?}:{}", e.kind(), e)
}

// ------------------------------------------------------------------------------------------------
// headers

pub fn sam_header(header: &sam::Header) -> String {
    let mut w = sam::io::Writer::new(Vec::new());
    let t = match w.write_header(header) {
        Ok(()) => text(w.into_inner()),
        Err(e) => err_str(&e),
    };
    // `sam::Header` holds only ordered maps (IndexMap): its Debug is a pure function of the value and shows
    // what the text writer may normalise away.
    format!("{t}\u{1f}{:016x}", fnv1a(format!("{header:?}").as_bytes()))
}

pub fn vcf_header(header: &vcf::Header) -> String {
    let mut w = vcf::io::Writer::new(Vec::new());
    let t = match w.write_header(header) {
        Ok(()) => text(w.into_inner()),
        Err(e) => err_str(&e),
    };
    // NOT Debug of the whole header: `StringMaps` contains a std HashMap whose Debug order is random.
    let mut extra = String::new();
    let sm = header.string_maps();
    let _ = write!(extra, "ff={:?};samples={:?};", header.file_format(), header.sample_names());
    // the dictionaries may be sparse (IDX=); there is no length accessor, so a fixed window is scanned
    for i in 0..2048 {
        if let Some(s) = sm.strings().get_index(i) {
            let _ = write!(extra, "s{i}={s};");
        }
        if let Some(s) = sm.contigs().get_index(i) {
            let _ = write!(extra, "c{i}={s};");
        }
    }
    format!("{t}\u{1f}{extra}")
}

// ------------------------------------------------------------------------------------------------
// alignment records (sam::Record, bam::Record, cram::Record, RecordBuf)

/// SAM line through noodles' own SAM writer + the typed aux values (SAM text does not show the integer width
/// of a field).
pub fn alignment_record(header: &sam::Header, record: &dyn sam::alignment::Record) -> String {
    use sam::alignment::io::Write as _;
    let mut w = sam::io::Writer::new(Vec::new());
    let mut s = match w.write_alignment_record(header, record) {
        Ok(()) => text(w.into_inner()),
        Err(e) => err_str(&e),
    };
    s.push('\u{1f}');
    for r in record.data().iter() {
        match r {
            Ok((tag, value)) => {
                let _ = write!(s, "{}{}:{:?};", tag.as_ref()[0] as char, tag.as_ref()[1] as char, value);
            }
            Err(e) => {
                let _ = write!(s, "{};", err_str(&e));
                break;
            }
        }
    }
    s
}

/// Collector of a deep walk: a digest of everything that was observed and the accessor errors.
#[derive(Default)]
pub struct Deep {
    pub digest: String,
    pub errors: Vec<String>,
}

impl Deep {
    fn val<T: std::fmt::Debug>(&mut self, what: &str, v: T) {
        let _ = write!(self.digest, "{what}={v:?};");
    }

    fn res<T: std::fmt::Debug>(&mut self, what: &str, r: io::Result<T>) -> Option<T> {
        match r {
            Ok(v) => {
                let _ = write!(self.digest, "{what}={v:?};");
                Some(v)
            }
            Err(e) => {
                self.err(what, &e);
                None
            }
        }
    }

    fn err(&mut self, what: &str, e: &io::Error) {
        let _ = write!(self.digest, "{what}=!{:?};", e.kind());
        self.errors.push(format!("A-ERR:{what}:{:?}", e.kind()));
    }

    /// Elements to append to the transcript after the record: one "A:<fnv>:<len>" and the errors.
    pub fn finish(self, out: &mut Vec<String>) {
        out.push(format!("A:{:016x}:{}", fnv1a(self.digest.as_bytes()), self.digest.len()));
        out.extend(self.errors);
    }
}

pub fn deep_alignment(d: &mut Deep, header: &sam::Header, rec: &dyn sam::alignment::Record) {
    use sam::alignment::record::data::field::{Value, value::Array};

    d.val("name", rec.name());
    d.res("flags", rec.flags());
    if let Some(r) = rec.reference_sequence_id(header) {
        d.res("rid", r);
    }
    if let Some(r) = rec.alignment_start() {
        d.res("pos", r);
    }
    if let Some(r) = rec.mapping_quality() {
        d.res("mapq", r);
    }
    {
        let c = rec.cigar();
        d.val("cigar.is_empty", c.is_empty());
        d.val("cigar.len", c.len());
        for r in c.iter() {
            match r {
                Ok(op) => d.val("op", (op.kind(), op.len())),
                Err(e) => {
                    d.err("cigar.iter", &e);
                    break;
                }
            }
        }
        d.res("cigar.span", c.alignment_span());
        d.res("cigar.read_length", c.read_length());
    }
    if let Some(r) = rec.mate_reference_sequence_id(header) {
        d.res("mrid", r);
    }
    if let Some(r) = rec.mate_alignment_start() {
        d.res("mpos", r);
    }
    d.res("tlen", rec.template_length());
    {
        let s = rec.sequence();
        let n = s.len();
        d.val("seq.len", n);
        d.val("seq.is_empty", s.is_empty());
        d.val("seq.get0", s.get(0));
        d.val("seq.getlast", s.get(n.wrapping_sub(1)));
        d.val("seq.getn", s.get(n));
        let v: Vec<u8> = s.iter().collect();
        d.val("seq.iter", (v.len(), fnv1a(&v)));
    }
    {
        let q = rec.quality_scores();
        d.val("qual.len", q.len());
        d.val("qual.is_empty", q.is_empty());
        let mut v = Vec::new();
        for r in q.iter() {
            match r {
                Ok(b) => v.push(b),
                Err(e) => {
                    d.err("qual.iter", &e);
                    break;
                }
            }
        }
        d.val("qual.iter", (v.len(), fnv1a(&v)));
    }
    {
        let data = rec.data();
        d.val("data.is_empty", data.is_empty());
        let mut tags = Vec::new();
        for r in data.iter() {
            match r {
                Ok((tag, value)) => {
                    tags.push(tag);
                    d.val("tag", tag);
                    d.val("ty", value.ty());
                    d.val("as_int", value.as_int());
                    match &value {
                        Value::Array(a) => {
                            d.val("subtype", a.subtype());
                            macro_rules! walk {
                                ($vals:expr) => {{
                                    d.val("alen", $vals.len());
                                    for r in $vals.iter() {
                                        match r {
                                            Ok(x) => d.val("a", x),
                                            Err(e) => {
                                                d.err("data.array.iter", &e);
                                                break;
                                            }
                                        }
                                    }
                                }};
                            }
                            match a {
                                Array::Int8(v) => walk!(v),
                                Array::UInt8(v) => walk!(v),
                                Array::Int16(v) => walk!(v),
                                Array::UInt16(v) => walk!(v),
                                Array::Int32(v) => walk!(v),
                                Array::UInt32(v) => walk!(v),
                                Array::Float(v) => walk!(v),
                            }
                        }
                        other => d.val("value", other),
                    }
                    // conversion of the value to the owned type
                    let owned: io::Result<sam::alignment::record_buf::data::field::Value> = value.try_into();
                    d.res("value.owned", owned);
                }
                Err(e) => {
                    d.err("data.iter", &e);
                    break;
                }
            }
        }
        for tag in tags.iter().take(64) {
            match data.get(tag) {
                Some(Ok(v)) => d.val("data.get", v),
                Some(Err(e)) => d.err("data.get", &e),
                None => d.val("data.get", "none"),
            }
        }
        match data.get(&sam::alignment::record::data::field::Tag::new(b'z', b'z')) {
            Some(Ok(v)) => d.val("data.get.zz", v),
            Some(Err(e)) => d.err("data.get.zz", &e),
            None => {}
        }
    }
    if let Some(r) = rec.reference_sequence(header) {
        d.res("refseq", r.map(|(n, m)| (n.to_owned(), m.length())));
    }
    if let Some(r) = rec.mate_reference_sequence(header) {
        d.res("mrefseq", r.map(|(n, m)| (n.to_owned(), m.length())));
    }
    if let Some(r) = rec.alignment_span() {
        d.res("span", r);
    }
    if let Some(r) = rec.alignment_end() {
        d.res("end", r);
    }
    d.res("to_buf", sam::alignment::RecordBuf::try_from_alignment_record(header, rec));
}

// ------------------------------------------------------------------------------------------------
// variant records (vcf::Record, bcf::Record, RecordBuf)

pub fn variant_record(header: &vcf::Header, record: &dyn vcf::variant::Record) -> String {
    use vcf::variant::io::Write as _;
    let mut w = vcf::io::Writer::new(Vec::new());
    match w.write_variant_record(header, record) {
        Ok(()) => text(w.into_inner()),
        Err(e) => err_str(&e),
    }
}

pub fn deep_variant(d: &mut Deep, header: &vcf::Header, rec: &dyn vcf::variant::Record) {
    use vcf::variant::record::{
        info::field::{Value as IValue, value::Array as IArray},
        samples::series::{Value as SValue, value::Array as SArray},
    };

    d.res("chrom", rec.reference_sequence_name(header).map(String::from));
    if let Some(r) = rec.variant_start() {
        d.res("pos", r);
    }
    {
        let ids = rec.ids();
        d.val("ids.is_empty", ids.is_empty());
        d.val("ids.len", ids.len());
        for id in ids.iter() {
            d.val("id", id);
        }
    }
    {
        let rb = rec.reference_bases();
        d.val("ref.is_empty", rb.is_empty());
        d.val("ref.len", rb.len());
        for r in rb.iter() {
            match r {
                Ok(b) => d.val("b", b),
                Err(e) => {
                    d.err("ref.iter", &e);
                    break;
                }
            }
        }
    }
    {
        let ab = rec.alternate_bases();
        d.val("alt.is_empty", ab.is_empty());
        d.val("alt.len", ab.len());
        for r in ab.iter() {
            match r {
                Ok(a) => d.val("alt", a),
                Err(e) => {
                    d.err("alt.iter", &e);
                    break;
                }
            }
        }
    }
    if let Some(r) = rec.quality_score() {
        d.res("qual", r.map(f32::to_bits));
    }
    {
        let f = rec.filters();
        d.val("filters.is_empty", f.is_empty());
        d.val("filters.len", f.len());
        for r in f.iter(header) {
            match r {
                Ok(x) => d.val("filter", x),
                Err(e) => {
                    d.err("filters.iter", &e);
                    break;
                }
            }
        }
        d.res("filters.is_pass", f.is_pass(header));
    }

    macro_rules! walk_values {
        ($d:expr, $vals:expr, $what:expr) => {{
            $d.val("alen", $vals.len());
            for r in $vals.iter() {
                match r {
                    Ok(x) => $d.val("a", x),
                    Err(e) => {
                        $d.err($what, &e);
                        break;
                    }
                }
            }
        }};
    }

    {
        let info = rec.info();
        d.val("info.is_empty", info.is_empty());
        d.val("info.len", info.len());
        let mut keys: Vec<String> = Vec::new();
        for r in info.iter(header) {
            match r {
                Ok((key, value)) => {
                    keys.push(key.to_string());
                    d.val("ikey", key);
                    match value {
                        None => d.val("ival", "missing"),
                        Some(IValue::Array(a)) => match a {
                            IArray::Integer(v) => walk_values!(d, v, "info.array.iter"),
                            IArray::Float(v) => walk_values!(d, v, "info.array.iter"),
                            IArray::Character(v) => walk_values!(d, v, "info.array.iter"),
                            IArray::String(v) => walk_values!(d, v, "info.array.iter"),
                        },
                        Some(IValue::Float(f)) => d.val("ival", f.to_bits()),
                        Some(other) => d.val("ival", other),
                    }
                }
                Err(e) => {
                    d.err("info.iter", &e);
                    break;
                }
            }
        }
        keys.push("ZZ_absent".into());
        for k in keys.iter().take(64) {
            match info.get(header, k) {
                Some(Ok(Some(v))) => {
                    // converting to the owned value walks arrays
                    let owned: io::Result<vcf::variant::record_buf::info::field::Value> = v.try_into();
                    d.res("info.get", owned.map(|v| format!("{v:?}")));
                }
                Some(Ok(None)) => d.val("info.get", "missing"),
                Some(Err(e)) => d.err("info.get", &e),
                None => d.val("info.get", "none"),
            }
        }
    }

    fn sample_value(d: &mut Deep, v: Option<SValue<'_>>) {
        match v {
            None => d.val("sval", "missing"),
            Some(SValue::Genotype(g)) => {
                for r in g.iter() {
                    match r {
                        Ok((allele, phasing)) => d.val("gt", (allele, phasing)),
                        Err(e) => {
                            d.err("genotype.iter", &e);
                            break;
                        }
                    }
                }
                let _ = write!(d.digest, "gtdbg={g:?};");
            }
            Some(SValue::Array(a)) => match a {
                SArray::Integer(v) => walk_values!(d, v, "samples.array.iter"),
                SArray::Float(v) => walk_values!(d, v, "samples.array.iter"),
                SArray::Character(v) => walk_values!(d, v, "samples.array.iter"),
                SArray::String(v) => walk_values!(d, v, "samples.array.iter"),
            },
            Some(SValue::Float(f)) => d.val("sval", f.to_bits()),
            Some(SValue::Integer(n)) => d.val("sval", n),
            Some(SValue::Character(c)) => d.val("sval", c),
            Some(SValue::String(s)) => d.val("sval", s),
        }
    }

    match rec.samples() {
        Err(e) => d.err("samples", &e),
        Ok(samples) => {
            d.val("samples.is_empty", samples.is_empty());
            let n = samples.len();
            d.val("samples.len", n);
            let mut names: Vec<String> = Vec::new();
            for r in samples.column_names(header) {
                match r {
                    Ok(nm) => {
                        d.val("col", nm);
                        names.push(nm.to_string());
                    }
                    Err(e) => {
                        d.err("samples.column_names", &e);
                        break;
                    }
                }
            }
            for r in samples.series() {
                match r {
                    Ok(series) => {
                        d.res("series.name", series.name(header).map(String::from));
                        for r in series.iter(header) {
                            match r {
                                Ok(v) => sample_value(d, v),
                                Err(e) => {
                                    d.err("series.iter", &e);
                                    break;
                                }
                            }
                        }
                        for i in 0..(n + 1).min(65) {
                            match series.get(header, i) {
                                None => d.val("series.get", "none"),
                                Some(None) => d.val("series.get", "missing"),
                                Some(Some(Ok(v))) => sample_value(d, Some(v)),
                                Some(Some(Err(e))) => d.err("series.get", &e),
                            }
                        }
                    }
                    Err(e) => {
                        d.err("samples.series", &e);
                        break;
                    }
                }
            }
            for sample in samples.iter().take(64) {
                let mut nkeys = 0usize;
                for r in sample.iter(header) {
                    match r {
                        Ok((k, v)) => {
                            d.val("skey", k);
                            sample_value(d, v);
                            nkeys += 1;
                        }
                        Err(e) => {
                            d.err("sample.iter", &e);
                            break;
                        }
                    }
                }
                for i in 0..(nkeys + 1).min(33) {
                    match sample.get_index(header, i) {
                        None => d.val("sample.get_index", "none"),
                        Some(Ok(v)) => sample_value(d, v),
                        Some(Err(e)) => d.err("sample.get_index", &e),
                    }
                }
                for k in names.iter().take(16).map(String::as_str).chain(["GT", "ZZ"]) {
                    match sample.get(header, k) {
                        None => d.val("sample.get", "none"),
                        Some(Ok(v)) => sample_value(d, v),
                        Some(Err(e)) => d.err("sample.get", &e),
                    }
                }
            }
            for k in names.iter().take(16).map(String::as_str).chain(["ZZ"]) {
                match samples.select(header, k) {
                    None => d.val("select", "none"),
                    Some(Ok(series)) => {
                        d.res("select.name", series.name(header).map(String::from));
                    }
                    Some(Err(e)) => d.err("samples.select", &e),
                }
            }
        }
    }
    d.res("variant_end", rec.variant_end(header));
    d.res("variant_span", rec.variant_span(header));
    d.res(
        "to_buf",
        vcf::variant::RecordBuf::try_from_variant_record(header, rec).map(|r| format!("{r:?}")),
    );
}

// ------------------------------------------------------------------------------------------------
// feature records (gff, gtf, bed)

pub fn gff_feature(rec: &dyn gff::feature::Record) -> String {
    let mut w = gff::io::Writer::new(Vec::new());
    match w.write_feature_record(rec) {
        Ok(()) => text(w.into_inner()),
        Err(e) => err_str(&e),
    }
}

pub fn gtf_feature(rec: &dyn gff::feature::Record) -> String {
    let mut w = noodles_gtf::io::Writer::new(Vec::new());
    match w.write_feature_record(rec) {
        Ok(()) => text(w.into_inner()),
        Err(e) => err_str(&e),
    }
}

pub fn deep_feature(d: &mut Deep, rec: &dyn gff::feature::Record) {
    d.val("seqid", rec.reference_sequence_name());
    d.val("source", rec.source());
    d.val("type", rec.ty());
    d.res("start", rec.feature_start());
    d.res("end", rec.feature_end());
    if let Some(r) = rec.score() {
        d.res("score", r.map(f32::to_bits));
    }
    d.res("strand", rec.strand());
    if let Some(r) = rec.phase() {
        d.res("phase", r);
    }
    let attrs = rec.attributes();
    d.val("attrs.is_empty", attrs.is_empty());
    let mut keys: Vec<Vec<u8>> = Vec::new();
    for r in attrs.iter() {
        match r {
            Ok((k, v)) => {
                d.val("akey", &k);
                keys.push(k.to_vec());
                d.val("as_string", v.as_string());
                d.val("is_array", matches!(v, gff::feature::record::attributes::field::Value::Array(_)));
                for r in v.iter() {
                    match r {
                        Ok(x) => d.val("aval", x),
                        Err(e) => {
                            d.err("attr.value.iter", &e);
                            break;
                        }
                    }
                }
            }
            Err(e) => {
                d.err("attrs.iter", &e);
                break;
            }
        }
    }
    keys.push(b"zz_absent".to_vec());
    for k in keys.iter().take(64) {
        match attrs.get(k) {
            None => d.val("attrs.get", "none"),
            Some(Ok(v)) => {
                let n = v.iter().count();
                d.val("attrs.get", n);
            }
            Some(Err(e)) => d.err("attrs.get", &e),
        }
    }
    d.res("to_buf", gff::feature::RecordBuf::try_from_feature_record(rec));
}

pub fn deep_bed<const N: usize, R: bed::feature::Record<N>>(d: &mut Deep, rec: &R) {
    d.val("n", rec.standard_field_count());
    d.val("chrom", rec.reference_sequence_name());
    d.res("start", rec.feature_start());
    if let Some(r) = rec.feature_end() {
        d.res("end", r);
    }
    d.val("name", rec.name());
    if let Some(r) = rec.score() {
        d.res("score", r);
    }
    if let Some(r) = rec.strand() {
        d.res("strand", r);
    }
    let o = rec.other_fields();
    d.val("other.is_empty", o.is_empty());
    d.val("other.len", o.len());
    for v in o.iter() {
        d.val("other", v);
    }
}

// ------------------------------------------------------------------------------------------------
// small element builders shared with async twins

pub fn fasta_element(name: &[u8], description: Option<&[u8]>, sequence: &[u8]) -> String {
    format!("R:{}\t{}\t{}", esc(name), description.map(esc).unwrap_or_else(|| "<none>".into()), esc(sequence))
}

pub fn fastq_element(rec: &noodles_fastq::Record) -> String {
    format!("R:{}\t{}\t{}\t{}", esc(rec.name()), esc(rec.description()), esc(rec.sequence()), esc(rec.quality_scores()))
}

/// `C:` element of a CRAM container (`len` = what `read_container` returned).
pub fn cram_container(len: usize, container: &noodles_cram::io::reader::Container) -> String {
    let h = container.header();
    format!(
        "C:len={len};ctx={:?};records={};counter={};bases={};blocks={};landmarks={:?}",
        h.reference_sequence_context(),
        h.record_count(),
        h.record_counter(),
        h.base_count(),
        h.block_count(),
        h.landmarks()
    )
}

/// `I:` element of an index value (or of one index record).
pub fn index_element<I: std::fmt::Debug>(index: &I) -> String {
    format!("I:{index:?}")
}

/// Elements of one lazily read GFF3 line: `R:directive:…`, `R:comment:…` or `R:record:<line>\u{1f}<raw line>`
/// (+ the deep elements of a record).
pub fn gff_line(line: &gff::Line, deep: bool, out: &mut Vec<String>) {
    let raw: &BStr = line.as_ref();
    match line.kind() {
        gff::line::Kind::Directive => {
            let d = line.as_directive();
            out.push(format!("R:directive:{}\u{1f}{:?}", esc(raw), d.map(|d| (esc(d.key()), d.value().map(|v| esc(v))))));
        }
        gff::line::Kind::Comment => {
            out.push(format!("R:comment:{}\u{1f}{:?}", esc(raw), line.as_comment().map(|c| esc(c))));
        }
        gff::line::Kind::Record => match line.as_record() {
            Some(Ok(rec)) => {
                out.push(format!("R:record:{}\u{1f}{}", gff_feature(&rec), esc(raw)));
                if deep {
                    let mut d = Deep::default();
                    deep_feature(&mut d, &rec);
                    let _ = write!(d.digest, "dbg={rec:?};");
                    d.finish(out);
                }
            }
            Some(Err(e)) => out.push(format!("R:record:{}\u{1f}{}", err_str(&e), esc(raw))),
            None => out.push(format!("R:record:<none>\u{1f}{}", esc(raw))),
        },
    }
}

pub fn gff_line_buf(line: &gff::LineBuf) -> String {
    let mut w = gff::io::Writer::new(Vec::new());
    let s = match w.write_line(line) {
        Ok(()) => text(w.into_inner()),
        Err(e) => err_str(&e),
    };
    let k = match line {
        gff::LineBuf::Directive(_) => "directive",
        gff::LineBuf::Comment(_) => "comment",
        gff::LineBuf::Record(_) => "record",
    };
    format!("R:{k}:{s}\u{1f}{line:?}")
}

pub fn gtf_line(line: &noodles_gtf::Line, deep: bool, out: &mut Vec<String>) {
    let raw: &BStr = line.as_ref();
    if let Some(c) = line.as_comment() {
        out.push(format!("R:comment:{}\u{1f}{}", esc(raw), esc(c)));
    } else {
        match line.as_record() {
            Some(Ok(rec)) => {
                out.push(format!("R:record:{}\u{1f}{}", gtf_feature(&rec), esc(raw)));
                if deep {
                    let mut d = Deep::default();
                    deep_feature(&mut d, &rec);
                    let _ = write!(d.digest, "dbg={rec:?};");
                    d.finish(out);
                }
            }
            Some(Err(e)) => out.push(format!("R:record:{}\u{1f}{}", err_str(&e), esc(raw))),
            None => out.push(format!("R:record:<none>\u{1f}{}", esc(raw))),
        }
    }
}

pub fn gtf_line_buf(line: &noodles_gtf::LineBuf) -> String {
    let mut w = noodles_gtf::io::Writer::new(Vec::new());
    let s = match w.write_line(line) {
        Ok(()) => text(w.into_inner()),
        Err(e) => err_str(&e),
    };
    let k = match line {
        noodles_gtf::LineBuf::Comment(_) => "comment",
        noodles_gtf::LineBuf::Record(_) => "record",
    };
    format!("R:{k}:{s}\u{1f}{line:?}")
}
