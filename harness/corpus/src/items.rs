//! Construction of the corpus items.

use std::{
    io,
    panic::{AssertUnwindSafe, catch_unwind},
    path::{Path, PathBuf},
};

use noodles_bam as bam;
use noodles_bcf as bcf;
use noodles_bgzf as bgzf;
use noodles_cram as cram;
use noodles_fasta as fasta;
use noodles_fastq as fastq;
use noodles_sam as sam;
use noodles_vcf as vcf;
use vcore::Rng;

use crate::{
    BgzfOp, Item, Kind, Side,
    textgen::{self as g, Reference, SamSpec, Tags, VcfSpec},
    write::{prepare_write, write_prepared},
};

/// A problem met while building the corpus (an item that could not be produced). `items` never panics on
/// these; they are collected and can be inspected with [`crate::build_report`].
#[derive(Clone, Debug)]
pub struct BuildNote {
    pub item: String,
    pub what: String,
}

pub(crate) struct Builder {
    pub items: Vec<Item>,
    pub notes: Vec<BuildNote>,
    tmp: PathBuf,
}

fn side_writable() -> Side {
    Side { writable: true, ..Side::default() }
}

impl Builder {
    fn note(&mut self, item: &str, what: impl Into<String>) {
        self.notes.push(BuildNote { item: item.to_string(), what: what.into() });
    }

    /// Produces `bytes` by running the write history of the item on a `Vec<u8>`.
    fn push_written(&mut self, kind: Kind, name: String, side: Side) -> Option<usize> {
        let mut item = Item { kind, name, bytes: Vec::new(), side };
        let res = catch_unwind(AssertUnwindSafe(|| -> io::Result<Vec<u8>> {
            let p = prepare_write(&item)?;
            let mut out = Vec::new();
            write_prepared(&p, &mut out)?;
            Ok(out)
        }));
        match res {
            Ok(Ok(bytes)) => {
                item.bytes = bytes;
                self.items.push(item);
                Some(self.items.len() - 1)
            }
            Ok(Err(e)) => {
                let n = item.name.clone();
                self.note(&n, format!("writer rejected the model: {:?}: {e}", e.kind()));
                None
            }
            Err(_) => {
                let n = item.name.clone();
                self.note(&n, "writer panicked on the model");
                None
            }
        }
    }

    /// Text / index item whose bytes are given; `canonical` = the noodles writer reproduces exactly these
    /// bytes (checked here: if it does not, the item is kept as not writable).
    fn push_bytes(&mut self, kind: Kind, name: String, bytes: Vec<u8>, mut side: Side, try_writable: bool) -> usize {
        side.writable = false;
        let mut item = Item { kind, name, bytes, side };
        if try_writable {
            item.side.writable = true;
            let ok = catch_unwind(AssertUnwindSafe(|| -> io::Result<bool> {
                let p = prepare_write(&item)?;
                let mut out = Vec::new();
                write_prepared(&p, &mut out)?;
                Ok(out == item.bytes)
            }));
            item.side.writable = matches!(ok, Ok(Ok(true)));
        }
        self.items.push(item);
        self.items.len() - 1
    }

    fn scratch(&self, name: &str, ext: &str) -> PathBuf {
        let clean: String = name.chars().map(|c| if c.is_ascii_alphanumeric() || c == '-' || c == '_' { c } else { '_' }).collect();
        self.tmp.join(format!("{clean}.{ext}"))
    }

    /// Runs a path-based indexer over the bytes of `items[data]`.
    fn index_with<I>(&mut self, data: usize, ext: &str, f: impl FnOnce(&Path) -> io::Result<I>) -> Option<I> {
        let name = self.items[data].name.clone();
        let path = self.scratch(&name, ext);
        if let Err(e) = std::fs::write(&path, &self.items[data].bytes) {
            self.note(&name, format!("cannot write scratch file {}: {e}", path.display()));
            return None;
        }
        let r = catch_unwind(AssertUnwindSafe(|| f(&path)));
        let _ = std::fs::remove_file(&path);
        match r {
            Ok(Ok(i)) => Some(i),
            Ok(Err(e)) => {
                self.note(&name, format!("indexer failed: {:?}: {e}", e.kind()));
                None
            }
            Err(_) => {
                self.note(&name, "indexer panicked");
                None
            }
        }
    }
}

fn index_name(kind: Kind, data_name: &str) -> String {
    format!("{}/of-{}", kind.name(), data_name.replace('/', "-"))
}

fn index_side(data_name: &str) -> Side {
    Side { indexed_item: Some(data_name.to_string()), ..Side::default() }
}

struct AlnSet {
    name: &'static str,
    refs: usize,
    ref_len: (usize, usize),
    spec: SamSpec,
    flush_every: usize,
}

fn aln_sets(scale: u8) -> Vec<AlnSet> {
    let spec = |records, unmapped_tail, read_len, tags, read_groups, comments| SamSpec {
        records,
        unmapped_tail,
        read_len,
        tags,
        allow_missing: true,
        read_groups,
        comments,
    };
    let mut v = vec![];
    if scale == 0 {
        v.push(AlnSet { name: "tiny-2refs-6recs", refs: 2, ref_len: (300, 400), spec: spec(5, 1, (12, 24), Tags::All, 1, 0), flush_every: 3 });
        return v;
    }
    v.push(AlnSet { name: "header-only-3refs", refs: 3, ref_len: (500, 900), spec: spec(0, 0, (20, 40), Tags::None, 0, 0), flush_every: 0 });
    v.push(AlnSet { name: "small-3refs-14recs", refs: 3, ref_len: (600, 1200), spec: spec(12, 2, (20, 60), Tags::All, 2, 1), flush_every: 0 });
    v.push(AlnSet { name: "multiblock-3refs-64recs", refs: 3, ref_len: (40000, 120000), spec: spec(60, 4, (30, 100), Tags::All, 2, 2), flush_every: 7 });
    v.push(AlnSet { name: "natural-2refs-300recs", refs: 2, ref_len: (100000, 300000), spec: spec(292, 8, (80, 150), Tags::All, 3, 1), flush_every: 0 });
    if scale >= 2 {
        v.push(AlnSet { name: "noheader-refs-only-1ref-30recs", refs: 1, ref_len: (2000, 2500), spec: spec(30, 0, (20, 50), Tags::One, 0, 0), flush_every: 1 });
        v.push(AlnSet { name: "large-4refs-1500recs", refs: 4, ref_len: (300000, 2000000), spec: spec(1480, 20, (50, 150), Tags::All, 4, 3), flush_every: 0 });
        v.push(AlnSet { name: "manyblocks-2refs-300recs", refs: 2, ref_len: (5000, 6000), spec: spec(295, 5, (30, 80), Tags::All, 1, 0), flush_every: 3 });
    }
    v
}

struct VarSet {
    name: &'static str,
    refs: usize,
    ref_len: (usize, usize),
    spec: VcfSpec,
    flush_every: usize,
}

fn var_sets(scale: u8) -> Vec<VarSet> {
    let mut v = vec![];
    if scale == 0 {
        v.push(VarSet { name: "tiny-1contig-5recs-2samples", refs: 1, ref_len: (300, 400), spec: VcfSpec { records: 5, samples: 2, symbolic: true }, flush_every: 2 });
        return v;
    }
    v.push(VarSet { name: "header-only-2contigs", refs: 2, ref_len: (500, 900), spec: VcfSpec { records: 0, samples: 1, symbolic: false }, flush_every: 0 });
    v.push(VarSet { name: "small-2contigs-12recs-2samples", refs: 2, ref_len: (800, 1500), spec: VcfSpec { records: 12, samples: 2, symbolic: true }, flush_every: 0 });
    v.push(VarSet { name: "nosamples-3contigs-25recs", refs: 3, ref_len: (800, 1500), spec: VcfSpec { records: 25, samples: 0, symbolic: true }, flush_every: 0 });
    v.push(VarSet { name: "multiblock-3contigs-90recs-3samples", refs: 3, ref_len: (40000, 120000), spec: VcfSpec { records: 90, samples: 3, symbolic: true }, flush_every: 8 });
    v.push(VarSet { name: "natural-2contigs-520recs-4samples", refs: 2, ref_len: (200000, 400000), spec: VcfSpec { records: 520, samples: 4, symbolic: true }, flush_every: 0 });
    if scale >= 2 {
        v.push(VarSet { name: "large-4contigs-3000recs-6samples", refs: 4, ref_len: (300000, 2000000), spec: VcfSpec { records: 3000, samples: 6, symbolic: true }, flush_every: 0 });
        v.push(VarSet { name: "manyblocks-1contig-200recs-1sample", refs: 1, ref_len: (9000, 10000), spec: VcfSpec { records: 200, samples: 1, symbolic: false }, flush_every: 2 });
    }
    v
}

// ------------------------------------------------------------------------------------------------
// CRAM sets (seed independent: see the note on fixtures in lib.rs)

pub struct CramSet {
    pub name: &'static str,
    pub min_scale: u8,
    pub only_scale0: bool,
    pub gen_seed: u64,
    pub refs: usize,
    pub ref_len: (usize, usize),
    pub spec: SamSpec,
    pub layout: Option<(usize, usize)>,
    /// every slice has a single reference context (cram::fs::index panics on multi-reference slices on the
    /// pinned tree: known defect, C19)
    pub crai_indexable: bool,
    pub fixture: &'static [u8],
}

pub fn cram_sets() -> Vec<CramSet> {
    let spec = |records, unmapped_tail, read_len, tags, read_groups| SamSpec {
        records,
        unmapped_tail,
        read_len,
        tags,
        allow_missing: false,
        read_groups,
        comments: 0,
    };
    vec![
        CramSet {
            name: "tiny-1ref-4recs",
            min_scale: 0,
            only_scale0: true,
            gen_seed: 0xC7A0,
            refs: 1,
            ref_len: (200, 260),
            spec: spec(4, 0, (10, 16), Tags::One, 0),
            layout: None,
            crai_indexable: true,
            fixture: include_bytes!("../data/cram-tiny-1ref-4recs.cram"),
        },
        CramSet {
            name: "header-only-2refs",
            min_scale: 1,
            only_scale0: false,
            gen_seed: 0xC7A1,
            refs: 2,
            ref_len: (400, 600),
            spec: spec(0, 0, (10, 16), Tags::None, 0),
            layout: None,
            crai_indexable: true,
            fixture: include_bytes!("../data/cram-header-only-2refs.cram"),
        },
        CramSet {
            name: "small-2refs-14recs",
            min_scale: 1,
            only_scale0: false,
            gen_seed: 0xC7A2,
            refs: 2,
            ref_len: (600, 1000),
            spec: spec(12, 2, (20, 60), Tags::All, 2),
            layout: None,
            crai_indexable: false,
            fixture: include_bytes!("../data/cram-small-2refs-14recs.cram"),
        },
        CramSet {
            name: "multicontainer-3refs-64recs",
            min_scale: 1,
            only_scale0: false,
            gen_seed: 0xC7A3,
            refs: 3,
            ref_len: (1200, 2500),
            spec: spec(60, 4, (30, 90), Tags::All, 2),
            // one slice per container: with several slices per container the noodles writer rejects containers
            // whose slices have different reference contexts (InvalidInput "invalid slice reference sequence
            // context"), which a coordinate-sorted multi-reference file runs into
            layout: Some((5, 1)),
            crai_indexable: false,
            fixture: include_bytes!("../data/cram-multicontainer-3refs-64recs.cram"),
        },
        CramSet {
            name: "notags-1ref-24recs-3containers",
            min_scale: 1,
            only_scale0: false,
            gen_seed: 0xC7A4,
            refs: 1,
            ref_len: (1500, 2000),
            spec: spec(24, 0, (25, 60), Tags::None, 0),
            layout: Some((4, 2)),
            crai_indexable: true,
            fixture: include_bytes!("../data/cram-notags-1ref-24recs-3containers.cram"),
        },
        CramSet {
            name: "large-3refs-420recs",
            min_scale: 2,
            only_scale0: false,
            gen_seed: 0xC7A5,
            refs: 3,
            ref_len: (5000, 9000),
            spec: spec(410, 10, (60, 150), Tags::All, 3),
            layout: Some((40, 1)),
            crai_indexable: false,
            fixture: include_bytes!("../data/cram-large-3refs-420recs.cram"),
        },
        CramSet {
            name: "multislice-1ref-120recs",
            min_scale: 2,
            only_scale0: false,
            gen_seed: 0xC7A7,
            refs: 1,
            ref_len: (4000, 5000),
            spec: spec(120, 0, (40, 100), Tags::All, 2),
            layout: Some((20, 3)),
            crai_indexable: true,
            fixture: include_bytes!("../data/cram-multislice-1ref-120recs.cram"),
        },
        CramSet {
            name: "singleslice-2refs-100recs",
            min_scale: 2,
            only_scale0: false,
            gen_seed: 0xC7A6,
            refs: 2,
            ref_len: (3000, 4000),
            spec: spec(96, 4, (40, 100), Tags::All, 1),
            layout: None,
            crai_indexable: false,
            fixture: include_bytes!("../data/cram-singleslice-2refs-100recs.cram"),
        },
    ]
}

/// Model (SAM text), reference FASTA and side of a CRAM set — pure functions of the set description.
pub fn cram_set_side(set: &CramSet) -> Side {
    let mut rng = Rng::new(set.gen_seed, 0xC7, 0);
    let refs = g::references(&mut rng, set.refs, set.ref_len.0, set.ref_len.1);
    let model = if set.spec.records == 0 && set.spec.unmapped_tail == 0 {
        g::sam_header_only(&refs)
    } else {
        g::sam_text(&mut rng, &refs, &set.spec)
    };
    Side {
        reference_fasta: Some(g::reference_fasta(&refs, 60)),
        model: Some(model),
        writable: true,
        cram_layout: set.layout,
        ..Side::default()
    }
}

/// Writes a fresh CRAM for the set through the noodles writer (block order inside containers is NOT
/// deterministic: see lib.rs).
pub fn cram_fresh(set: &CramSet) -> io::Result<Vec<u8>> {
    let item = Item { kind: Kind::Cram, name: format!("cram/{}", set.name), bytes: Vec::new(), side: cram_set_side(set) };
    let p = prepare_write(&item)?;
    let mut out = Vec::new();
    write_prepared(&p, &mut out)?;
    Ok(out)
}

// ------------------------------------------------------------------------------------------------

fn refs_for(rng: &mut Rng, n: usize, len: (usize, usize)) -> Vec<Reference> {
    g::references(rng, n, len.0, len.1)
}

pub(crate) fn build(seed: u64, scale: u8, tmp: &Path) -> (Vec<Item>, Vec<BuildNote>) {
    let mut b = Builder { items: Vec::new(), notes: Vec::new(), tmp: tmp.to_path_buf() };
    let scale = scale.min(2);

    build_bgzf(&mut b, seed, scale);
    build_alignment(&mut b, seed, scale);
    build_cram(&mut b, scale);
    build_variant(&mut b, seed, scale);
    build_text(&mut b, seed, scale);

    // stable order: by kind, then in construction order
    let mut items = b.items;
    items.sort_by_key(|i| i.kind);
    (items, b.notes)
}

fn build_bgzf(b: &mut Builder, seed: u64, scale: u8) {
    use vcore::{bgzf as ob, payload};
    let mut rng = Rng::new(seed, 0xB6, 0);
    let mut sets: Vec<(&str, &str, usize, Vec<BgzfOp>)> = Vec::new();
    // (name, payload class, payload length, ops)
    if scale == 0 {
        sets.push(("tiny-text-3blocks", "text", 700, vec![BgzfOp::Write(100), BgzfOp::Flush, BgzfOp::Write(1), BgzfOp::Flush, BgzfOp::Write(599)]));
    } else {
        sets.push(("empty-eof-only", "zeros", 0, vec![]));
        sets.push(("text-1block-300B", "text", 300, vec![BgzfOp::Write(300)]));
        let mut ops = Vec::new();
        for _ in 0..6 {
            ops.push(BgzfOp::Write(rng.urange(1, 3000)));
            ops.push(BgzfOp::Flush);
        }
        ops.push(BgzfOp::Flush); // flush with nothing staged
        ops.push(BgzfOp::Write(1));
        sets.push(("mixed-flushes-8blocks", "random_with_repeats", 12000, ops));
        sets.push(("dna-natural-140000B-3blocks", "dna", 140000, vec![BgzfOp::Write(140000)]));
        sets.push(("random-66000B-2blocks", "random", 66000, vec![BgzfOp::Write(65000), BgzfOp::Write(1000)]));
    }
    if scale >= 2 {
        sets.push(("qualities-400000B", "qualities", 400000, vec![BgzfOp::Write(200000), BgzfOp::Write(200000)]));
        let mut ops = Vec::new();
        for _ in 0..60 {
            ops.push(BgzfOp::Write(rng.urange(1, 400)));
            ops.push(BgzfOp::Flush);
        }
        sets.push(("runs-60tinyblocks", "runs", 13000, ops));
        sets.push(("exact-65280B", "skewed", 65280, vec![BgzfOp::Write(65280)]));
    }
    let mut data_idx = Vec::new();
    for (name, class, len, ops) in sets {
        let payload = payload::make(class, len, &mut rng);
        let side = Side { model: Some(payload), bgzf_ops: ops, ..side_writable() };
        if let Some(i) = b.push_written(Kind::Bgzf, format!("bgzf/{name}"), side) {
            data_idx.push(i);
        }
    }
    if scale >= 1 {
        // hand-built members (independent encoder): stored blocks, empty members in the middle, several
        // EOF markers, no EOF marker
        let blocks = vec![
            payload::make("text", 500, &mut rng),
            vec![],
            payload::make("random", 1200, &mut rng),
            vec![],
            vec![],
            payload::make("dna", 70, &mut rng),
        ];
        let bytes = ob::build_file(&blocks, ob::Enc::Stored, 1);
        data_idx.push(b.push_bytes(Kind::Bgzf, "bgzf/handbuilt-stored-empty-members-mid-file".into(), bytes, Side::default(), false));
        let bytes = ob::build_file(&blocks[..3], ob::Enc::Deflate(9), 0);
        data_idx.push(b.push_bytes(Kind::Bgzf, "bgzf/handbuilt-deflate9-no-eof-marker".into(), bytes, Side::default(), false));
        if scale >= 2 {
            let bytes = ob::build_file(&[payload::make("zeros", 65536, &mut rng), payload::make("text", 10, &mut rng)], ob::Enc::Deflate(1), 2);
            data_idx.push(b.push_bytes(Kind::Bgzf, "bgzf/handbuilt-full-64k-block-two-eof-markers".into(), bytes, Side::default(), false));
        }
    }
    // gzi of every BGZF item: (compressed offset, uncompressed offset) of every member after the first,
    // as bgzip -i writes it (members from the independent walker)
    for i in data_idx {
        let name = b.items[i].name.clone();
        match ob::walk(&b.items[i].bytes) {
            Ok(w) => {
                let pairs: Vec<(u64, u64)> = w.members.iter().zip(&w.starts).skip(1).map(|(m, s)| (m.offset, *s)).collect();
                let index = bgzf::gzi::Index::from(pairs);
                let mut out = Vec::new();
                let mut wr = bgzf::gzi::io::Writer::new(&mut out);
                match wr.write_index(&index) {
                    Ok(()) => {
                        b.push_bytes(Kind::Gzi, index_name(Kind::Gzi, &name), out, index_side(&name), true);
                    }
                    Err(e) => b.note(&name, format!("gzi writer failed: {e}")),
                }
            }
            Err(e) => b.note(&name, format!("oracle walk failed: {e}")),
        }
    }
}

fn build_alignment(b: &mut Builder, seed: u64, scale: u8) {
    for (si, set) in aln_sets(scale).into_iter().enumerate() {
        let mut rng = Rng::new(seed, 0xA1, si as u64);
        let refs = refs_for(&mut rng, set.refs, set.ref_len);
        let model = if set.spec.records == 0 && set.spec.unmapped_tail == 0 {
            g::sam_header_only(&refs)
        } else {
            g::sam_text(&mut rng, &refs, &set.spec)
        };
        let side = |flush_every| Side { model: Some(model.clone()), flush_every, ..side_writable() };
        b.push_written(Kind::Sam, format!("sam/{}", set.name), side(0));
        let samgz = b.push_written(Kind::SamGz, format!("samgz/{}", set.name), side(set.flush_every));
        let bam_i = b.push_written(Kind::Bam, format!("bam/{}", set.name), side(set.flush_every));
        b.push_written(Kind::BamRaw, format!("bamraw/{}", set.name), side(0));

        if let Some(i) = bam_i {
            if let Some(index) = b.index_with(i, "bam", |p| bam::fs::index(p)) {
                let name = b.items[i].name.clone();
                let mut out = Vec::new();
                match bam::bai::io::Writer::new(&mut out).write_index(&index) {
                    Ok(()) => {
                        b.push_bytes(Kind::Bai, index_name(Kind::Bai, &name), out, index_side(&name), true);
                    }
                    Err(e) => b.note(&name, format!("bai writer failed: {e}")),
                }
            }
        }
        if let Some(i) = samgz {
            if let Some(index) = b.index_with(i, "sam.gz", |p| sam::fs::index(p)) {
                let name = b.items[i].name.clone();
                push_csi(b, &name, &index);
            }
        }
    }
}

fn push_csi(b: &mut Builder, data_name: &str, index: &noodles_csi::Index) {
    let mut out = Vec::new();
    let r = (|| -> io::Result<()> {
        let mut w = noodles_csi::io::Writer::new(&mut out);
        w.write_index(index)?;
        w.get_mut().try_finish()?;
        let _ = w.into_inner().into_inner();
        Ok(())
    })();
    match r {
        Ok(()) => {
            b.push_bytes(Kind::Csi, index_name(Kind::Csi, data_name), out, index_side(data_name), true);
        }
        Err(e) => b.note(data_name, format!("csi writer failed: {e}")),
    }
}

fn build_cram(b: &mut Builder, scale: u8) {
    for set in cram_sets() {
        let wanted = if scale == 0 { set.only_scale0 } else { !set.only_scale0 && set.min_scale <= scale };
        if !wanted {
            continue;
        }
        let side = cram_set_side(&set);
        let name = format!("cram/{}", set.name);
        let bytes = if set.fixture.is_empty() {
            // fixture not generated yet: fall back to a fresh file (bytes then differ from run to run)
            match catch_unwind(AssertUnwindSafe(|| cram_fresh(&set))) {
                Ok(Ok(v)) => {
                    b.note(&name, "fixture file is empty; generated a fresh CRAM (not byte-stable across runs)");
                    v
                }
                Ok(Err(e)) => {
                    b.note(&name, format!("cram writer rejected the model: {e}"));
                    continue;
                }
                Err(_) => {
                    b.note(&name, "cram writer panicked on the model");
                    continue;
                }
            }
        } else {
            set.fixture.to_vec()
        };
        b.items.push(Item { kind: Kind::Cram, name: name.clone(), bytes, side });
        let i = b.items.len() - 1;
        if !set.crai_indexable {
            continue;
        }
        if let Some(index) = b.index_with(i, "cram", |p| cram::fs::index(p)) {
            let mut out = Vec::new();
            let r = (|| -> io::Result<()> {
                let mut w = cram::crai::io::Writer::new(&mut out);
                w.write_index(&index)?;
                w.finish()?;
                Ok(())
            })();
            match r {
                Ok(()) => {
                    b.push_bytes(Kind::Crai, index_name(Kind::Crai, &name), out, index_side(&name), true);
                }
                Err(e) => b.note(&name, format!("crai writer failed: {e}")),
            }
        }
    }
}

fn build_variant(b: &mut Builder, seed: u64, scale: u8) {
    for (si, set) in var_sets(scale).into_iter().enumerate() {
        let mut rng = Rng::new(seed, 0x7C, si as u64);
        let refs = refs_for(&mut rng, set.refs, set.ref_len);
        let model = g::vcf_text(&mut rng, &refs, &set.spec);
        let side = |flush_every| Side { model: Some(model.clone()), flush_every, ..side_writable() };
        b.push_written(Kind::Vcf, format!("vcf/{}", set.name), side(0));
        let vcfgz = b.push_written(Kind::VcfGz, format!("vcfgz/{}", set.name), side(set.flush_every));
        let bcf_i = b.push_written(Kind::Bcf, format!("bcf/{}", set.name), side(set.flush_every));
        b.push_written(Kind::BcfRaw, format!("bcfraw/{}", set.name), side(0));

        if let Some(i) = vcfgz {
            if let Some(index) = b.index_with(i, "vcf.gz", |p| vcf::fs::index(p)) {
                let name = b.items[i].name.clone();
                let mut out = Vec::new();
                let r = (|| -> io::Result<()> {
                    let mut w = noodles_tabix::io::Writer::new(&mut out);
                    w.write_index(&index)?;
                    w.try_finish()?;
                    let _ = w.into_inner().into_inner();
                    Ok(())
                })();
                match r {
                    Ok(()) => {
                        b.push_bytes(Kind::Tbi, index_name(Kind::Tbi, &name), out, index_side(&name), true);
                    }
                    Err(e) => b.note(&name, format!("tabix writer failed: {e}")),
                }
            }
        }
        if let Some(i) = bcf_i {
            if let Some(index) = b.index_with(i, "bcf", |p| bcf::fs::index(p)) {
                let name = b.items[i].name.clone();
                push_csi(b, &name, &index);
            }
        }
    }
}

fn build_text(b: &mut Builder, seed: u64, scale: u8) {
    let mut rng = Rng::new(seed, 0x7E, 0);
    let refs = refs_for(&mut rng, if scale == 0 { 1 } else { 3 }, if scale == 0 { (200, 300) } else { (1500, 4000) });

    // FASTA: (name, n, len range, width, eol, final eol)
    let mut fa: Vec<(&str, usize, (usize, usize), usize, &str, bool)> = Vec::new();
    if scale == 0 {
        fa.push(("tiny-2seqs-w80", 2, (90, 200), 80, "\n", true));
    } else {
        fa.push(("empty", 0, (0, 0), 80, "\n", true));
        fa.push(("small-3seqs-w80", 3, (50, 400), 80, "\n", true));
        fa.push(("many-40seqs-w80", 40, (1, 900), 80, "\n", true));
        fa.push(("handwritten-w60-crlf", 4, (100, 300), 60, "\r\n", true));
        fa.push(("handwritten-w7-no-final-eol", 3, (20, 60), 7, "\n", false));
    }
    if scale >= 2 {
        fa.push(("large-6seqs-w80", 6, (20000, 60000), 80, "\n", true));
        fa.push(("handwritten-w1", 3, (5, 30), 1, "\n", true));
    }
    for (name, n, len, width, eol, fin) in fa {
        let bytes = g::fasta_text(&mut rng, n, len.0, len.1, width, eol, fin);
        let i = b.push_bytes(Kind::Fasta, format!("fasta/{name}"), bytes, Side::default(), true);
        let dname = b.items[i].name.clone();
        if let Some(index) = b.index_with(i, "fa", |p| fasta::fs::index(p)) {
            let mut out = Vec::new();
            match fasta::fai::io::Writer::new(&mut out).write_index(&index) {
                Ok(()) => {
                    b.push_bytes(Kind::Fai, index_name(Kind::Fai, &dname), out, index_side(&dname), true);
                }
                Err(e) => b.note(&dname, format!("fai writer failed: {e}")),
            }
        }
    }

    // FASTQ
    let mut fq: Vec<(&str, usize, (usize, usize), &str, bool)> = Vec::new();
    if scale == 0 {
        fq.push(("tiny-4reads", 4, (10, 40), "\n", false));
    } else {
        fq.push(("empty", 0, (0, 0), "\n", false));
        fq.push(("small-6reads", 6, (1, 80), "\n", false));
        fq.push(("many-300reads", 300, (30, 150), "\n", false));
        fq.push(("handwritten-plus-line-repeats-name", 8, (20, 60), "\n", true));
        fq.push(("handwritten-crlf", 5, (10, 30), "\r\n", false));
    }
    if scale >= 2 {
        fq.push(("large-3000reads", 3000, (50, 250), "\n", false));
    }
    for (name, n, len, eol, plus) in fq {
        let bytes = g::fastq_text(&mut rng, n, len.0, len.1, eol, plus);
        let i = b.push_bytes(Kind::Fastq, format!("fastq/{name}"), bytes, Side::default(), true);
        let dname = b.items[i].name.clone();
        if let Some(index) = b.index_with(i, "fq", |p| fastq::fs::index(p)) {
            let mut out = Vec::new();
            let r = (|| -> io::Result<()> {
                let mut w = fastq::fai::io::Writer::new(&mut out);
                for rec in &index {
                    w.write_record(rec)?;
                }
                Ok(())
            })();
            match r {
                Ok(()) => {
                    b.push_bytes(Kind::FastqFai, index_name(Kind::FastqFai, &dname), out, index_side(&dname), true);
                }
                Err(e) => b.note(&dname, format!("fastq fai writer failed: {e}")),
            }
        }
    }

    // GFF3 / GTF: the generated text and (when different) its re-emission through the noodles writer
    let genes: Vec<(&str, usize)> = match scale {
        0 => vec![("tiny-3genes", 3)],
        1 => vec![("small-6genes", 6), ("many-150genes", 150)],
        _ => vec![("small-6genes", 6), ("many-150genes", 150), ("large-2500genes", 2500)],
    };
    for (name, n) in &genes {
        let text = g::gff_text(&mut rng, &refs, *n);
        push_text_pair(b, Kind::Gff, "gff", name, text);
        let text = g::gtf_text(&mut rng, &refs, *n);
        push_text_pair(b, Kind::Gtf, "gtf", name, text);
    }

    // BED
    let mut beds: Vec<(&str, u8, usize, usize, bool)> = Vec::new();
    if scale == 0 {
        beds.push(("tiny-bed4-5lines", 4, 5, 1, false));
    } else {
        beds.push(("bed3-10lines", 3, 10, 0, false));
        beds.push(("bed3-plus2-comments-40lines", 3, 40, 2, true));
        beds.push(("bed4-12lines", 4, 12, 0, false));
        beds.push(("bed5-plus1-30lines", 5, 30, 1, false));
        beds.push(("bed6-plus6-400lines", 6, 400, 6, false));
        beds.push(("bed3-empty", 3, 0, 0, false));
    }
    if scale >= 2 {
        beds.push(("bed6-5000lines", 6, 5000, 0, true));
    }
    for (name, n, lines, extra, comments) in beds {
        let bytes = g::bed_text(&mut rng, &refs, n, lines, extra, comments);
        b.push_bytes(Kind::Bed, format!("bed/{name}"), bytes, Side { bed_n: n, ..Side::default() }, true);
    }
}

/// Pushes the hand-written text (writable only if the writer reproduces it) and, if the noodles writer
/// emits something different for the same content, that canonical form as a second, writable item.
fn push_text_pair(b: &mut Builder, kind: Kind, prefix: &str, name: &str, text: Vec<u8>) {
    let i = b.push_bytes(kind, format!("{prefix}/{name}"), text, Side::default(), true);
    if !b.items[i].side.writable {
        // re-emit through the writer
        let mut probe = b.items[i].clone();
        probe.side.writable = true;
        let res = catch_unwind(AssertUnwindSafe(|| -> io::Result<Vec<u8>> {
            let p = prepare_write(&probe)?;
            let mut out = Vec::new();
            write_prepared(&p, &mut out)?;
            Ok(out)
        }));
        match res {
            Ok(Ok(bytes)) => {
                b.items[i].name = format!("{prefix}/{name}-handwritten");
                b.push_bytes(kind, format!("{prefix}/{name}-canonical"), bytes, Side::default(), true);
            }
            Ok(Err(e)) => b.note(&format!("{prefix}/{name}"), format!("re-emission failed: {e}")),
            Err(_) => b.note(&format!("{prefix}/{name}"), "re-emission panicked"),
        }
    }
}

// ------------------------------------------------------------------------------------------------
// known problems

/// A valid file, written by a noodles writer, that a noodles reader of the same family does not read back on
/// the pinned tree.
#[derive(Clone, Debug)]
pub struct KnownProblem {
    pub item: Item,
    /// the transcript variant that shows the problem
    pub variant: crate::Variant,
    pub what: &'static str,
}

pub fn known_problems() -> Vec<KnownProblem> {
    let mut v = Vec::new();
    let written = |kind: Kind, name: &str, model: &[u8]| -> Option<Item> {
        let mut item = Item { kind, name: name.to_string(), bytes: Vec::new(), side: Side { model: Some(model.to_vec()), ..side_writable() } };
        let mut out = Vec::new();
        crate::write_history(&item, &mut out).ok()?;
        item.bytes = out;
        Some(item)
    };

    // 1. SAM: an empty B array followed by another field. The SAM writer emits `XB:B:s`, read_record_buf accepts
    //    it, the lazy sam::Record data parser answers InvalidData("invalid delimiter").
    let sam = b"@HD\tVN:1.6\n@SQ\tSN:sq0\tLN:100\nr0\t0\tsq0\t1\t60\t4M\t*\t0\t0\tACGT\tIIII\tXB:B:s\tXG:B:f,1.5\n";
    if let Some(item) = written(Kind::Sam, "known/sam-empty-b-array-followed-by-field", sam) {
        v.push(KnownProblem {
            item,
            variant: crate::Variant::Primary,
            what: "lazy sam::Record: data().iter() fails with InvalidData(invalid delimiter) on `XB:B:s<TAB>XG:B:f,1.5` (empty array, then another field); the R element carries the error, the transcript still ends with END",
        });
    }

    // 2. VCF: a sample whose only value is missing. read_record_buf parses `.` into a sample without values, the
    //    VCF writer re-emits it as an EMPTY column, read_record_buf rejects that file (InvalidData "invalid samples").
    let vcf = b"##fileformat=VCFv4.3\n##contig=<ID=sq0,length=100>\n##FORMAT=<ID=GQ,Number=1,Type=Integer,Description=\"Genotype quality\">\n#CHROM\tPOS\tID\tREF\tALT\tQUAL\tFILTER\tINFO\tFORMAT\tsample0\tsample1\nsq0\t5\t.\tA\t.\t.\t.\t.\tGQ\t.\t7\n";
    if let Some(item) = written(Kind::Vcf, "known/vcf-sample-with-only-a-missing-value", vcf) {
        v.push(KnownProblem {
            item,
            variant: crate::Variant::Eager,
            what: "vcf writer emits an empty sample column for a sample whose only value is `.`; read_record_buf then fails with InvalidData(invalid samples)",
        });
    }

    // 2b. BCF: genotypes of ploidy 3 and 2 in one record. The BCF writer accepts the record; the lazy bcf::Record
    //     then fails to decode its samples (UnexpectedEof / InvalidData) and, when another FORMAT key follows GT,
    //     read_record_buf fails with InvalidData("invalid key").
    let vcf = b"##fileformat=VCFv4.3\n##contig=<ID=sq0,length=100>\n##FORMAT=<ID=GT,Number=1,Type=String,Description=\"Genotype\">\n##FORMAT=<ID=GQ,Number=1,Type=Integer,Description=\"Genotype quality\">\n#CHROM\tPOS\tID\tREF\tALT\tQUAL\tFILTER\tINFO\tFORMAT\tsample0\tsample1\nsq0\t5\t.\tA\tC\t.\t.\t.\tGT:GQ\t0/1/1:4\t0/0:5\n";
    for (kind, name) in [(Kind::BcfRaw, "known/bcfraw-mixed-ploidy-genotypes"), (Kind::Bcf, "known/bcf-mixed-ploidy-genotypes")] {
        if let Some(item) = written(kind, name, vcf) {
            v.push(KnownProblem {
                item,
                variant: crate::Variant::Eager,
                what: "bcf writer output for GT `0/1/1` next to `0/0` (+ a second FORMAT key) is not decodable: read_record_buf -> InvalidData(invalid key); lazy record: samples() accessors fail",
            });
        }
    }

    // 2c. BCF: an Integer-array FORMAT key (Number=G / R) that is missing in every sample.
    let vcf = b"##fileformat=VCFv4.3\n##contig=<ID=sq0,length=100>\n##FORMAT=<ID=GT,Number=1,Type=String,Description=\"Genotype\">\n##FORMAT=<ID=PL,Number=G,Type=Integer,Description=\"Likelihoods\">\n#CHROM\tPOS\tID\tREF\tALT\tQUAL\tFILTER\tINFO\tFORMAT\tsample0\tsample1\nsq0\t5\t.\tA\tC\t.\t.\t.\tGT:PL\t0/1:.\t1/1:.\n";
    if let Some(item) = written(Kind::BcfRaw, "known/bcfraw-integer-array-series-missing-in-every-sample", vcf) {
        v.push(KnownProblem {
            item,
            variant: crate::Variant::Eager,
            what: "bcf writer output for `GT:PL 0/1:. 1/1:.` (PL missing in every sample) is not decodable: read_record_buf -> InvalidData(invalid values); lazy record: samples accessors fail",
        });
    }

    // 3. CRAI with two records: `crai::io::Reader::read_index` never clears its line buffer, so the second line
    //    is appended to the first and parsing fails (InvalidData "invalid digit found in string").
    {
        use noodles_core::Position;
        let index = vec![
            cram::crai::Record::new(Some(0), Position::new(1), 100, 26, 187, 900),
            cram::crai::Record::new(Some(0), Position::new(120), 80, 1200, 187, 850),
        ];
        let mut out = Vec::new();
        let ok = (|| -> io::Result<()> {
            let mut w = cram::crai::io::Writer::new(&mut out);
            w.write_index(&index)?;
            w.finish()?;
            Ok(())
        })();
        if ok.is_ok() {
            v.push(KnownProblem {
                item: Item { kind: Kind::Crai, name: "known/crai-two-records".into(), bytes: out, side: Side::default() },
                variant: crate::Variant::Eager,
                what: "crai::io::Reader::read_index fails on every index with more than one record (line buffer not cleared between records); read_record works",
            });
        }
    }
    v
}
