//! Self-test of the corpus crate.
//!
//! `corpus_selftest [--seeds 1,2,3] [--scales 0,1] [--list]`
//!
//! For every seed × scale: builds the corpus twice (determinism of bytes), runs every transcript variant of
//! every item from a plain slice (must end with END without error elements, twice identical, deep and non-deep,
//! deep = plain + A elements), through a `Cursor` (BufRead entry point) and small BufReader capacities, plugs in
//! `vcore::adv::{ChunkedRead, FaultyWrite}`, replays every write history on a `Vec<u8>` (must equal `item.bytes`;
//! CRAM: equal transcripts; BGZF: also the dropped and the multithreaded writer), checks the boundary walkers
//! against what the readers saw, and prints an inventory. Behaviour of noodles that differs under adversarial
//! delivery is C12 / C14 material: it is summarised as `OBSERVED` lines and never fails the self-test.
//!
//! Tools: `--regen-fixtures` (rewrite corpus/data/*.cram from the current tree; rebuild afterwards),
//! `--digest <seed> <scale>` (name, length, FNV of every item), `--dump <seed> <scale> <item> [primary|eager|indexer]
//! [deep]` (print a transcript; `CORPUS_DUMP_DIR=<dir>` also writes the bytes there), `--probe <kind> <model file>` and
//! `--probe-each <kind> <model file>` (write a SAM / VCF text model through the writer of `<kind>` and read it back,
//! whole or record by record — how the known problems were isolated).

use std::{collections::BTreeMap, io::Cursor, process::ExitCode};

use corpus::{Item, Kind, Variant};

fn ends_ok(t: &[String]) -> bool {
    t.last().map(|s| s == "END").unwrap_or(false)
}

fn regen_fixtures() -> ExitCode {
    let dir = std::path::Path::new(env!("CARGO_MANIFEST_DIR")).join("data");
    for set in corpus::items::cram_sets() {
        let path = dir.join(format!("cram-{}.cram", set.name));
        match corpus::items::cram_fresh(&set) {
            Ok(bytes) => {
                // must be readable before it becomes a fixture
                let side = corpus::items::cram_set_side(&set);
                let t = corpus::transcript_read(Kind::Cram, &bytes[..], &side, false);
                if !ends_ok(&t) {
                    eprintln!("FAIL {}: fresh CRAM is not readable: {:?} ({:?})", set.name, t.last(), corpus::last_error_message());
                    return ExitCode::FAILURE;
                }
                std::fs::write(&path, &bytes).unwrap();
                println!("wrote {} ({} bytes, {} elements)", path.display(), bytes.len(), t.len());
            }
            Err(e) => {
                eprintln!("FAIL {}: {e}", set.name);
                return ExitCode::FAILURE;
            }
        }
    }
    ExitCode::SUCCESS
}

fn main() -> ExitCode {
    let args: Vec<String> = std::env::args().skip(1).collect();
    let mut seeds: Vec<u64> = vec![1, 2, 3];
    let mut scales: Vec<u8> = vec![0, 1];
    let mut list = false;
    let mut i = 0;
    while i < args.len() {
        match args[i].as_str() {
            "--regen-fixtures" => return regen_fixtures(),
            "--list" => list = true,
            "--smoke" => {
                // --smoke <seed>: every single-byte flip / truncation of the scale-0 items (BGZF-wrapped kinds: of the
                // inflated payload, re-sealed), all variants, deep; panics are tallied by location. A location inside
                // corpus/src would be a defect of this crate; locations in /repo are C15 material.
                let seed: u64 = args[i + 1].parse().unwrap();
                static PANICS: std::sync::Mutex<BTreeMap<String, usize>> = std::sync::Mutex::new(BTreeMap::new());
                std::panic::set_hook(Box::new(|info| {
                    let loc = info.location().map(|l| format!("{}:{}", l.file(), l.line())).unwrap_or_default();
                    if std::env::var_os("CORPUS_SMOKE_ECHO").is_some() {
                        eprintln!("PANIC-AT {loc}");
                    }
                    *PANICS.lock().unwrap().entry(loc).or_insert(0) += 1;
                }));
                let mut runs = 0usize;
                let only = std::env::var("CORPUS_SMOKE_ONLY").ok();
                let from: usize = std::env::var("CORPUS_SMOKE_FROM").ok().and_then(|s| s.parse().ok()).unwrap_or(0);
                for it in corpus::items(seed, 0) {
                    if only.as_ref().map(|o| o != &it.name).unwrap_or(false) {
                        continue;
                    }
                    let payload = corpus::inflated_payload(&it);
                    let base: &[u8] = payload.as_deref().unwrap_or(&it.bytes);
                    let n = base.len();
                    for k in from..(2 * n) {
                        let mut m = base.to_vec();
                        if k < n {
                            m[k] ^= if k % 3 == 0 { 0xFF } else if k % 3 == 1 { 0x01 } else { 0x80 };
                        } else {
                            m.truncate(k - n);
                        }
                        let bytes = if payload.is_some() { vcore::bgzf::reseal(&m, 300) } else { m };
                        for &variant in it.kind.variants() {
                            runs += 1;
                            if let Ok(f) = std::env::var("CORPUS_SMOKE_TRACE") {
                                let _ = std::fs::write(&f, format!("{} k={k} n={n} {variant:?}\n", it.name));
                            }
                            if let Ok(skip) = std::env::var("CORPUS_SMOKE_SKIP") {
                                if skip.split(',').any(|x| x == it.kind.name()) {
                                    continue;
                                }
                            }
                            let _ = std::panic::catch_unwind(std::panic::AssertUnwindSafe(|| {
                                corpus::transcript_read_variant(it.kind, variant, &bytes[..], &it.side, true, 16)
                            }));
                        }
                    }
                }
                let _ = std::panic::take_hook();
                println!("{runs} runs");
                let mut own = 0;
                for (loc, n) in PANICS.lock().unwrap().iter() {
                    println!("PANIC x{n} at {loc}");
                    if loc.contains("corpus/src") {
                        own += n;
                    }
                }
                return if own == 0 { ExitCode::SUCCESS } else { ExitCode::FAILURE };
            }
            "--digest" => {
                // --digest <seed> <scale>: name, length and FNV-1a of every item (to compare two processes)
                let seed: u64 = args[i + 1].parse().unwrap();
                let scale: u8 = args[i + 2].parse().unwrap();
                for it in corpus::items(seed, scale) {
                    println!("{}\t{}\t{:016x}\t{:016x}", it.name, it.bytes.len(), vcore::rng::fnv1a(&it.bytes), vcore::rng::fnv1a(format!("{:?}", it.side).as_bytes()));
                }
                return ExitCode::SUCCESS;
            }
            "--probe-each" => {
                // --probe-each <kind> <model file>: like --probe, one record (line not starting with # / @) at a time
                let kind = Kind::from_name(&args[i + 1]).expect("kind");
                let model = std::fs::read_to_string(&args[i + 2]).unwrap();
                let header: String = model.lines().filter(|l| l.starts_with('#') || l.starts_with('@')).map(|l| format!("{l}\n")).collect();
                for line in model.lines().filter(|l| !(l.starts_with('#') || l.starts_with('@'))) {
                    let m = format!("{header}{line}\n");
                    let mut item = Item { kind, name: "probe".into(), bytes: vec![], side: corpus::Side { model: Some(m.into_bytes()), writable: true, ..Default::default() } };
                    let mut out = Vec::new();
                    let res = std::panic::catch_unwind(std::panic::AssertUnwindSafe(|| corpus::write_history(&item, &mut out)));
                    match res {
                        Ok(Ok(())) => {
                            item.bytes = out;
                            for v in kind.variants() {
                                let t = corpus::transcript_read_variant(kind, *v, &item.bytes[..], &item.side, true, corpus::DEFAULT_CAP);
                                if t.iter().any(|e| e.contains('\u{15}') || e.starts_with("A-ERR") || e.starts_with("ERR")) {
                                    println!("READ-FAIL {v:?} {:?} {:?}: {line}", t.last().unwrap(), corpus::last_error_message());
                                }
                            }
                        }
                        Ok(Err(e)) => println!("WRITE-REJECT {:?} {e}: {line}", e.kind()),
                        Err(_) => println!("WRITE-PANIC: {line}"),
                    }
                }
                return ExitCode::SUCCESS;
            }
            "--probe" => {
                // --probe <kind> <model file>: write the model (SAM / VCF text) through the writer of <kind>, read it back
                let kind = Kind::from_name(&args[i + 1]).expect("kind");
                let model = std::fs::read(&args[i + 2]).unwrap();
                let mut item = Item { kind, name: "probe".into(), bytes: vec![], side: corpus::Side { model: Some(model), writable: true, ..Default::default() } };
                let mut out = Vec::new();
                match corpus::write_history(&item, &mut out) {
                    Ok(()) => {
                        item.bytes = out;
                        for v in kind.variants() {
                            let t = corpus::transcript_read_variant(kind, *v, &item.bytes[..], &item.side, true, corpus::DEFAULT_CAP);
                            let bad: Vec<&String> = t.iter().filter(|e| e.contains('\u{15}') || e.starts_with("A-ERR") || e.starts_with("ERR")).collect();
                            println!("{v:?}: {} elements, last {:?}, msg {:?}, bad: {:?}", t.len(), t.last().unwrap(), corpus::last_error_message(), bad);
                        }
                    }
                    Err(e) => println!("write failed: {:?} {e}", e.kind()),
                }
                return ExitCode::SUCCESS;
            }
            "--dump" => {
                // --dump <seed> <scale> <item name> <variant: primary|eager|indexer> [deep]
                let seed: u64 = args[i + 1].parse().unwrap();
                let scale: u8 = args[i + 2].parse().unwrap();
                let name = &args[i + 3];
                let variant = match args.get(i + 4).map(String::as_str) {
                    Some("eager") => Variant::Eager,
                    Some("indexer") => Variant::Indexer,
                    _ => Variant::Primary,
                };
                let deep = args.get(i + 5).map(|s| s == "deep").unwrap_or(false);
                let items = corpus::items(seed, scale);
                let Some(it) = items.iter().find(|x| &x.name == name) else {
                    eprintln!("no such item; have: {:?}", items.iter().map(|x| &x.name).collect::<Vec<_>>());
                    return ExitCode::FAILURE;
                };
                if let Ok(dir) = std::env::var("CORPUS_DUMP_DIR") {
                    std::fs::write(std::path::Path::new(&dir).join(name.replace('/', "-")), &it.bytes).unwrap();
                }
                for e in corpus::transcript_read_variant(it.kind, variant, &it.bytes[..], &it.side, deep, corpus::DEFAULT_CAP) {
                    println!("{}", e.replace('\u{1f}', " ## "));
                }
                println!("last error message: {:?}", corpus::last_error_message());
                println!("boundaries: {:?}", corpus::boundaries(it));
                return ExitCode::SUCCESS;
            }
            "--seeds" => {
                i += 1;
                seeds = args[i].split(',').map(|s| s.parse().unwrap()).collect();
            }
            "--scales" => {
                i += 1;
                scales = args[i].split(',').map(|s| s.parse().unwrap()).collect();
            }
            other => {
                eprintln!("unknown argument {other}");
                return ExitCode::FAILURE;
            }
        }
        i += 1;
    }

    // behaviour of noodles that is not a corpus matter (C12 / C14 material): counted per class, one example kept
    let observations: std::cell::RefCell<BTreeMap<String, (usize, String)>> = Default::default();
    let observe = |class: String, example: String| {
        let mut o = observations.borrow_mut();
        let e = o.entry(class).or_insert((0, example));
        e.0 += 1;
    };
    let mut failures = 0usize;
    let mut fail = |msg: String| {
        failures += 1;
        eprintln!("FAIL {msg}");
    };

    for &scale in &scales {
        for &seed in &seeds {
            let t0 = std::time::Instant::now();
            let (items, notes) = corpus::build_report(seed, scale);
            let build_time = t0.elapsed();
            for n in &notes {
                println!("NOTE seed={seed} scale={scale} {}: {}", n.item, n.what);
            }
            // determinism of the corpus itself
            let again = corpus::items(seed, scale);
            if again.len() != items.len() {
                fail(format!("seed={seed} scale={scale}: item count differs between two builds"));
            }
            for (a, b) in items.iter().zip(&again) {
                if a.name != b.name || a.bytes != b.bytes || a.kind != b.kind {
                    fail(format!("seed={seed} scale={scale}: item {} differs between two builds", a.name));
                }
            }
            // names unique, every kind present
            let mut by_kind: BTreeMap<Kind, Vec<&Item>> = BTreeMap::new();
            let mut names = std::collections::BTreeSet::new();
            for it in &items {
                by_kind.entry(it.kind).or_default().push(it);
                if !names.insert(it.name.clone()) {
                    fail(format!("duplicate item name {}", it.name));
                }
                if let Some(d) = &it.side.indexed_item {
                    if !items.iter().any(|x| &x.name == d) {
                        fail(format!("{}: indexed item {d} not in the corpus", it.name));
                    }
                }
            }
            for k in Kind::ALL {
                if !by_kind.contains_key(k) {
                    fail(format!("seed={seed} scale={scale}: no item of kind {}", k.name()));
                }
            }

            let mut elements = 0usize;
            let mut transcripts = 0usize;
            let t1 = std::time::Instant::now();
            for it in &items {
                let mut primary: Option<Vec<String>> = None;
                for &variant in it.kind.variants() {
                    for deep in [false, true] {
                        let a = corpus::transcript_read_variant(it.kind, variant, &it.bytes[..], &it.side, deep, corpus::DEFAULT_CAP);
                        let msg = corpus::last_error_message();
                        transcripts += 1;
                        elements += a.len();
                        if !ends_ok(&a) {
                            fail(format!(
                                "{} {variant:?} deep={deep}: transcript ends with {:?} ({msg:?}) after {} elements",
                                it.name,
                                a.last(),
                                a.len()
                            ));
                            continue;
                        }
                        if let Some(e) = a.iter().find(|e| e.starts_with("A-ERR:") || e.contains('\u{15}')) {
                            fail(format!("{} {variant:?} deep={deep}: valid item has an error element: {}", it.name, &e[..e.len().min(200)]));
                        }
                        let b = corpus::transcript_read_variant(it.kind, variant, &it.bytes[..], &it.side, deep, corpus::DEFAULT_CAP);
                        if a != b {
                            fail(format!("{} {variant:?} deep={deep}: two reads of the same slice differ", it.name));
                        }
                        // a BufRead source (Cursor) and small BufReader capacities give the same transcript
                        let c = corpus::transcript_bufread_variant(it.kind, variant, Cursor::new(&it.bytes[..]), &it.side, deep);
                        if a != c {
                            fail(format!("{} {variant:?} deep={deep}: Cursor (BufRead) transcript differs from slice transcript", it.name));
                        }
                        if !deep && it.bytes.len() < 20_000 {
                            for cap in [1usize, 3, 64] {
                                let d = corpus::transcript_read_variant(it.kind, variant, &it.bytes[..], &it.side, deep, cap);
                                if a != d {
                                    // not a corpus defect: this is what C12 is about; reported, not failed
                                    let k = a.iter().zip(&d).position(|(x, y)| x != y).unwrap_or(a.len().min(d.len()));
                                    observe(
                                        format!("{} {variant:?}: small BufReader capacity changes the transcript", it.name),
                                        format!("cap {cap}, element {k}: {:?} vs {:?}", a.get(k).map(|e| &e[..e.len().min(120)]), d.get(k).map(|e| &e[..e.len().min(120)])),
                                    );
                                }
                            }
                        }
                        if !deep && variant == Variant::Primary {
                            primary = Some(a.clone());
                        }
                        if deep {
                            // deep = non-deep + A elements
                            let stripped: Vec<String> = a.iter().filter(|e| !e.starts_with("A:") && !e.starts_with("A-ERR:")).cloned().collect();
                            let plain = corpus::transcript_read_variant(it.kind, variant, &it.bytes[..], &it.side, false, corpus::DEFAULT_CAP);
                            if stripped != plain {
                                fail(format!("{} {variant:?}: deep transcript minus A elements differs from the plain one", it.name));
                            }
                        }
                    }
                }
                // Primary and Eager agree on the R elements for record kinds where both render through the same writer
                if matches!(it.kind, Kind::Bam | Kind::BamRaw | Kind::Vcf | Kind::VcfGz | Kind::Bcf | Kind::BcfRaw | Kind::Cram) {
                    let e = corpus::transcript_read_variant(it.kind, Variant::Eager, &it.bytes[..], &it.side, false, corpus::DEFAULT_CAP);
                    let r = |t: &[String]| t.iter().filter(|x| x.starts_with("R:")).cloned().collect::<Vec<_>>();
                    if let Some(p) = &primary {
                        if r(p) != r(&e) {
                            let (a, b) = (r(p), r(&e));
                            let k = a.iter().zip(&b).position(|(x, y)| x != y);
                            observe(
                                format!("{}: Primary (lazy) and Eager R elements differ", it.kind.name()),
                                format!("{} first at {:?}: {:?} vs {:?}", it.name, k, k.map(|k| &a[k][..a[k].len().min(300)]), k.map(|k| &b[k][..b[k].len().min(300)])),
                            );
                        }
                    }
                }

                // the vcore adversaries plug in (API check; differences are C12 / C14 material, only reported)
                if it.bytes.len() <= 4096 {
                    use vcore::adv::{ChunkedRead, Sizes};
                    if let Some(p) = &primary {
                        let a = corpus::transcript_read(it.kind, ChunkedRead::from_slice(&it.bytes, Sizes::Fixed(1)), &it.side, false);
                        let b = corpus::transcript_bufread(it.kind, ChunkedRead::from_slice(&it.bytes, Sizes::Fixed(1)), &it.side, false);
                        let c = corpus::transcript_bufread(it.kind, ChunkedRead::from_slice(&it.bytes, Sizes::Random(7, seed)).with_interrupts([0, it.bytes.len() / 2, it.bytes.len()]), &it.side, false);
                        for (what, t) in [("Read 1 byte/call", &a), ("BufRead 1-byte windows", &b), ("BufRead random<=7 + 3 Interrupted", &c)] {
                            if t != p {
                                let k = t.iter().zip(p).position(|(x, y)| x != y).unwrap_or(t.len().min(p.len()));
                                observe(
                                    format!("{} via ChunkedRead: {what} changes the transcript", it.kind.name()),
                                    format!("{} element {k}: slice {:?} vs adversary {:?}", it.name, p.get(k).map(|e| &e[..e.len().min(100)]), t.get(k).map(|e| &e[..e.len().min(100)])),
                                );
                            }
                        }
                    }
                    if it.writable() {
                        use vcore::adv::{Accept, FaultMode, FaultyWrite};
                        let healthy = FaultyWrite::new(FaultMode::None, std::io::ErrorKind::Other, Accept::AtMost(3));
                        let r = corpus::write_history(it, healthy.clone());
                        if r.is_err() || (it.write_bytes_deterministic() && healthy.bytes() != it.bytes) {
                            observe(format!("{}: short-write sink (3 bytes/call) changes the outcome", it.kind.name()), format!("{}: result {r:?}, bytes equal: {}", it.name, healthy.bytes() == it.bytes));
                        }
                        let broken = FaultyWrite::new(FaultMode::Sticky(0), std::io::ErrorKind::BrokenPipe, Accept::All);
                        let r = corpus::write_history(it, broken.clone());
                        let calls = broken.log.lock().unwrap().calls;
                        if r.is_ok() && calls > 0 {
                            observe(format!("{}: every sink call failed but write_history returned Ok", it.kind.name()), format!("{} ({calls} sink calls)", it.name));
                        }
                    }
                }

                // write history
                if it.writable() {
                    let mut out = Vec::new();
                    match corpus::write_history(it, &mut out) {
                        Ok(()) => {
                            if it.write_bytes_deterministic() {
                                if out != it.bytes {
                                    fail(format!("{}: write history produced {} bytes != item bytes ({})", it.name, out.len(), it.bytes.len()));
                                }
                            } else {
                                let a = corpus::transcript_read(it.kind, &out[..], &it.side, false);
                                let b = corpus::transcript_read(it.kind, &it.bytes[..], &it.side, false);
                                if a != b {
                                    fail(format!("{}: transcript of the rewritten file differs from the item's", it.name));
                                }
                                if out.len() != it.bytes.len() {
                                    println!("INFO {}: rewritten length {} != fixture length {}", it.name, out.len(), it.bytes.len());
                                }
                            }
                        }
                        Err(e) => fail(format!("{}: write history failed on Vec: {e}", it.name)),
                    }
                    if it.kind == Kind::Bgzf {
                        let mut out = Vec::new();
                        if let Err(e) = corpus::write_history_bgzf_drop(it, &mut out) {
                            fail(format!("{}: drop history failed: {e}", it.name));
                        }
                        if out != it.bytes {
                            fail(format!("{}: dropped writer produced different bytes ({} vs {})", it.name, out.len(), it.bytes.len()));
                        }
                        let sink = vcore::adv::FaultyWrite::healthy();
                        match corpus::write_history_bgzf_mt(it, sink.clone()) {
                            Ok(()) => {
                                if sink.bytes() != it.bytes {
                                    fail(format!("{}: multithreaded writer produced different bytes", it.name));
                                }
                            }
                            Err(e) => fail(format!("{}: mt history failed: {e}", it.name)),
                        }
                    }
                } else {
                    let sink = vcore::adv::FaultyWrite::healthy();
                    match corpus::write_history(it, sink.clone()) {
                        Err(e) if e.kind() == std::io::ErrorKind::Unsupported && sink.log.lock().unwrap().calls == 0 => {}
                        other => fail(format!("{}: non-writable item: write_history returned {other:?}", it.name)),
                    }
                }

                // boundaries
                let b = corpus::boundaries(it);
                if b.first() != Some(&0) || b.last() != Some(&it.bytes.len()) || b.windows(2).any(|w| w[0] >= w[1]) && it.bytes.len() > 0 {
                    fail(format!("{}: boundaries malformed: {:?}", it.name, &b[..b.len().min(10)]));
                }
                if matches!(it.kind, Kind::Bam | Kind::BamRaw | Kind::Bcf | Kind::BcfRaw) {
                    match corpus::record_boundaries_in_payload(it) {
                        Some(rb) => {
                            let n_rec = primary.as_ref().map(|p| p.iter().filter(|e| e.starts_with("R:")).count()).unwrap_or(0);
                            let plen = corpus::inflated_payload(it).map(|p| p.len()).unwrap_or(it.bytes.len());
                            if rb.len() != n_rec + 1 || rb.last() != Some(&plen) {
                                fail(format!("{}: record boundaries {} for {} records; last {:?} vs payload {}", it.name, rb.len(), n_rec, rb.last(), plen));
                            }
                        }
                        None => fail(format!("{}: no record boundaries", it.name)),
                    }
                }
                if it.kind == Kind::Cram {
                    let l = corpus::cram_layout(&it.bytes);
                    let n_c = primary.as_ref().map(|p| p.iter().filter(|e| e.starts_with("C:")).count()).unwrap_or(0);
                    // header container + data containers + EOF container
                    if l.end != it.bytes.len() || l.containers.len() != n_c + 2 {
                        fail(format!("{}: cram layout: {} containers (reader saw {}), end {} of {}", it.name, l.containers.len(), n_c, l.end, it.bytes.len()));
                    }
                }
            }
            let read_time = t1.elapsed();

            println!(
                "seed={seed} scale={scale}: {} items, {} bytes total, {} transcripts, {} elements; build {:.2?}, checks {:.2?}",
                items.len(),
                items.iter().map(|i| i.bytes.len()).sum::<usize>(),
                transcripts,
                elements,
                build_time,
                read_time
            );
            if list || seed == seeds[0] {
                for (k, v) in &by_kind {
                    let sizes: Vec<String> = v
                        .iter()
                        .map(|i| format!("{}{}={}", i.name.split_once('/').map(|x| x.1).unwrap_or(&i.name), if i.writable() { "" } else { "(ro)" }, i.bytes.len()))
                        .collect();
                    println!("  {:9} {:2}  {}", k.name(), v.len(), sizes.join("  "));
                }
            }
        }
    }
    // observation: try_finish() followed by a plain drop of a BGZF writer appends a second EOF block
    {
        use std::io::Write as _;
        let mut v = Vec::new();
        {
            let mut w = noodles_bgzf::io::Writer::new(&mut v);
            w.write_all(b"x").unwrap();
            w.try_finish().unwrap();
        }
        let n = vcore::bgzf::walk(&v).map(|w| w.members.iter().filter(|m| m.is_eof_marker).count()).unwrap_or(0);
        observe("bgzf::io::Writer: write + try_finish() + drop".into(), format!("leaves {n} EOF marker block(s) in the sink"));
    }
    // the known problems: do they still reproduce on this tree?
    for k in corpus::known_problems() {
        let t = corpus::transcript_read_variant(k.item.kind, k.variant, &k.item.bytes[..], &k.item.side, false, corpus::DEFAULT_CAP);
        let bad = !ends_ok(&t) || t.iter().any(|e| e.contains('\u{15}'));
        println!(
            "KNOWN {} ({:?}): {} -> {}",
            k.item.name,
            k.variant,
            k.what,
            if bad { format!("still fails: last={:?} msg={:?}", t.last(), corpus::last_error_message()) } else { "NO LONGER FAILS on this tree (fixed?)".to_string() }
        );
        // (not a failure: the coordinator may have applied the fix to /repo; known_problems() can then be pruned)
    }
    for (class, (n, example)) in observations.borrow().iter() {
        println!("OBSERVED x{n} {class} -- e.g. {example}");
    }
    if failures > 0 {
        eprintln!("{failures} failure(s)");
        ExitCode::FAILURE
    } else {
        println!("corpus selftest OK");
        ExitCode::SUCCESS
    }
}
