//! Canonical write histories: the logical content of an item replayed through the noodles writer of its kind.

use std::io::{self, Write};

use noodles_bam as bam;
use noodles_bcf as bcf;
use noodles_bed as bed;
use noodles_bgzf as bgzf;
use noodles_cram as cram;
use noodles_csi as csi;
use noodles_fasta as fasta;
use noodles_fastq as fastq;
use noodles_gff as gff;
use noodles_gtf as gtf;
use noodles_sam as sam;
use noodles_tabix as tabix;
use noodles_vcf as vcf;

use crate::{BgzfOp, Item, Kind};

/// The decoded logical content of an item, ready to be replayed through a writer any number of times.
pub enum Model {
    Alignment { header: sam::Header, records: Vec<sam::alignment::RecordBuf> },
    Variant { header: vcf::Header, records: Vec<vcf::variant::RecordBuf> },
    Bgzf { payload: Vec<u8>, ops: Vec<BgzfOp> },
    Fasta(Vec<fasta::Record>),
    Fastq(Vec<fastq::Record>),
    Gff(Vec<gff::LineBuf>),
    Gtf(Vec<gtf::LineBuf>),
    Bed3(Vec<bed::Record<3>>),
    Bed4(Vec<bed::Record<4>>),
    Bed5(Vec<bed::Record<5>>),
    Bed6(Vec<bed::Record<6>>),
    Bai(bam::bai::Index),
    Csi(csi::Index),
    Tbi(tabix::Index),
    Gzi(bgzf::gzi::Index),
    Fai(fasta::fai::Index),
    FastqFai(Vec<fastq::fai::Record>),
    Crai(cram::crai::Index),
}

pub struct Prepared {
    pub kind: Kind,
    pub model: Model,
    /// BGZF-wrapped record kinds: `flush()` on the BGZF layer after every n records (0 = never)
    pub flush_every: usize,
    pub cram_layout: Option<(usize, usize)>,
    pub repository: fasta::Repository,
}

fn unsupported(what: &str) -> io::Error {
    io::Error::new(io::ErrorKind::Unsupported, format!("corpus: {what}"))
}

pub fn parse_sam(text: &[u8]) -> io::Result<(sam::Header, Vec<sam::alignment::RecordBuf>)> {
    let mut r = sam::io::Reader::new(text);
    let header = r.read_header()?;
    let records = r.record_bufs(&header).collect::<io::Result<Vec<_>>>()?;
    Ok((header, records))
}

pub fn parse_vcf(text: &[u8]) -> io::Result<(vcf::Header, Vec<vcf::variant::RecordBuf>)> {
    let mut r = vcf::io::Reader::new(text);
    let header = r.read_header()?;
    let records = r.record_bufs(&header).collect::<io::Result<Vec<_>>>()?;
    Ok((header, records))
}

macro_rules! read_bed {
    ($n:literal, $bytes:expr) => {{
        let mut r = bed::io::Reader::<$n, _>::new($bytes);
        let mut v = Vec::new();
        let mut rec = bed::Record::<$n>::default();
        while r.read_record(&mut rec)? != 0 {
            v.push(rec.clone());
        }
        v
    }};
}

/// Decodes the logical content of `item` (from `side.model` for the binary record kinds and BGZF, from
/// `item.bytes` for text and index kinds). `Err(Unsupported)` for items that are not writable.
pub fn prepare_write(item: &Item) -> io::Result<Prepared> {
    if !item.side.writable {
        return Err(unsupported("item is hand-made; no noodles writer produces these bytes"));
    }
    let model_text = || item.side.model.as_deref().ok_or_else(|| unsupported("item has no model"));
    let model = match item.kind {
        Kind::Bam | Kind::BamRaw | Kind::Cram | Kind::Sam | Kind::SamGz => {
            let (header, records) = parse_sam(model_text()?)?;
            Model::Alignment { header, records }
        }
        Kind::Bcf | Kind::BcfRaw | Kind::Vcf | Kind::VcfGz => {
            let (header, records) = parse_vcf(model_text()?)?;
            Model::Variant { header, records }
        }
        Kind::Bgzf => Model::Bgzf { payload: model_text()?.to_vec(), ops: item.side.bgzf_ops.clone() },
        Kind::Fasta => Model::Fasta(fasta::io::Reader::new(&item.bytes[..]).records().collect::<io::Result<_>>()?),
        Kind::Fastq => Model::Fastq(fastq::io::Reader::new(&item.bytes[..]).records().collect::<io::Result<_>>()?),
        Kind::Gff => Model::Gff(gff::io::Reader::new(&item.bytes[..]).line_bufs().collect::<io::Result<_>>()?),
        Kind::Gtf => Model::Gtf(gtf::io::Reader::new(&item.bytes[..]).line_bufs().collect::<io::Result<_>>()?),
        Kind::Bed => match item.side.bed_n {
            4 => Model::Bed4(read_bed!(4, &item.bytes[..])),
            5 => Model::Bed5(read_bed!(5, &item.bytes[..])),
            6 => Model::Bed6(read_bed!(6, &item.bytes[..])),
            _ => Model::Bed3(read_bed!(3, &item.bytes[..])),
        },
        Kind::Bai => Model::Bai(bam::bai::io::Reader::new(&item.bytes[..]).read_index()?),
        Kind::Csi => Model::Csi(csi::io::Reader::new(&item.bytes[..]).read_index()?),
        Kind::Tbi => Model::Tbi(tabix::io::Reader::new(&item.bytes[..]).read_index()?),
        Kind::Gzi => Model::Gzi(bgzf::gzi::io::Reader::new(&item.bytes[..]).read_index()?),
        Kind::Fai => Model::Fai(fasta::fai::io::Reader::new(&item.bytes[..]).read_index()?),
        Kind::FastqFai => {
            let mut r = fastq::fai::io::Reader::new(&item.bytes[..]);
            let mut v = Vec::new();
            let mut line = String::new();
            loop {
                line.clear();
                if r.read_record(&mut line)? == 0 {
                    break;
                }
                v.push(line.parse().map_err(|e| io::Error::new(io::ErrorKind::InvalidData, format!("{e:?}")))?);
            }
            Model::FastqFai(v)
        }
        Kind::Crai => {
            // record-wise: `read_index()` fails on more than one record on the pinned tree
            let mut r = cram::crai::io::Reader::new(&item.bytes[..]);
            let mut v = Vec::new();
            let mut rec = cram::crai::Record::default();
            while r.read_record(&mut rec)? != 0 {
                v.push(rec.clone());
            }
            Model::Crai(v)
        }
    };
    Ok(Prepared {
        kind: item.kind,
        model,
        flush_every: item.side.flush_every,
        cram_layout: item.side.cram_layout,
        repository: crate::read::repository(&item.side)?,
    })
}

pub(crate) fn cram_builder(p_layout: Option<(usize, usize)>, repo: fasta::Repository) -> cram::io::writer::Builder {
    let mut b = cram::io::writer::Builder::default().set_reference_sequence_repository(repo);
    if let Some((rps, spc)) = p_layout {
        b = b.verif_set_layout(rps, spc);
    }
    b
}

/// Replays the prepared content through the noodles writer of `p.kind` onto `sink`; returns the first error
/// of any writer call. The calls, in order: header, every record (BGZF-wrapped kinds: `flush()` of the BGZF
/// layer after every `flush_every` records), the writer's own finishing call (`try_finish` for BAM / BCF /
/// tabix / bgzf-wrapped SAM, VCF, CSI through the BGZF writer; `try_finish(&header)` for CRAM; `finish()` for
/// BGZF and CRAI), then `flush()` on the sink itself. A BGZF layer that was finished with `try_finish` is
/// dismantled with `into_inner()` so that its `Drop` does not append a second EOF block.
pub fn write_prepared<W: Write>(p: &Prepared, sink: W) -> io::Result<()> {
    use sam::alignment::io::Write as _;
    use vcf::variant::io::Write as _;

    let every = p.flush_every;
    let due = |i: usize| every > 0 && (i + 1) % every == 0;

    match (&p.model, p.kind) {
        (Model::Alignment { header, records }, Kind::Bam) => {
            let mut w = bam::io::Writer::new(sink);
            w.write_header(header)?;
            for (i, r) in records.iter().enumerate() {
                w.write_alignment_record(header, r)?;
                if due(i) {
                    w.get_mut().flush()?;
                }
            }
            w.try_finish()?;
            let mut sink = w.into_inner().into_inner();
            sink.flush()
        }
        (Model::Alignment { header, records }, Kind::BamRaw) => {
            let mut w = bam::io::Writer::from(sink);
            w.write_header(header)?;
            for r in records {
                w.write_alignment_record(header, r)?;
            }
            w.get_mut().flush()
        }
        (Model::Alignment { header, records }, Kind::Cram) => {
            let mut w = cram_builder(p.cram_layout, p.repository.clone()).build_from_writer(sink);
            w.write_header(header)?;
            for r in records {
                w.write_alignment_record(header, r)?;
            }
            w.try_finish(header)?;
            w.get_mut().flush()
        }
        (Model::Alignment { header, records }, Kind::Sam) => {
            let mut w = sam::io::Writer::new(sink);
            w.write_header(header)?;
            for r in records {
                w.write_alignment_record(header, r)?;
            }
            w.get_mut().flush()
        }
        (Model::Alignment { header, records }, Kind::SamGz) => {
            let mut w = sam::io::Writer::new(bgzf::io::Writer::new(sink));
            w.write_header(header)?;
            for (i, r) in records.iter().enumerate() {
                w.write_alignment_record(header, r)?;
                if due(i) {
                    w.get_mut().flush()?;
                }
            }
            w.get_mut().try_finish()?;
            let mut sink = w.into_inner().into_inner();
            sink.flush()
        }
        (Model::Variant { header, records }, Kind::Vcf) => {
            let mut w = vcf::io::Writer::new(sink);
            w.write_header(header)?;
            for r in records {
                w.write_variant_record(header, r)?;
            }
            w.get_mut().flush()
        }
        (Model::Variant { header, records }, Kind::VcfGz) => {
            let mut w = vcf::io::Writer::new(bgzf::io::Writer::new(sink));
            w.write_header(header)?;
            for (i, r) in records.iter().enumerate() {
                w.write_variant_record(header, r)?;
                if due(i) {
                    w.get_mut().flush()?;
                }
            }
            w.get_mut().try_finish()?;
            let mut sink = w.into_inner().into_inner();
            sink.flush()
        }
        (Model::Variant { header, records }, Kind::Bcf) => {
            let mut w = bcf::io::Writer::new(sink);
            w.write_header(header)?;
            for (i, r) in records.iter().enumerate() {
                w.write_variant_record(header, r)?;
                if due(i) {
                    w.get_mut().flush()?;
                }
            }
            w.try_finish()?;
            let mut sink = w.into_inner().into_inner();
            sink.flush()
        }
        (Model::Variant { header, records }, Kind::BcfRaw) => {
            let mut w = bcf::io::Writer::from(sink);
            w.write_header(header)?;
            for r in records {
                w.write_variant_record(header, r)?;
            }
            w.get_mut().flush()
        }
        (Model::Bgzf { payload, ops }, Kind::Bgzf) => {
            let mut w = bgzf::io::Writer::new(sink);
            bgzf_ops(&mut w, payload, ops)?;
            let mut sink = w.finish()?;
            sink.flush()
        }
        (Model::Fasta(records), _) => {
            let mut w = fasta::io::Writer::new(sink);
            for r in records {
                w.write_record(r)?;
            }
            w.get_mut().flush()
        }
        (Model::Fastq(records), _) => {
            let mut w = fastq::io::Writer::new(sink);
            for r in records {
                w.write_record(r)?;
            }
            w.get_mut().flush()
        }
        (Model::Gff(lines), _) => {
            let mut w = gff::io::Writer::new(sink);
            for l in lines {
                w.write_line(l)?;
            }
            w.get_mut().flush()
        }
        (Model::Gtf(lines), _) => {
            let mut w = gtf::io::Writer::new(sink);
            for l in lines {
                w.write_line(l)?;
            }
            w.get_mut().flush()
        }
        (Model::Bed3(records), _) => {
            let mut w = bed::io::Writer::<3, _>::new(sink);
            for r in records {
                w.write_record(r)?;
            }
            w.get_mut().flush()
        }
        (Model::Bed4(records), _) => {
            let mut w = bed::io::Writer::<4, _>::new(sink);
            for r in records {
                w.write_record(r)?;
            }
            w.get_mut().flush()
        }
        (Model::Bed5(records), _) => {
            let mut w = bed::io::Writer::<5, _>::new(sink);
            for r in records {
                w.write_record(r)?;
            }
            w.get_mut().flush()
        }
        (Model::Bed6(records), _) => {
            let mut w = bed::io::Writer::<6, _>::new(sink);
            for r in records {
                w.write_record(r)?;
            }
            w.get_mut().flush()
        }
        (Model::Bai(index), _) => {
            let mut w = bam::bai::io::Writer::new(sink);
            w.write_index(index)?;
            w.get_mut().flush()
        }
        (Model::Csi(index), _) => {
            let mut w = csi::io::Writer::new(sink);
            w.write_index(index)?;
            w.get_mut().try_finish()?;
            let mut sink = w.into_inner().into_inner();
            sink.flush()
        }
        (Model::Tbi(index), _) => {
            let mut w = tabix::io::Writer::new(sink);
            w.write_index(index)?;
            w.try_finish()?;
            let mut sink = w.into_inner().into_inner();
            sink.flush()
        }
        (Model::Gzi(index), _) => {
            let mut w = bgzf::gzi::io::Writer::new(sink);
            w.write_index(index)?;
            w.get_mut().flush()
        }
        (Model::Fai(index), _) => {
            let mut w = fasta::fai::io::Writer::new(sink);
            w.write_index(index)?;
            w.get_mut().flush()
        }
        (Model::FastqFai(records), _) => {
            let mut w = fastq::fai::io::Writer::new(sink);
            for r in records {
                w.write_record(r)?;
            }
            w.get_mut().flush()
        }
        (Model::Crai(index), _) => {
            let mut w = cram::crai::io::Writer::new(sink);
            w.write_index(index)?;
            let mut sink = w.finish()?;
            sink.flush()
        }
        _ => Err(unsupported("model does not match kind")),
    }
}

fn bgzf_ops<W: Write>(w: &mut W, payload: &[u8], ops: &[BgzfOp]) -> io::Result<()> {
    let mut off = 0usize;
    for op in ops {
        match *op {
            BgzfOp::Write(n) => {
                let end = (off + n).min(payload.len());
                w.write_all(&payload[off..end])?;
                off = end;
            }
            BgzfOp::Flush => w.flush()?,
        }
    }
    if off < payload.len() {
        w.write_all(&payload[off..])?;
    }
    Ok(())
}

fn bgzf_model(item: &Item) -> io::Result<(&[u8], &[BgzfOp])> {
    if item.kind != Kind::Bgzf || !item.side.writable {
        return Err(unsupported("not a writable Kind::Bgzf item"));
    }
    let payload = item.side.model.as_deref().ok_or_else(|| unsupported("item has no model"))?;
    Ok((payload, &item.side.bgzf_ops))
}

/// `Kind::Bgzf` only: the same write/flush calls on the single-threaded writer, which is then DROPPED without
/// `finish`. Returns the first error of the explicit write/flush calls (the drop itself cannot report).
pub fn write_history_bgzf_drop<W: Write>(item: &Item, sink: W) -> io::Result<()> {
    let (payload, ops) = bgzf_model(item)?;
    let mut w = bgzf::io::Writer::new(sink);
    let r = bgzf_ops(&mut w, payload, ops);
    drop(w);
    r
}

/// `Kind::Bgzf` only: the same write/flush calls through `MultithreadedWriter`, then `finish()` and `flush()`
/// of the returned sink.
pub fn write_history_bgzf_mt<W: Write + Send + 'static>(item: &Item, sink: W) -> io::Result<()> {
    let (payload, ops) = bgzf_model(item)?;
    let mut w = bgzf::io::MultithreadedWriter::new(sink);
    bgzf_ops(&mut w, payload, ops)?;
    let mut sink = w.finish()?;
    sink.flush()
}
