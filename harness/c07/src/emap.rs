//! Named `BlockContentEncoderMap` variants of the C07 option matrix.

use noodles_cram::{
    codecs::{Encoder, aac, rans_4x8, rans_nx16},
    container::{BlockContentEncoderMap, compression_header::data_series_encodings::DataSeries},
};
use noodles_cram::container::compression_header::preservation_map::tag_sets;
use noodles_sam::alignment::record::data::field::{Tag, Type};
use vcore::rng::fnv1a;

const TAG_KEYS: [([u8; 2], Type); 5] = [(*b"RG", Type::String), (*b"MD", Type::String), (*b"NM", Type::UInt8), (*b"NM", Type::Int32), (*b"NM", Type::UInt16)];

pub const ALL_SERIES: [DataSeries; 28] = [
    DataSeries::BamFlags,
    DataSeries::CramFlags,
    DataSeries::ReferenceSequenceIds,
    DataSeries::ReadLengths,
    DataSeries::AlignmentStarts,
    DataSeries::ReadGroupIds,
    DataSeries::Names,
    DataSeries::MateFlags,
    DataSeries::MateReferenceSequenceIds,
    DataSeries::MateAlignmentStarts,
    DataSeries::TemplateLengths,
    DataSeries::MateDistances,
    DataSeries::TagSetIds,
    DataSeries::FeatureCounts,
    DataSeries::FeatureCodes,
    DataSeries::FeaturePositionDeltas,
    DataSeries::DeletionLengths,
    DataSeries::StretchesOfBases,
    DataSeries::StretchesOfQualityScores,
    DataSeries::BaseSubstitutionCodes,
    DataSeries::InsertionBases,
    DataSeries::ReferenceSkipLengths,
    DataSeries::PaddingLengths,
    DataSeries::HardClipLengths,
    DataSeries::SoftClipBases,
    DataSeries::MappingQualities,
    DataSeries::Bases,
    DataSeries::QualityScores,
];

const NX16_FLAGS: &[u8] = &[0x00, 0x01, 0x04, 0x05, 0x08, 0x09, 0x20, 0x40, 0x41, 0x44, 0x80, 0x81, 0xC0, 0xC1, 0xC5];
const AAC_FLAGS: &[u8] = &[0x00, 0x01, 0x04, 0x08, 0x09, 0x20, 0x40, 0x41, 0x80, 0x81, 0xC0, 0xC1];

/// General-purpose encoders (valid on any block).
fn general() -> Vec<String> {
    let mut v: Vec<String> = vec![
        "none".into(),
        "gzip:1".into(),
        "gzip:6".into(),
        "gzip:9".into(),
        "bzip2:1".into(),
        "bzip2:9".into(),
        "lzma:1".into(),
        "lzma:6".into(),
        "rans4x8:0".into(),
        "rans4x8:1".into(),
    ];
    for f in NX16_FLAGS {
        v.push(format!("nx16:{f:#04x}"));
    }
    for f in AAC_FLAGS {
        v.push(format!("aac:{f:#04x}"));
    }
    v
}

/// Encoders the `mixed:*` maps draw from. AAC (rejects byte 255, asserts on short stripes) and
/// rANS 4x8 order 1 (rejects blocks shorter than 4 bytes) practically never get a small file
/// written when they sit on every series, so they are exercised by the uniform maps of the large
/// files and by the targeted `qs=` / `rn=` maps instead.
fn mixable() -> Vec<String> {
    general().into_iter().filter(|e| !e.starts_with("aac") && e != "rans4x8:1").collect()
}

pub fn names() -> Vec<String> {
    let mut v = vec!["default".to_string()];
    for e in general() {
        // uniform maps: all general encoders but only three of the AAC flag sets (see `mixable`)
        // (still true after the codec fixes: AAC rejects byte 255, rANS 4x8 order 1 blocks < 4 bytes)
        if !e.starts_with("aac") || ["aac:0x00", "aac:0x04", "aac:0x20", "aac:0x80", "aac:0xc0"].contains(&e.as_str()) {
            v.push(e);
        }
    }
    // AAC asserts on empty input and the core data block of noodles' writer is always empty:
    // the uniform aac:* maps leave the core block uncompressed; this one does not (writer panic)
    v.push("aac-core:0x00".into());
    // one series on the codec under observation, everything else on the default gzip
    for e in general() {
        if e.starts_with("rans") || e.starts_with("nx16") || e.starts_with("aac") {
            v.push(format!("qs={e}"));
        }
    }
    for e in ["rans4x8:1", "nx16:0x01", "nx16:0xc1", "aac:0x01", "aac:0x41", "bzip2:9"] {
        v.push(format!("rn={e}"));
    }
    // tag-specific encoders (set_tag_values_encoder) for RG:Z, MD:Z, NM:C, NM:i, NM:S
    v.push("tags=bzip2:9".into());
    v.push("tags=none".into());
    v.push("tok".into());
    v.push("tok+none".into());
    v.push("fqz".into());
    v.push("fqz+lzma:6".into());
    for k in 0..6 {
        v.push(format!("mixed:{k}"));
    }
    v
}

fn encoder(name: &str) -> Option<Encoder> {
    let (kind, arg) = name.split_once(':').unwrap_or((name, ""));
    let num = |s: &str| -> u32 {
        if let Some(h) = s.strip_prefix("0x") { u32::from_str_radix(h, 16).unwrap() } else { s.parse().unwrap() }
    };
    match kind {
        "none" => None,
        "gzip" => Some(Encoder::Gzip(flate2::Compression::new(num(arg)))),
        "bzip2" => Some(Encoder::Bzip2(bzip2::Compression::new(num(arg)))),
        "lzma" => Some(Encoder::Lzma(num(arg))),
        "rans4x8" => Some(Encoder::Rans4x8(if num(arg) == 0 { rans_4x8::Order::Zero } else { rans_4x8::Order::One })),
        "nx16" => Some(Encoder::RansNx16(rans_nx16::Flags::from_bits_truncate(num(arg) as u8))),
        "aac" => Some(Encoder::AdaptiveArithmeticCoding(aac::Flags::from_bits_truncate(num(arg) as u8))),
        _ => panic!("unknown encoder {name}"),
    }
}

fn uniform(e: Option<Encoder>) -> noodles_cram::container::block_content_encoder_map::Builder {
    let mut b = BlockContentEncoderMap::builder().set_core_data_encoder(e.clone()).set_default_encoder(e.clone());
    for ds in ALL_SERIES {
        b = b.set_data_series_encoder(ds, e.clone());
    }
    b
}

pub fn build(name: &str) -> BlockContentEncoderMap {
    match name {
        "default" => BlockContentEncoderMap::default(),
        "tok" => BlockContentEncoderMap::builder().set_data_series_encoder(DataSeries::Names, Some(Encoder::NameTokenizer)).build(),
        "tok+none" => uniform(None).set_data_series_encoder(DataSeries::Names, Some(Encoder::NameTokenizer)).build(),
        "fqz" => BlockContentEncoderMap::builder().set_data_series_encoder(DataSeries::QualityScores, Some(Encoder::Fqzcomp)).build(),
        "fqz+lzma:6" => uniform(encoder("lzma:6")).set_data_series_encoder(DataSeries::QualityScores, Some(Encoder::Fqzcomp)).build(),
        n if n.starts_with("tags=") => {
            let mut b = BlockContentEncoderMap::builder();
            for (t, ty) in TAG_KEYS {
                b = b.set_tag_values_encoder(tag_sets::Key::new(Tag::new(t[0], t[1]), ty), encoder(&n[5..]));
            }
            b.build()
        }
        n if n.starts_with("qs=") => BlockContentEncoderMap::builder().set_data_series_encoder(DataSeries::QualityScores, encoder(&n[3..])).build(),
        n if n.starts_with("rn=") => BlockContentEncoderMap::builder().set_data_series_encoder(DataSeries::Names, encoder(&n[3..])).build(),
        n if n.starts_with("mixed:") => {
            // a fixed pseudo-random assignment per variant number: every series its own encoder
            let g = mixable();
            let pick = |k: usize| -> Option<Encoder> {
                let h = fnv1a(format!("{n}/{k}").as_bytes());
                encoder(&g[(h % g.len() as u64) as usize])
            };
            let mut b = BlockContentEncoderMap::builder().set_core_data_encoder(pick(100)).set_default_encoder(pick(101));
            for (k, ds) in ALL_SERIES.into_iter().enumerate() {
                b = b.set_data_series_encoder(ds, pick(k));
            }
            if n.ends_with('1') || n.ends_with('3') {
                b = b.set_data_series_encoder(DataSeries::Names, Some(Encoder::NameTokenizer));
            }
            if n.ends_with('2') || n.ends_with('3') {
                b = b.set_data_series_encoder(DataSeries::QualityScores, Some(Encoder::Fqzcomp));
            }
            b.build()
        }
        n if n.starts_with("aac-core:") => uniform(encoder(&n.replace("aac-core", "aac"))).build(),
        n if n.starts_with("aac:") => uniform(encoder(n)).set_core_data_encoder(None).build(),
        n => uniform(encoder(n)).build(),
    }
}

/// Name of the encoder that map `name` assigns to a block (mirror of `build`, for diagnosis).
pub fn encoder_for(name: &str, content_type: u8, content_id: i32) -> String {
    let core = content_type == 5;
    let series = content_type == 4 && (1..=28).contains(&content_id);
    let names = series && content_id == 7;
    let quals = series && content_id == 28;
    match name {
        "default" => "gzip:6".into(),
        "tok" => if names { "tok".into() } else { "gzip:6".into() },
        "tok+none" => if names { "tok".into() } else { "none".into() },
        "fqz" => if quals { "fqz".into() } else { "gzip:6".into() },
        "fqz+lzma:6" => if quals { "fqz".into() } else { "lzma:6".into() },
        n if n.starts_with("tags=") => {
            let hit = content_type == 4 && TAG_KEYS.iter().any(|(t, ty)| {
                let c = match ty { Type::String => b'Z', Type::UInt8 => b'C', Type::Int32 => b'i', Type::UInt16 => b'S', _ => 0 };
                content_id == ((t[0] as i32) << 16) | ((t[1] as i32) << 8) | c as i32
            });
            if hit { n[5..].into() } else { "gzip:6".into() }
        }
        n if n.starts_with("qs=") => if quals { n[3..].into() } else { "gzip:6".into() },
        n if n.starts_with("rn=") => if names { n[3..].into() } else { "gzip:6".into() },
        n if n.starts_with("mixed:") => {
            if names && (n.ends_with('1') || n.ends_with('3')) {
                return "tok".into();
            }
            if quals && (n.ends_with('2') || n.ends_with('3')) {
                return "fqz".into();
            }
            let g = mixable();
            let k = if core { 100 } else if series { (content_id - 1) as usize } else { 101 };
            let h = fnv1a(format!("{n}/{k}").as_bytes());
            g[(h % g.len() as u64) as usize].clone()
        }
        n if n.starts_with("aac-core:") => n.replace("aac-core", "aac"),
        n if n.starts_with("aac:") => if core { "none".into() } else { n.into() },
        n => n.into(),
    }
}

/// Runs `encode` then `decode` of the named encoder on `data` through the H2 wrappers and says why
/// the pair is not the identity (None = it is). `lens` = record lengths for fqzcomp.
pub fn probe(enc: &str, data: &[u8], lens: &[usize]) -> Option<String> {
    use noodles_cram::verif::codecs as vc;
    let (kind, arg) = enc.split_once(':').unwrap_or((enc, ""));
    let num = |s: &str| -> u32 {
        if let Some(h) = s.strip_prefix("0x") { u32::from_str_radix(h, 16).unwrap() } else { s.parse().unwrap_or(0) }
    };
    let fixed = |enc: std::io::Result<Vec<u8>>, dec: &dyn Fn(&[u8], &mut [u8]) -> std::io::Result<()>| -> std::io::Result<Vec<u8>> {
        let e = enc?;
        let mut dst = vec![0u8; data.len()];
        dec(&e, &mut dst)?;
        Ok(dst)
    };
    let r = vcore::guard::catch(|| -> std::io::Result<Vec<u8>> {
        match kind {
            "none" => Ok(data.to_vec()),
            "gzip" => fixed(vc::gzip::encode(num(arg), data), &|s, d| vc::gzip::decode(s, d)),
            "bzip2" => fixed(vc::bzip2::encode(num(arg), data), &|s, d| vc::bzip2::decode(s, d)),
            "lzma" => fixed(vc::lzma::encode(num(arg), data), &|s, d| vc::lzma::decode(s, d)),
            "rans4x8" => {
                let o = if num(arg) == 0 { vc::rans_4x8::Order::Zero } else { vc::rans_4x8::Order::One };
                vc::rans_4x8::decode(&vc::rans_4x8::encode(o, data)?)
            }
            "nx16" => vc::rans_nx16::decode(&vc::rans_nx16::encode(vc::rans_nx16::Flags::from_bits_truncate(num(arg) as u8), data)?, data.len()),
            "aac" => vc::aac::decode(&vc::aac::encode(vc::aac::Flags::from_bits_truncate(num(arg) as u8), data)?, data.len()),
            "tok" => vc::name_tokenizer::decode(&vc::name_tokenizer::encode(data)?),
            "fqz" => {
                if lens.iter().sum::<usize>() != data.len() {
                    return Ok(data.to_vec());
                }
                vc::fqzcomp::decode(&vc::fqzcomp::encode(lens, data)?)
            }
            _ => Ok(data.to_vec()),
        }
    });
    match r {
        Err(p) => Some(format!("panics: {}", p.message)),
        Ok(Err(e)) => Some(format!("fails: {e}")),
        Ok(Ok(d)) if d != data => Some(format!("yields {} bytes that differ from the {} encoded bytes", d.len(), data.len())),
        _ => None,
    }
}
