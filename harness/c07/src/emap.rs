//! Named `BlockContentEncoderMap` variants of the C07 option matrix.

use noodles_cram::{
    codecs::{Encoder, aac, rans_4x8, rans_nx16},
    container::{BlockContentEncoderMap, compression_header::data_series_encodings::DataSeries},
};
use vcore::rng::fnv1a;

pub const ALL_SERIES: [DataSeries; 28] = [
    DataSeries::BamFlags,
    DataSeries::CramFlags,
    DataSeries::ReferenceSequenceIds,
    DataSeries::ReadLengths,
    DataSeries::AlignmentStarts,
    DataSeries::ReadGroupIds,
    DataSeries::Names,
    DataSeries::MateFlags,
    DataSeries::MateReferenceSequenceIds,
    DataSeries::MateAlignmentStarts,
    DataSeries::TemplateLengths,
    DataSeries::MateDistances,
    DataSeries::TagSetIds,
    DataSeries::FeatureCounts,
    DataSeries::FeatureCodes,
    DataSeries::FeaturePositionDeltas,
    DataSeries::DeletionLengths,
    DataSeries::StretchesOfBases,
    DataSeries::StretchesOfQualityScores,
    DataSeries::BaseSubstitutionCodes,
    DataSeries::InsertionBases,
    DataSeries::ReferenceSkipLengths,
    DataSeries::PaddingLengths,
    DataSeries::HardClipLengths,
    DataSeries::SoftClipBases,
    DataSeries::MappingQualities,
    DataSeries::Bases,
    DataSeries::QualityScores,
];

const NX16_FLAGS: &[u8] = &[0x00, 0x01, 0x04, 0x05, 0x08, 0x09, 0x20, 0x40, 0x41, 0x44, 0x80, 0x81, 0xC0, 0xC1, 0xC5];
const AAC_FLAGS: &[u8] = &[0x00, 0x01, 0x04, 0x08, 0x09, 0x20, 0x40, 0x41, 0x80, 0x81, 0xC0, 0xC1];

/// General-purpose encoders (valid on any block).
fn general() -> Vec<String> {
    let mut v: Vec<String> = vec![
        "none".into(),
        "gzip:1".into(),
        "gzip:6".into(),
        "gzip:9".into(),
        "bzip2:1".into(),
        "bzip2:9".into(),
        "lzma:1".into(),
        "lzma:6".into(),
        "rans4x8:0".into(),
        "rans4x8:1".into(),
    ];
    for f in NX16_FLAGS {
        v.push(format!("nx16:{f:#04x}"));
    }
    for f in AAC_FLAGS {
        v.push(format!("aac:{f:#04x}"));
    }
    v
}

pub fn names() -> Vec<String> {
    let mut v = vec!["default".to_string()];
    v.extend(general());
    v.push("tok".into());
    v.push("tok+none".into());
    v.push("fqz".into());
    v.push("fqz+rans4x8:1".into());
    for k in 0..6 {
        v.push(format!("mixed:{k}"));
    }
    v
}

fn encoder(name: &str) -> Option<Encoder> {
    let (kind, arg) = name.split_once(':').unwrap_or((name, ""));
    let num = |s: &str| -> u32 {
        if let Some(h) = s.strip_prefix("0x") { u32::from_str_radix(h, 16).unwrap() } else { s.parse().unwrap() }
    };
    match kind {
        "none" => None,
        "gzip" => Some(Encoder::Gzip(flate2::Compression::new(num(arg)))),
        "bzip2" => Some(Encoder::Bzip2(bzip2::Compression::new(num(arg)))),
        "lzma" => Some(Encoder::Lzma(num(arg))),
        "rans4x8" => Some(Encoder::Rans4x8(if num(arg) == 0 { rans_4x8::Order::Zero } else { rans_4x8::Order::One })),
        "nx16" => Some(Encoder::RansNx16(rans_nx16::Flags::from_bits_truncate(num(arg) as u8))),
        "aac" => Some(Encoder::AdaptiveArithmeticCoding(aac::Flags::from_bits_truncate(num(arg) as u8))),
        _ => panic!("unknown encoder {name}"),
    }
}

fn uniform(e: Option<Encoder>) -> noodles_cram::container::block_content_encoder_map::Builder {
    let mut b = BlockContentEncoderMap::builder().set_core_data_encoder(e.clone()).set_default_encoder(e.clone());
    for ds in ALL_SERIES {
        b = b.set_data_series_encoder(ds, e.clone());
    }
    b
}

pub fn build(name: &str) -> BlockContentEncoderMap {
    match name {
        "default" => BlockContentEncoderMap::default(),
        "tok" => BlockContentEncoderMap::builder().set_data_series_encoder(DataSeries::Names, Some(Encoder::NameTokenizer)).build(),
        "tok+none" => uniform(None).set_data_series_encoder(DataSeries::Names, Some(Encoder::NameTokenizer)).build(),
        "fqz" => BlockContentEncoderMap::builder().set_data_series_encoder(DataSeries::QualityScores, Some(Encoder::Fqzcomp)).build(),
        "fqz+rans4x8:1" => uniform(encoder("rans4x8:1")).set_data_series_encoder(DataSeries::QualityScores, Some(Encoder::Fqzcomp)).build(),
        n if n.starts_with("mixed:") => {
            // a fixed pseudo-random assignment per variant number: every series its own encoder
            let g = general();
            let pick = |k: usize| -> Option<Encoder> {
                let h = fnv1a(format!("{n}/{k}").as_bytes());
                encoder(&g[(h % g.len() as u64) as usize])
            };
            let mut b = BlockContentEncoderMap::builder().set_core_data_encoder(pick(100)).set_default_encoder(pick(101));
            for (k, ds) in ALL_SERIES.into_iter().enumerate() {
                b = b.set_data_series_encoder(ds, pick(k));
            }
            if n.ends_with('1') || n.ends_with('3') {
                b = b.set_data_series_encoder(DataSeries::Names, Some(Encoder::NameTokenizer));
            }
            if n.ends_with('2') || n.ends_with('3') {
                b = b.set_data_series_encoder(DataSeries::QualityScores, Some(Encoder::Fqzcomp));
            }
            b.build()
        }
        n => uniform(encoder(n)).build(),
    }
}
