//! Deterministic "width boundary" files: every size / counter / coordinate field the CRAM writer
//! computes or emits is driven to both sides of the ITF8 / LTF8 width boundaries (2^7, 2^14, 2^21,
//! 2^28), because the writer predicts encoded sizes (`itf8_size_of`, block / container lengths,
//! landmarks) separately from writing them.
//!
//! Payloads are incompressible (random qualities, random bases) and the `none` encoder map makes
//! compressed size == raw size, so sizes are controllable; fields that are sums of many parts
//! (container length, landmarks, block counts, gzip-compressed sizes) are *calibrated*: the file is
//! written, the field is measured with `gencram::rawwalk`, a knob (read length, length of a Z tag,
//! number of tags) is adjusted and the file is written again until the target is hit. Only the
//! final file is judged (round trip + walker), and the evidence counts the boundaries that the
//! judged files really reached (`boundary[...]`, measured, not assumed).

use gencram::{Aux, F_FIRST, F_LAST, F_PAIRED, F_UNMAPPED, ReadDesc, RefSeq, Stream, rawwalk};
use vcore::{Rng, rng::fnv1a};

pub type Layout = Option<(usize, usize)>;

const P7: i64 = 1 << 7;
const P14: i64 = 1 << 14;
const P21: i64 = 1 << 21;

/// (class, encoder map) of the boundary cases of a tier.
pub fn cases(quick: bool) -> Vec<(String, &'static str)> {
    let mut v: Vec<(String, &'static str)> = Vec::new();
    // one block of exactly N bytes (bases and qualities of one unmapped read), N also = base count
    for n in [P7 - 1, P7, P7 + 1, P14 - 1, P14, P14 + 1, 1_200_000, P21 - 1, P21, P21 + 1, 3_000_000] {
        v.push((format!("bnd:block-size:{n}"), "none"));
        v.push((format!("bnd:block-size:{n}"), "default"));
    }
    for b in [P14, P21] {
        for d in [-1, 0, 1] {
            v.push((format!("bnd:container-length:{}", b + d), "none"));
            v.push((format!("bnd:landmark:{}", b + d), "none"));
        }
    }
    v.push(("bnd:container-length:3000001".into(), "none"));
    v.push(("bnd:landmark:3000001".into(), "none"));
    // gzip: compressed size on one side of the boundary, raw size on the other, and calibrated hits
    for b in [P7, P14] {
        for d in [-1, 0, 1] {
            v.push((format!("bnd:gzip-compressed-size:{}", b + d), "default"));
        }
    }
    // (each calibration step at 2^21 gzips 5 MB: one target; the default-map block-size files above
    // already put the compressed size below and the raw size above 2^21)
    v.push((format!("bnd:gzip-compressed-size:{P21}"), "default"));
    // record counters / records per container
    for rps in [P7 - 1, P7, P7 + 1, P14 - 1, P14, P14 + 1] {
        v.push((format!("bnd:record-counter:{rps}"), if rps % 2 == 0 { "none" } else { "default" }));
    }
    // 2^21 records precede the third container (streamed; +-1 in the thorough tier)
    v.push((format!("bnd:many-records:{}:{}", 1 << 20, (1 << 21) + 1), "none"));
    if !quick {
        v.push((format!("bnd:many-records:{}:{}", 299_593, (1 << 21) - 1 + 3), "none"));
        v.push((format!("bnd:many-records:{}:{}", 699_051, (1 << 21) + 1 + 3), "default"));
    }
    // reference coordinates: start / span of slices and containers, AP / NP / TS series
    v.push(("bnd:position:21".into(), "none"));
    v.push(("bnd:position:21".into(), "default"));
    // (2^28: the slice MD5 over a span of 2^28 bases costs 0.5 s per slice and read path, so the
    // quick tier only drives starts >= 2^28; spans of 2^28 +-1 are in the thorough tier)
    v.push(("bnd:position:28:starts-only".into(), "default"));
    if !quick {
        v.push(("bnd:position:28".into(), "default"));
    }
    v.push(("bnd:position-unmapped-placed".into(), "none"));
    // number of blocks / content ids
    for t in [P7 - 3, P7 - 2, P7 - 1, P7, P7 + 1, 200] {
        v.push((format!("bnd:block-count:{t}"), if t % 2 == 0 { "none" } else { "default" }));
    }
    v
}

fn small_refs() -> Vec<RefSeq> {
    vec![
        RefSeq { name: "sq0".into(), seq: b"ACGTACGTTTGACCAGTNNACGGATCAGCTAGCATCGACTAGCATCGGGATATCCGAT".to_vec(), with_m5: false },
        RefSeq { name: "sq1".into(), seq: b"TTGACGATCGGCTATATAGCGCGATCGATCGGGCATACGACTAGCAAAACGT".to_vec(), with_m5: true },
    ]
}

fn base(name: &str, flags: u16) -> ReadDesc {
    let mut r = gencram::minimal_read();
    r.name = Some(name.as_bytes().to_vec());
    r.flags = flags;
    r
}

/// Unmapped unplaced read of `n` random bases and `n` random qualities (incompressible) with a Z
/// tag of `t` characters (t = 0: no tag).
fn unmapped(name: &str, n: usize, t: usize, rng: &mut Rng) -> ReadDesc {
    let mut r = base(name, F_UNMAPPED);
    let mut raw = vec![0u8; n];
    rng.fill(&mut raw);
    r.bases = raw.iter().map(|b| b"ACGTNRYK"[(b & 7) as usize]).collect();
    rng.fill(&mut raw);
    r.quals = raw.iter().map(|b| b % 94).collect();
    if t > 0 {
        r.tags = vec![(*b"XZ", Aux::Z((0..t).map(|i| b'a' + (i % 26) as u8).collect()))];
    }
    r
}

fn mapped(name: &str, flags: u16, rid: usize, pos: usize, refs: &[RefSeq], len: usize) -> ReadDesc {
    let mut r = base(name, flags);
    r.ref_id = Some(rid);
    r.pos = Some(pos);
    r.mapq = Some(20);
    r.cigar = vec![('M', len)];
    r.bases = refs[rid].seq[pos - 1..pos - 1 + len].to_vec();
    r.quals = (0..len).map(|i| (10 + i % 30) as u8).collect();
    r
}

fn stream(refs: Vec<RefSeq>, mut reads: Vec<ReadDesc>) -> Stream {
    for (i, r) in reads.iter_mut().enumerate() {
        if r.template == 0 {
            r.template = i + 1;
        }
    }
    gencram::finalize_mates(&mut reads);
    Stream { refs, read_groups: vec![], reads, declared_lengths: None }
}

fn field(bytes: &[u8], name: &str, nth: usize) -> Option<i64> {
    rawwalk::fields(bytes)?.into_iter().filter(|f| f.0 == name).nth(nth).map(|f| f.1)
}

/// Builds the stream of a boundary class. `write` writes a candidate with the case's options and
/// returns the file (None = the writer did not accept it).
pub fn build(class: &str, write: &dyn Fn(&Stream, Layout) -> Option<Vec<u8>>) -> (Stream, Layout) {
    let mut rng = Rng::new(fnv1a(class.as_bytes()), 0xB0D, 0);
    let parts: Vec<&str> = class.split(':').collect();
    let num = |i: usize| -> i64 { parts[i].parse().expect("number in boundary class") };
    match parts[1] {
        "block-size" => (stream(small_refs(), vec![unmapped("u0", num(2) as usize, 0, &mut rng)]), None),
        "container-length" | "landmark" => {
            let target = num(2);
            let landmark = parts[1] == "landmark";
            let layout = if landmark { Some((1, 2)) } else { None };
            let (mut n, mut t) = (((target - 700).max(2) / 2) as i64, 10i64);
            let mut best: Option<Stream> = None;
            for _ in 0..8 {
                let mut r = Rng::new(fnv1a(class.as_bytes()), 0xB0D, 1);
                let mut reads = vec![unmapped("u0", n as usize, t as usize, &mut r)];
                if landmark {
                    reads.push(unmapped("u1", 5, 0, &mut r));
                }
                let s = stream(small_refs(), reads);
                let got = write(&s, layout).and_then(|b| if landmark { field(&b, "container.landmark", 1) } else { field(&b, "container.length", 0) });
                best = Some(s);
                let Some(got) = got else { break };
                if got == target {
                    break;
                }
                let delta = target - got;
                n = (n + delta.div_euclid(2)).max(1);
                t = (t + delta.rem_euclid(2)).max(1);
            }
            (best.unwrap(), layout)
        }
        "gzip-compressed-size" => {
            let target = num(2);
            let mut n = ((target as f64) / 0.83) as i64;
            let mut best: Option<(i64, Stream)> = None;
            let tries = if target > 1_000_000 { 5 } else { 12 };
            for k in 0..tries {
                let mut r = Rng::new(fnv1a(class.as_bytes()), 0xB0D, 1);
                let s = stream(small_refs(), vec![unmapped("u0", n.max(1) as usize, 0, &mut r)]);
                let got = write(&s, None).and_then(|b| rawwalk::blocks(&b)).and_then(|bl| bl.iter().find(|b| b.content_type == 4 && b.content_id == 28).map(|b| b.data.len() as i64));
                let Some(got) = got else {
                    best.get_or_insert((i64::MAX, s));
                    break;
                };
                let err = (target - got).abs();
                if best.as_ref().map(|b| err < b.0).unwrap_or(true) {
                    best = Some((err, s));
                }
                if err == 0 {
                    break;
                }
                let step = ((target - got) as f64 / 0.83).round() as i64;
                n += if step == 0 || k > 6 { (target - got).signum() } else { step };
            }
            (best.unwrap().1, None)
        }
        "record-counter" => {
            let rps = num(2) as usize;
            let reads: Vec<ReadDesc> = (0..2 * rps + 1)
                .map(|i| {
                    if i % 3 == 2 {
                        gencram::minimal_read()
                    } else {
                        let mut r = base(&format!("r{i}"), F_UNMAPPED);
                        r.bases = vec![b"ACGT"[i % 4]];
                        r.quals = vec![(i % 60) as u8];
                        r
                    }
                })
                .collect();
            (stream(small_refs(), reads), Some((rps, 1)))
        }
        "position" => {
            // a reference of 2^top + 64 bases: N everywhere except 40-base windows of real bases
            // where reads are placed
            let top = 1usize << num(2);
            let starts_only = parts.get(3) == Some(&"starts-only");
            let mut seq = vec![b'N'; top + 64];
            let bounds: Vec<usize> = [7usize, 14, 21, 28].iter().map(|k| 1usize << k).filter(|b| *b <= top).collect();
            let mut windows = vec![1usize, top + 8];
            windows.extend(bounds.iter().map(|b| b - 12));
            for w in &windows {
                for i in 0..40 {
                    if w - 1 + i < seq.len() {
                        seq[w - 1 + i] = b"ACGT"[rng.usize_below(4)];
                    }
                }
            }
            let refs = vec![RefSeq { name: "big".into(), seq, with_m5: false }, small_refs().remove(1)];
            let mut reads = Vec::new();
            for b in &bounds {
                for d in [-1i64, 0, 1] {
                    let v = (*b as i64 + d) as usize;
                    // slice (2 records): start 1, span exactly v
                    if !(starts_only && v > (1 << 22)) {
                        reads.push(mapped(&format!("span{v}a"), 0, 0, 1, &refs, 8));
                        reads.push(mapped(&format!("span{v}b"), 16, 0, v - 7, &refs, 8));
                    }
                    // slice: start exactly v
                    reads.push(mapped(&format!("start{v}a"), 0, 0, v, &refs, 8));
                    reads.push(mapped(&format!("start{v}b"), 0, 0, v + 4, &refs, 8));
                }
            }
            // an attached pair whose TLEN spans the whole reference, and a pair split over two slices
            // (detached: mate position and TLEN are stored explicitly)
            let mut a = mapped("far-attached", F_PAIRED | F_FIRST, 0, 2, &refs, 8);
            let mut b = mapped("far-attached", F_PAIRED | F_LAST | 16, 0, top + 10, &refs, 8);
            a.template = 900_001;
            b.template = 900_001;
            if !starts_only {
                reads.push(a);
                reads.push(b);
            }
            let mut a = mapped("far-detached", F_PAIRED | F_FIRST, 0, 3, &refs, 8);
            let mut b = mapped("far-detached", F_PAIRED | F_LAST | 16, 0, top + 20, &refs, 8);
            a.template = 900_002;
            b.template = 900_002;
            reads.push(a);
            reads.push(mapped("filler0", 0, 1, 5, &refs, 8));
            reads.push(b);
            reads.push(mapped("filler1", 0, 1, 9, &refs, 8));
            (stream(refs, reads), Some((2, 1)))
        }
        "position-unmapped-placed" => {
            // coordinates beyond any affordable reference: placed unmapped reads of two references per
            // slice (multi-reference slices never touch the reference), @SQ LN declared as 2^31 - 1
            let refs = small_refs();
            let mut reads = Vec::new();
            let positions: [usize; 8] = [(1 << 28) - 1, 1 << 28, (1 << 28) + 1, 1 << 29, (1 << 30) + 5, (1usize << 31) - 30, (1 << 21) + 1, (1 << 14) - 1];
            for (i, p) in positions.iter().enumerate() {
                let mut r = unmapped(&format!("pu{i}"), 6 + i, 0, &mut rng);
                r.ref_id = Some(i % 2);
                r.pos = Some(*p);
                reads.push(r);
            }
            // a mapped read whose placed unmapped mate sits at 2^28 + 7, in another slice (detached)
            let mut a = mapped("far-mate", F_PAIRED | F_FIRST, 0, 5, &refs, 8);
            let mut b = unmapped("far-mate", 9, 0, &mut rng);
            b.flags |= F_PAIRED | F_LAST;
            b.ref_id = Some(1);
            b.pos = Some((1 << 28) + 7);
            a.template = 900_003;
            b.template = 900_003;
            reads.insert(1, a);
            reads.push(b);
            let mut s = stream(refs, reads);
            s.declared_lengths = Some(vec![(1usize << 31) - 1; 2]);
            (s, Some((4, 1)))
        }
        "block-count" => {
            let target = num(2);
            let mut t = (target - 12).max(1);
            let mut best: Option<Stream> = None;
            for _ in 0..6 {
                let refs = small_refs();
                let mut r = mapped("many-tags", 0, 0, 3, &refs, 8);
                r.tags = (0..t as usize)
                    .map(|k| {
                        let first = b"abcdefghijklmnopqrstuvwxyzXYZ"[(k / 62) % 29];
                        let second = b"ABCDEFGHIJKLMNOPQRSTUVWXYZabcdefghijklmnopqrstuvwxyz0123456789"[k % 62];
                        ([first, second], Aux::I8((k % 100) as i8))
                    })
                    .collect();
                let s = stream(refs, vec![r, unmapped("u1", 4, 0, &mut Rng::new(1, 2, 3))]);
                let got = write(&s, None).and_then(|b| field(&b, "slice.block-count", 0));
                best = Some(s);
                let Some(got) = got else { break };
                if got == target {
                    break;
                }
                t = (t + target - got).max(1);
            }
            (best.unwrap(), None)
        }
        other => panic!("unknown boundary class {other}"),
    }
}

/// Coverage keys `boundary[<field> <relation>]` for the fields of one written file.
pub fn coverage(bytes: &[u8]) -> Vec<String> {
    let mut out = Vec::new();
    let Some(fields) = rawwalk::fields(bytes) else { return out };
    for (name, v) in fields {
        for k in [7u32, 14, 21, 28] {
            let b = 1i64 << k;
            let rel = if v == b - 1 {
                format!("= 2^{k}-1")
            } else if v == b {
                format!("= 2^{k}")
            } else if v == b + 1 {
                format!("= 2^{k}+1")
            } else if v > b + 1 && v < 2 * b {
                format!("in 2^{k}+2..2^{}", k + 1)
            } else {
                continue;
            };
            out.push(format!("boundary[{name} {rel}]"));
        }
    }
    out.sort();
    out.dedup();
    out
}

/// The boundary hits a quick run must have measured (non-vacuity floors).
pub fn required() -> Vec<String> {
    let mut v = Vec::new();
    for f in ["block.raw-size", "block.compressed-size", "container.bases"] {
        for k in [7, 14, 21] {
            for rel in ["-1", "", "+1"] {
                v.push(format!("boundary[{f} = 2^{k}{rel}]"));
            }
        }
        v.push(format!("boundary[{f} in 2^21+2..2^22]"));
    }
    for f in ["container.length", "container.landmark"] {
        for k in [14, 21] {
            for rel in ["-1", "", "+1"] {
                v.push(format!("boundary[{f} = 2^{k}{rel}]"));
            }
        }
        v.push(format!("boundary[{f} in 2^21+2..2^22]"));
    }
    for f in ["container.record-counter", "slice.record-counter", "container.records", "slice.records"] {
        for k in [7, 14] {
            for rel in ["-1", "", "+1"] {
                v.push(format!("boundary[{f} = 2^{k}{rel}]"));
            }
        }
    }
    v.push("boundary[container.record-counter = 2^21]".into());
    v.push("boundary[slice.record-counter = 2^21]".into());
    for f in ["slice.start", "slice.span", "container.start", "container.span"] {
        for k in [7, 14, 21, 28] {
            if k == 28 && f.ends_with("span") {
                continue; // thorough tier only
            }
            for rel in ["-1", "", "+1"] {
                v.push(format!("boundary[{f} = 2^{k}{rel}]"));
            }
        }
    }
    for f in ["slice.block-count", "container.block-count"] {
        v.push(format!("boundary[{f} = 2^7]"));
    }
    v.push("boundary[slice.block-count = 2^7-1]".into());
    v.push("boundary[container.block-count = 2^7-1]".into());
    v.push("boundary[container.block-count = 2^7+1]".into());
    v.push("boundary[slice.block-count = 2^7+1]".into());
    v.push("boundary[slice.block-count in 2^7+2..2^8]".into());
    v
}
