use noodles_cram::verif::codecs::{rans_4x8, rans_nx16};
use vcore::Rng;
fn main() {
    let mut rng = Rng::new(1, 2, 3);
    let mut fails = std::collections::BTreeMap::new();
    for it in 0..20000 {
        let n = rng.skewed(300) as usize;
        let alpha = 1 + rng.skewed(255) as u64;
        let data: Vec<u8> = (0..n).map(|_| rng.below(alpha) as u8).collect();
        for (name, r) in [
            ("4x8:0", vcore::guard::catch(|| rans_4x8::encode(rans_4x8::Order::Zero, &data).and_then(|e| rans_4x8::decode(&e)))),
            ("4x8:1", vcore::guard::catch(|| rans_4x8::encode(rans_4x8::Order::One, &data).and_then(|e| rans_4x8::decode(&e)))),
            ("nx16:0", vcore::guard::catch(|| rans_nx16::encode(rans_nx16::Flags::empty(), &data).and_then(|e| rans_nx16::decode(&e, data.len())))),
            ("nx16:1", vcore::guard::catch(|| rans_nx16::encode(rans_nx16::Flags::ORDER, &data).and_then(|e| rans_nx16::decode(&e, data.len())))),
        ] {
            let bad = match &r { Ok(Ok(d)) => if *d == data { None } else { Some("diff".to_string()) }, Ok(Err(e)) => Some(format!("err {e}")), Err(p) => Some(format!("panic {}", p.message)) };
            if let Some(b) = bad {
                let e = fails.entry((name, b.clone())).or_insert((0, n, alpha, data.clone()));
                e.0 += 1;
                if n < e.1 { *e = (e.0, n, alpha, data.clone()); }
            }
        }
        let _ = it;
    }
    for (k, v) in fails { println!("{k:?}: {} fails; smallest n={} alpha={} data={:?}", v.0, v.1, v.2, &v.3[..v.3.len().min(40)]); }
}
