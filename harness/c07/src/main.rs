//! C07 — CRAM files round-trip their records and are structurally conformant containers.
//!
//! Monitor (1), in this binary: generated CRAM-mode record streams (gencram) are written with
//! `cram::io::writer::Builder` under an option matrix (preserve_read_names, position deltas, block
//! content encoder maps, layouts through hook H3) and read back through `cram::io::reader::Builder`
//! with the same reference repository; the read-back `RecordBuf`s are compared field by field with
//! the generator's *descriptions* under the tolerances listed in `assumptions`.
//! Monitor (2), `py/cram_walk.py` run by the driver's `post` hook: every written file is dumped with
//! a sidecar of expected totals and walked by an independent container walker.

mod bnd;
mod emap;

use std::collections::{BTreeMap, BTreeSet};

use gencram::{Aux, GenOpts, ReadDesc, SliceCtx, Stream};
use noodles_cram as cram;
use noodles_sam::{self as sam, alignment::RecordBuf, alignment::io::Write as _};
use serde_json::{Value as Json, json};
use vcore::{CaseOut, Ctx, Report, Rng, guard, rng::fnv1a, run_cases};

#[derive(Clone, Debug)]
struct Case {
    /// "rand" or the name of a deterministic corpus entry
    class: String,
    gseed: u64,
    opts: GenOpts,
    preserve_names: bool,
    deltas: bool,
    emap: String,
    /// H3 layout (records per slice, slices per container); None = production values
    layout: Option<(usize, usize)>,
}

const PRODUCTION_RPS: usize = 10240;

impl Case {
    fn rps(&self) -> usize {
        self.layout.map(|l| l.0).unwrap_or(PRODUCTION_RPS)
    }
    fn rpc(&self) -> usize {
        self.layout.map(|l| l.0 * l.1).unwrap_or(PRODUCTION_RPS)
    }
    /// (container index, slice index within the file) of record `i`
    fn slice_of(&self, i: usize) -> (usize, usize) {
        let c = i / self.rpc();
        (c, (i % self.rpc()) / self.rps())
    }
}

fn case_json(c: &Case) -> Json {
    json!({"class": c.class, "gseed": c.gseed.to_string(), "preserve_read_names": c.preserve_names, "position_deltas": c.deltas,
           "encoder_map": c.emap, "layout_rps_spc": c.layout.map(|l| vec![l.0, l.1]),
           "opts": format!("{:?}", c.opts)})
}

// ---------------------------------------------------------------------------------------------
// deterministic corpus: hand-made streams (witnesses of the known defects and basic shapes)

fn det_ref() -> Vec<gencram::RefSeq> {
    vec![
        gencram::RefSeq { name: "sq0".into(), seq: b"ACGTACGTTTGACCAGTNNACGGATCAGCTAGCATCGACTAGCATCGGGATATCCGAT".to_vec(), with_m5: false },
        gencram::RefSeq { name: "sq1".into(), seq: b"TTGACGATCGGCTATATAGCGCGATCGATCGGGCATACGACTAGCAAAACGT".to_vec(), with_m5: true },
    ]
}

fn rd(name: &str, flags: u16, ref_id: Option<usize>, pos: Option<usize>, cigar: &[(char, usize)], bases: &[u8], quals: &[u8]) -> ReadDesc {
    ReadDesc {
        name: Some(name.as_bytes().to_vec()),
        flags,
        ref_id,
        pos,
        mapq: if flags & gencram::F_UNMAPPED != 0 { None } else { Some(30) },
        cigar: cigar.to_vec(),
        bases: bases.to_vec(),
        quals: quals.to_vec(),
        mate_ref: None,
        mate_pos: None,
        tlen: 0,
        tags: Vec::new(),
        edits: Vec::new(),
        features: Default::default(),
        template: 0,
        mate: None,
        stale: None,
    }
}

const DET: &[&str] = &[
    "det:mapped-no-qualities",
    "det:unmapped-no-bases-no-qualities",
    "det:mapped-cigar-no-bases",
    "det:two-mapped-plain",
    "det:pair-sorted-in-slice",
    "det:pair-first-is-rightmost-in-slice",
    "det:pair-different-references-in-slice",
    "det:pair-mapped-with-placed-unmapped-mate-in-slice",
    "det:pair-across-slices",
    "det:mixed-qualities-present-and-missing",
    "det:unmapped-with-bases-only",
    "det:missing-name-unpaired",
    "det:placed-unmapped-no-bases",
    "det:pair-plus-supplementary-in-slice",
    // rich record <-> minimal record adjacency inside slices and across slice / container boundaries
    "det:rich-minimal:production-layout",
    "det:rich-minimal:rps1x1",
    "det:rich-minimal:rps1x3",
    "det:rich-minimal:rps2x1",
    "det:rich-minimal:rps2x2",
    "det:rich-minimal:rps3x2",
    // the same with unplaced records only (the writer rejects containers whose slices mix contexts)
    "det:rich-minimal-unplaced:rps1x3",
    "det:rich-minimal-unplaced:rps2x2",
    "det:rich-minimal-unplaced:rps3x2",
];

/// The hand-made corpus: `DET` plus the generated family of pairs with inconsistent mate fields,
/// `det:stale-mates:<kind>:<side>:<placement>` (side = which record in file order carries the stale
/// information; placement = adjacent in one slice / separated in one slice / in different slices).
fn det_names() -> Vec<String> {
    let mut v: Vec<String> = DET.iter().map(|s| s.to_string()).collect();
    for kind in gencram::STALE_KINDS {
        for side in ["first", "second", "both"] {
            for placement in ["adjacent", "separated", "across-slices"] {
                v.push(format!("det:stale-mates:{kind}:{side}:{placement}"));
            }
        }
    }
    // the coordinator's example: r1 POS 10 PNEXT 50 TLEN 50; r2 POS 50 PNEXT 12 TLEN -50
    v.push("det:stale-mates:second-read-has-stale-pnext-12-instead-of-10".into());
    v
}

fn det_stream(name: &str) -> (Stream, Option<(usize, usize)>) {
    use gencram::{F_FIRST, F_LAST, F_PAIRED, F_UNMAPPED};
    let refs = det_ref();
    let q = |n: usize| vec![30u8; n];
    let mut layout = None;
    let mut reads = match name {
        "det:mapped-no-qualities" => vec![rd("r0", 0, Some(0), Some(1), &[('M', 4)], b"acgn", b"")],
        "det:unmapped-no-bases-no-qualities" => vec![rd("r0", F_UNMAPPED, None, None, &[], b"", b"")],
        "det:mapped-cigar-no-bases" => vec![rd("r0", 0, Some(0), Some(1), &[('M', 4)], b"", b"")],
        "det:two-mapped-plain" => vec![
            rd("r0", 0, Some(0), Some(1), &[('M', 8)], b"ACGTACGT", &q(8)),
            rd("r1", 16, Some(0), Some(5), &[('M', 3), ('I', 1), ('M', 4)], b"ACGATTTG", &q(8)),
        ],
        "det:pair-sorted-in-slice" => vec![
            rd("p0", F_PAIRED | F_FIRST, Some(0), Some(1), &[('M', 8)], b"ACGTACGT", &q(8)),
            rd("p0", F_PAIRED | F_LAST | 16, Some(0), Some(21), &[('M', 8)], b"CGGATCAG", &q(8)),
        ],
        "det:pair-first-is-rightmost-in-slice" => vec![
            rd("p0", F_PAIRED | F_LAST | 16, Some(0), Some(21), &[('M', 8)], b"CGGATCAG", &q(8)),
            rd("p0", F_PAIRED | F_FIRST, Some(0), Some(1), &[('M', 8)], b"ACGTACGT", &q(8)),
        ],
        "det:pair-different-references-in-slice" => vec![
            rd("p0", F_PAIRED | F_FIRST, Some(0), Some(1), &[('M', 8)], b"ACGTACGT", &q(8)),
            rd("p0", F_PAIRED | F_LAST, Some(1), Some(3), &[('M', 8)], b"GACGATCG", &q(8)),
        ],
        "det:pair-mapped-with-placed-unmapped-mate-in-slice" => vec![
            rd("p0", F_PAIRED | F_FIRST, Some(0), Some(1), &[('M', 8)], b"ACGTACGT", &q(8)),
            rd("p0", F_PAIRED | F_LAST | F_UNMAPPED, Some(0), Some(1), &[], b"GGGGTTTTAA", &q(10)),
        ],
        "det:pair-across-slices" => {
            layout = Some((1, 1));
            vec![
                rd("p0", F_PAIRED | F_FIRST, Some(0), Some(1), &[('M', 8)], b"ACGTACGT", &q(8)),
                rd("p0", F_PAIRED | F_LAST | 16, Some(0), Some(21), &[('M', 8)], b"CGGATCAG", &q(8)),
            ]
        }
        "det:mixed-qualities-present-and-missing" => vec![
            rd("r0", 0, Some(0), Some(1), &[('M', 8)], b"ACGTACGT", &[10, 11, 12, 13, 14, 15, 16, 17]),
            rd("r1", 0, Some(0), Some(2), &[('M', 4)], b"CGTA", b""),
            rd("r2", 0, Some(0), Some(3), &[('M', 4)], b"GTAC", &[20, 21, 22, 23]),
        ],
        "det:unmapped-with-bases-only" => vec![rd("r0", F_UNMAPPED, None, None, &[], b"ACGTN", b"")],
        "det:missing-name-unpaired" => {
            let mut r = rd("x", 0, Some(0), Some(1), &[('M', 8)], b"ACGTACGT", &q(8));
            r.name = None;
            vec![r, rd("r1", 0, Some(0), Some(2), &[('M', 4)], b"CGTA", &q(4))]
        }
        // beyond the generator's "exactly two primary segments": what every bwa-mem output has
        "det:pair-plus-supplementary-in-slice" => vec![
            rd("p0", F_PAIRED | F_FIRST, Some(0), Some(1), &[('M', 8)], b"ACGTACGT", &q(8)),
            rd("p0", F_PAIRED | F_LAST | 16, Some(0), Some(21), &[('M', 8)], b"CGGATCAG", &q(8)),
            rd("p0", F_PAIRED | F_FIRST | gencram::F_SUPPLEMENTARY, Some(0), Some(40), &[('H', 8), ('M', 6)], b"GACTAG", &q(6)),
        ],
        "det:stale-mates:second-read-has-stale-pnext-12-instead-of-10" => vec![
            rd("p0", F_PAIRED | F_FIRST, Some(1), Some(10), &[('M', 8)], b"GGCTATAT", &q(8)),
            rd("p0", F_PAIRED | F_LAST | 16, Some(1), Some(40), &[('M', 8)], b"GACTAGCA", &q(8)),
        ],
        n if n.starts_with("det:stale-mates:") => {
            let placement = n.rsplit(':').next().unwrap();
            let mut v = vec![rd("p0", F_PAIRED | F_FIRST, Some(0), Some(1), &[('M', 8)], b"ACGTACGT", &q(8))];
            if placement != "adjacent" {
                v.push(rd("f0", 0, Some(0), Some(3), &[('M', 4)], b"GTAC", &q(4)));
            }
            v.push(rd("p0", F_PAIRED | F_LAST | 16, Some(0), Some(21), &[('M', 8)], b"CGGATCAG", &q(8)));
            v.push(rd("f1", 0, Some(0), Some(30), &[('M', 4)], b"TAGC", &q(4)));
            layout = if placement == "across-slices" { Some((2, 1)) } else { None };
            v
        }
        n if n.starts_with("det:rich-minimal-unplaced:") => {
            layout = match &n["det:rich-minimal-unplaced:".len()..] {
                "rps1x3" => Some((1, 3)),
                "rps2x2" => Some((2, 2)),
                _ => Some((3, 2)),
            };
            let mut v = Vec::new();
            for k in 0..7u8 {
                let mut r = rd(&format!("rich-unmapped-{k}"), F_UNMAPPED, None, None, &[], &b"GGGGNTTTTAACCGT"[..(5 + k as usize)], &vec![5 + k; 5 + k as usize]);
                r.tags = vec![(*b"RG", Aux::Z(b"rg0".to_vec())), (*b"XA", Aux::A(b'a' + k)), (*b"XB", Aux::BI16(vec![-1, 2, k as i16])), (*b"XZ", Aux::Z(b"some text".to_vec()))];
                v.push(r);
                if k % 3 != 2 {
                    v.push(gencram::minimal_read());
                }
                if k % 3 == 1 {
                    v.push(gencram::minimal_read());
                }
            }
            v
        }
        n if n.starts_with("det:rich-minimal:") => {
            layout = match &n["det:rich-minimal:".len()..] {
                "rps1x1" => Some((1, 1)),
                "rps1x3" => Some((1, 3)),
                "rps2x1" => Some((2, 1)),
                "rps2x2" => Some((2, 2)),
                "rps3x2" => Some((3, 2)),
                _ => None,
            };
            let rich_tags = |k: u8| -> Vec<([u8; 2], Aux)> {
                vec![
                    (*b"RG", Aux::Z(b"rg0".to_vec())),
                    (*b"NM", Aux::U8(k)),
                    (*b"MD", Aux::Z(b"8".to_vec())),
                    (*b"XA", Aux::A(b'a' + k)),
                    (*b"XB", Aux::BI16(vec![-1, 2, k as i16])),
                    (*b"XF", Aux::F(0x4049_0fdb)),
                    (*b"XH", Aux::H(b"1AE3".to_vec())),
                    (*b"XZ", Aux::Z(b"some text".to_vec())),
                ]
            };
            let mut v = vec![
                rd("rich-pair", F_PAIRED | F_FIRST, Some(0), Some(1), &[('S', 2), ('M', 6)], b"TTACGTAC", &[10, 11, 12, 13, 14, 15, 16, 17]),
                gencram::minimal_read(),
                rd("rich-pair", F_PAIRED | F_LAST | 16, Some(0), Some(21), &[('M', 4), ('I', 1), ('M', 3)], b"CGGAGTCA", &[20, 21, 22, 23, 24, 25, 26, 27]),
                gencram::minimal_read(),
                gencram::minimal_read(),
                rd("rich-single", 0, Some(1), Some(3), &[('M', 8)], b"GACGTTCG", &[30, 31, 32, 33, 34, 35, 36, 37]),
                rd("rich-unmapped", F_UNMAPPED, None, None, &[], b"GGGGNTTTTAA", &[5; 11]),
                gencram::minimal_read(),
                rd("rich-last", 16, Some(1), Some(30), &[('M', 8)], b"GGGCATAC", &[40, 41, 42, 43, 44, 45, 46, 47]),
            ];
            for (k, r) in v.iter_mut().enumerate() {
                if !r.is_minimal() {
                    r.tags = rich_tags(k as u8);
                }
            }
            v
        }
        "det:placed-unmapped-no-bases" => vec![rd("r0", F_UNMAPPED, Some(0), Some(24), &[], b"", b"")],
        _ => panic!("unknown deterministic case {name}"),
    };
    for (i, r) in reads.iter_mut().enumerate() {
        r.template = if r.name.as_deref() == Some(b"p0") || r.name.as_deref() == Some(b"rich-pair") { 1000 } else { i };
    }
    gencram::finalize_mates(&mut reads);
    if name == "det:stale-mates:second-read-has-stale-pnext-12-instead-of-10" {
        reads[1].mate_pos = Some(12);
        reads[1].stale = Some("stale-pnext");
    } else if name.starts_with("det:stale-mates:") {
        let parts: Vec<&str> = name.split(':').collect();
        let kind = *gencram::STALE_KINDS.iter().find(|k| **k == parts[2]).expect("stale kind");
        let idx: Vec<usize> = reads.iter().enumerate().filter(|(_, r)| r.mate.is_some()).map(|(i, _)| i).collect();
        if parts[3] != "second" {
            gencram::make_mate_info_stale(&mut reads, idx[0], kind, refs.len());
        }
        if parts[3] != "first" {
            gencram::make_mate_info_stale(&mut reads, idx[1], kind, refs.len());
        }
    }
    if name == "det:pair-plus-supplementary-in-slice" {
        // the supplementary alignment of the first segment points at the primary of the last one
        let last = reads[1].clone();
        let r = &mut reads[2];
        r.mate_ref = last.ref_id;
        r.mate_pos = last.pos;
        r.flags |= gencram::F_MATE_REVERSE;
    }
    (Stream { refs, read_groups: vec!["rg0".into()], reads, declared_lengths: None }, layout)
}

// ---------------------------------------------------------------------------------------------

fn gen_cases(ctx: &Ctx) -> Vec<Case> {
    let mut cases = Vec::new();
    if ctx.param("tiny").is_some() {
        // Miri-sized workload: six tiny files over the gzip / bzip2 / lzma / rANS / uncompressed paths
        for (k, (class, emap)) in [("det:two-mapped-plain", "default"), ("det:pair-sorted-in-slice", "none"), ("rand", "qs=rans4x8:1"),
                                   ("rand", "nx16:0x04"), ("rand", "bzip2:1"), ("rand", "lzma:1")].into_iter().enumerate() {
            cases.push(Case {
                class: class.into(),
                gseed: 0x7111 + k as u64,
                opts: GenOpts { n_templates: 3, n_refs: 1, ref_len: (40, 60), max_read_len: 12, max_skip: 5, ..GenOpts::default() },
                preserve_names: k % 2 == 0,
                deltas: k % 3 != 0,
                emap: emap.into(),
                layout: if class == "rand" { Some((2, 2)) } else { None },
            });
        }
        return cases;
    }
    for name in det_names() {
        let name = &name;
        let (_, layout) = det_stream(name);
        cases.push(Case {
            class: name.to_string(),
            gseed: 0,
            opts: GenOpts::default(),
            preserve_names: true,
            deltas: true,
            emap: "default".into(),
            layout,
        });
    }
    // width-boundary files (deterministic, independent of the seed)
    for (k, (class, emap)) in bnd::cases(ctx.quick()).into_iter().enumerate() {
        cases.push(Case { class, gseed: 0, opts: GenOpts::default(), preserve_names: true, deltas: k % 2 == 0, emap: emap.into(), layout: None });
    }
    let emaps = emap::names();
    // every encoder map once on a fixed, feature-rich stream shape (deterministic part)
    for (k, e) in emaps.iter().enumerate() {
        cases.push(Case {
            class: "rand".into(),
            gseed: 0xC07C07 ^ ((0xE0 + k as u64) << 20),
            opts: GenOpts { n_templates: 24, n_refs: 2, iupac_ref: k % 2 == 0, ..GenOpts::default() },
            preserve_names: k % 3 != 0,
            deltas: k % 2 == 0,
            emap: e.clone(),
            layout: Some((7, 1 + k % 3)),
        });
    }
    let n = ctx.budget("cases", 2000, 20000);
    let mut rng = Rng::new(ctx.seed, 0xC07, 0);
    for i in 0..n {
        let mut o = GenOpts::default();
        o.n_refs = rng.urange(1, 4);
        o.ref_len = (rng.urange(20, 80), rng.urange(80, 700));
        o.n_templates = 1 + rng.skewed(44) as usize;
        o.sorted = rng.chance(2, 5);
        o.iupac_ref = rng.chance(7, 20);
        o.single_ref_reads = rng.chance(1, 4);
        o.pm_pair = *rng.pick(&[0, 200, 400, 700]);
        o.pm_unmapped_single = *rng.pick(&[0, 60, 150, 400]);
        o.max_read_len = *rng.pick(&[5, 20, 60, 150]);
        o.pm_mates_adjacent = *rng.pick(&[0, 400, 1000]);
        o.n_read_groups = rng.urange(0, 3);
        o.pm_tags = *rng.pick(&[0, 500, 900]);
        // Shapes that used to be confined to a few files while the writer defects were open are
        // ordinary members of the model now (independent draws; their hand-made witnesses stay in
        // the deterministic corpus as regression cases).
        if rng.chance(1, 4) {
            o.pm_noqual = *rng.pick(&[50, 300]);
        }
        if rng.chance(3, 20) {
            o.pm_nobases_unmapped = *rng.pick(&[200, 600]);
            o.pm_unmapped_single = o.pm_unmapped_single.max(300);
        }
        if rng.chance(3, 20) {
            o.pm_noname = *rng.pick(&[100, 300]);
        }
        if rng.chance(3, 10) {
            o.pm_supp_of_pair = *rng.pick(&[200, 600]);
        }
        if rng.chance(3, 10) {
            // pairs whose mate fields disagree in one direction or both: must come back as written
            o.pm_stale_mates = *rng.pick(&[150, 500, 1000]);
            o.pm_pair = o.pm_pair.max(400);
        }
        if rng.chance(1, 4) {
            // rich -> minimal -> rich adjacency for stale-state observation
            o.pm_minimal = *rng.pick(&[100, 400]);
            o.alternate_minimal = rng.bool();
            if rng.bool() {
                o.pm_tags = 1000;
            }
            if rng.chance(1, 2) {
                // only unplaced records (rich unmapped reads + minimal ones): the one mix of rich and
                // minimal *slices* that the writer accepts inside a multi-slice container
                o.pm_pair = 0;
                o.pm_unmapped_single = 1000;
                o.pm_place_unmapped = 0;
            }
        }
        // (a mapped record with CIGAR but without bases still makes the writer panic: kept rare)
        if rng.chance(1, 50) {
            o.pm_nobases_mapped = 200;
        }
        let layout = match rng.below(20) {
            0..=2 => None,
            // slices of 1-3 records: every boundary kind falls between a rich and a minimal record
            3..=5 => Some((rng.urange(1, 3), rng.urange(1, 3))),
            6..=11 => Some((rng.urange(1, 30), 1)),
            _ => Some((rng.urange(1, 20), rng.urange(2, 4))),
        };
        let emap = if i % 2 == 0 { emaps[(i / 2) as usize % emaps.len()].clone() } else { rng.pick(&emaps).clone() };
        cases.push(Case {
            class: "rand".into(),
            gseed: rng.next_u64(),
            opts: o,
            preserve_names: rng.chance(7, 10),
            deltas: rng.bool(),
            emap,
            layout,
        });
    }
    // production slice/container rollover: > 10 240 records without H3
    let big = ctx.budget("big", 1, 6);
    for k in 0..big {
        let mut o = GenOpts::default();
        o.n_refs = 1 + (k as usize % 3);
        o.ref_len = (3000, 6000);
        o.n_templates = [7400, 11000, 15500, 8200, 10300, 7700][k as usize % 6];
        o.sorted = k % 2 == 0;
        o.max_read_len = 40;
        o.max_skip = 30;
        o.pm_pair = 450;
        o.iupac_ref = k % 3 == 1;
        cases.push(Case {
            class: "rand".into(),
            gseed: ctx.seed.wrapping_mul(977) ^ (k << 8),
            opts: o,
            preserve_names: k % 2 == 0,
            deltas: k % 3 != 0,
            emap: ["default", "rans4x8:1", "nx16:0x05", "bzip2:9", "tok", "aac:0x04"][k as usize % 6].into(),
            layout: None,
        });
    }
    cases
}

fn build_stream(c: &Case) -> (Stream, Option<(usize, usize)>) {
    if c.class.starts_with("det:") {
        det_stream(&c.class)
    } else if c.class.starts_with("bnd:") {
        bnd::build(&c.class, &|s: &Stream, layout| {
            let mut cc = c.clone();
            cc.layout = layout;
            match write_cram(&cc, s, &s.header(), &s.record_bufs()) {
                WriteOutcome::Ok(b) => Some(b),
                _ => None,
            }
        })
    } else {
        let mut rng = Rng::new(c.gseed, 0x5EED, 0);
        (gencram::gen_stream(&mut rng, &c.opts), c.layout)
    }
}

enum WriteOutcome {
    Ok(Vec<u8>),
    Rejected(String),
    Panicked(guard::PanicInfo),
}

fn write_cram(c: &Case, s: &Stream, header: &sam::Header, records: &[RecordBuf]) -> WriteOutcome {
    let repo = s.repository();
    let r = guard::catch(|| -> std::io::Result<Vec<u8>> {
        let mut b = cram::io::writer::Builder::default()
            .set_reference_sequence_repository(repo)
            .preserve_read_names(c.preserve_names)
            .encode_alignment_start_positions_as_deltas(c.deltas);
        if c.emap != "default" {
            b = b.set_block_content_encoder_map(emap::build(&c.emap));
        }
        if let Some((rps, spc)) = c.layout {
            b = b.verif_set_layout(rps, spc);
        }
        let mut w = b.build_from_writer(Vec::new());
        w.write_header(header)?;
        for r in records {
            w.write_alignment_record(header, r)?;
        }
        w.try_finish(header)?;
        Ok(w.into_inner())
    });
    match r {
        Err(p) => WriteOutcome::Panicked(p),
        Ok(Err(e)) => WriteOutcome::Rejected(classify_error(&e.to_string())),
        Ok(Ok(v)) => WriteOutcome::Ok(v),
    }
}

/// Error class: the message with data-dependent numbers removed. "missing external block: N"
/// keeps its number (a data series id, i.e. part of the diagnosis).
fn classify_error(m: &str) -> String {
    if m.starts_with("missing external block: ") && m.len() < 40 {
        return m.to_string();
    }
    let mut s = guard::normalise_message(m);
    if let Some(i) = s.find("expected [") {
        s.truncate(i);
    }
    if s.len() > 90 {
        s.truncate(90);
    }
    s
}

fn read_back(bytes: &[u8], s: &Stream) -> Result<Vec<RecordBuf>, (String, String)> {
    let repo = s.repository();
    let r = guard::catch(|| -> Result<Vec<RecordBuf>, (String, String)> {
        let mut reader = cram::io::reader::Builder::default()
            .set_reference_sequence_repository(repo)
            .build_from_reader(bytes);
        let header = reader.read_header().map_err(|e| ("header".to_string(), e.to_string()))?;
        let mut out = Vec::new();
        for r in reader.records(&header) {
            out.push(r.map_err(|e| ("records".to_string(), e.to_string()))?);
        }
        Ok(out)
    });
    match r {
        Err(p) => Err(("panic".into(), p.sig)),
        Ok(x) => x,
    }
}

/// The named fields of a record rendered for comparison (floats bit by bit through `Aux`).
fn fields(r: &RecordBuf) -> Vec<(&'static str, String)> {
    vec![
        ("name", format!("{:?}", r.name().map(|n| n.to_vec()))),
        ("flags", format!("{:#x}", u16::from(r.flags()))),
        ("reference", format!("{:?}", r.reference_sequence_id())),
        ("position", format!("{:?}", r.alignment_start().map(usize::from))),
        ("mapping-quality", format!("{:?}", r.mapping_quality().map(u8::from))),
        ("cigar", fmt_cigar(&cigar_of(r))),
        ("mate-reference", format!("{:?}", r.mate_reference_sequence_id())),
        ("mate-position", format!("{:?}", r.mate_alignment_start().map(usize::from))),
        ("template-length", r.template_length().to_string()),
        ("bases", String::from_utf8_lossy(r.sequence().as_ref()).to_string()),
        ("quality-scores", format!("{:?}", AsRef::<[u8]>::as_ref(r.quality_scores()))),
        ("tags", format!("{:?}", r.data().iter().map(|(t, v)| (t.as_ref().to_vec(), Aux::from_value(v))).collect::<Vec<_>>())),
    ]
}

/// Reads the file the way applications do: ONE reader and ONE of each reusable object for the
/// whole file, through every iteration API the sync reader offers, re-positioned on the same
/// reader in between. Returns the record list of each path:
/// * `container-slices-lazy-records-into-reused-record-buf`: `read_container` into one reused
///   `Container` -> `slices()` -> `decode_blocks` -> `Slice::records` (lazy `cram::Record`s) ->
///   `RecordBuf::try_clone_from_alignment_record` into one reused target;
/// * `records-second-pass`: `records(&header)` on the same reader after seeking back;
/// * `alignment-records-into-reused-record-buf`: the `sam::alignment::io::Read` trait objects cloned
///   into the same reused target;
/// * `records-after-abandoned-iteration`: `records(&header)` consumed half-way, dropped, reader
///   sought back, full iteration.
fn read_back_reused(bytes: &[u8], s: &Stream) -> Result<Vec<(&'static str, Vec<RecordBuf>)>, (String, String)> {
    use std::io::{Cursor, SeekFrom};

    use sam::alignment::io::Read as _;
    let repo = s.repository();
    let r = guard::catch(|| -> Result<Vec<(&'static str, Vec<RecordBuf>)>, (String, String)> {
        let e = |stage: &'static str| move |e: std::io::Error| (stage.to_string(), e.to_string());
        let mut reader = cram::io::reader::Builder::default()
            .set_reference_sequence_repository(repo.clone())
            .build_from_reader(Cursor::new(bytes));
        let header = reader.read_header().map_err(e("header"))?;
        let start = reader.position().map_err(e("position"))?;
        let mut paths = Vec::new();

        let mut container = cram::io::reader::Container::default();
        let mut target = RecordBuf::default();
        let mut out = Vec::new();
        while reader.read_container(&mut container).map_err(e("read_container"))? != 0 {
            let ch = container.compression_header().map_err(e("compression_header"))?;
            for slice in container.slices() {
                let slice = slice.map_err(e("slices"))?;
                let (core, ext) = slice.decode_blocks().map_err(e("decode_blocks"))?;
                let records = slice.records(repo.clone(), &header, &ch, &core, &ext).map_err(e("slice-records"))?;
                for r in &records {
                    target.try_clone_from_alignment_record(&header, r).map_err(e("try_clone_from_alignment_record"))?;
                    out.push(target.clone());
                }
            }
        }
        paths.push(("container-slices-lazy-records-into-reused-record-buf", out));

        reader.seek(SeekFrom::Start(start)).map_err(e("seek"))?;
        let second: Vec<RecordBuf> = reader.records(&header).collect::<std::io::Result<_>>().map_err(e("records-second-pass"))?;
        let n = second.len();
        paths.push(("records-second-pass", second));

        reader.seek(SeekFrom::Start(start)).map_err(e("seek"))?;
        let mut out = Vec::new();
        for r in reader.alignment_records(&header) {
            let r = r.map_err(e("alignment_records"))?;
            target.try_clone_from_alignment_record(&header, &*r).map_err(e("try_clone_from_alignment_record"))?;
            out.push(target.clone());
        }
        paths.push(("alignment-records-into-reused-record-buf", out));

        reader.seek(SeekFrom::Start(start)).map_err(e("seek"))?;
        {
            let mut it = reader.records(&header);
            for _ in 0..n / 2 {
                if let Some(r) = it.next() {
                    r.map_err(e("records-abandoned"))?;
                }
            }
        }
        reader.seek(SeekFrom::Start(start)).map_err(e("seek"))?;
        let again: Vec<RecordBuf> = reader.records(&header).collect::<std::io::Result<_>>().map_err(e("records-after-abandoned-iteration"))?;
        paths.push(("records-after-abandoned-iteration", again));
        Ok(paths)
    });
    match r {
        Err(p) => Err(("panic".into(), p.sig)),
        Ok(x) => x,
    }
}

/// Every reuse path must deliver exactly what the fresh single pass delivered.
fn compare_reused(s: &Stream, fresh: &[RecordBuf], bytes: &[u8]) -> Vec<(String, String)> {
    let mut out = Vec::new();
    match read_back_reused(bytes, s) {
        Err((stage, why)) => {
            let sig = if stage == "panic" { format!("reader-reuse:panic:{why}") } else { format!("reader-reuse:fails:{stage}:{}", classify_error(&why)) };
            out.push((sig, format!("the file reads back through a fresh records() pass but reading it with one reused reader fails in {stage}: {why}")));
        }
        Ok(paths) => {
            for (path, got) in paths {
                if got.len() != fresh.len() {
                    out.push((format!("reader-reuse:{path}:record-count"), format!("{} records through {path}, {} through a fresh records() pass", got.len(), fresh.len())));
                    continue;
                }
                for (i, (a, b)) in fresh.iter().zip(&got).enumerate() {
                    let (fa, fb) = (fields(a), fields(b));
                    if let Some(k) = fa.iter().zip(&fb).position(|(x, y)| x != y) {
                        // what the previous record looked like decides whether stale state is the explanation
                        let prev = if i == 0 { "first-record" } else if s.reads[i - 1].is_minimal() { "after-minimal-record" } else { "after-rich-record" };
                        let this = if s.reads[i].is_minimal() { "minimal-record" } else { "rich-record" };
                        out.push((
                            format!("reader-reuse:{path}:{}-differs-from-fresh-read:{this}:{prev}", fa[k].0),
                            format!("record #{i} through {path}: {} = {} but a fresh records() pass gave {}; written: {}; previous record: {}", fa[k].0, fb[k].1, fa[k].1,
                                    s.reads[i].sam_line(&s.refs), if i > 0 { s.reads[i - 1].sam_line(&s.refs) } else { "-".into() }),
                        ));
                        break;
                    }
                }
            }
        }
    }
    out
}

fn cigar_of(r: &RecordBuf) -> Vec<(char, usize)> {
    r.cigar().as_ref().iter().map(|op| (gencram::char_of(op.kind()), op.len())).collect()
}

fn fmt_cigar(c: &[(char, usize)]) -> String {
    if c.is_empty() { "*".into() } else { c.iter().map(|(k, n)| format!("{n}{k}")).collect() }
}

/// Relation of a record to its mate, for signatures (from the descriptions and the layout only).
fn pair_class(c: &Case, s: &Stream, i: usize) -> String {
    let w = &s.reads[i];
    let Some(j) = w.mate else {
        return if w.is_paired() { "paired-flag-without-mate-record".into() } else { "unpaired".into() };
    };
    let m = &s.reads[j];
    // which record (in file order) carries mate information that disagrees with its mate
    let (fst, snd) = if i < j { (w, m) } else { (m, w) };
    let stale = match (fst.stale.is_some(), snd.stale.is_some()) {
        (false, false) => "",
        (true, false) => ":first-in-file-has-inconsistent-mate-fields",
        (false, true) => ":second-in-file-has-inconsistent-mate-fields",
        (true, true) => ":both-have-inconsistent-mate-fields",
    };
    if c.slice_of(i) != c.slice_of(j) {
        return format!("mate-in-other-slice{stale}");
    }
    let (first, second) = if i < j { (w, m) } else { (m, w) };
    let rel = match (first.is_unmapped(), second.is_unmapped()) {
        (true, true) => "both-unmapped".to_string(),
        (false, false) => {
            if first.ref_id != second.ref_id {
                "both-mapped-different-references".to_string()
            } else if first.pos == second.pos {
                "both-mapped-same-start".to_string()
            } else if first.pos < second.pos {
                "both-mapped-first-in-file-is-leftmost".to_string()
            } else {
                "both-mapped-first-in-file-is-rightmost".to_string()
            }
        }
        _ => "one-segment-unmapped".to_string(),
    };
    format!("mate-in-same-slice:{rel}{stale}")
}

struct Cmp {
    violations: Vec<(String, String)>,
    compared: u64,
}

fn compare(c: &Case, s: &Stream, got: &[RecordBuf]) -> Cmp {
    let mut out = Cmp { violations: Vec::new(), compared: 0 };
    let mut seen: BTreeSet<String> = BTreeSet::new();
    let mut push = |out: &mut Cmp, sig: String, desc: String| {
        // one violation per signature and file is enough
        let sig = classed(c, s, &sig);
        if seen.insert(sig.clone()) {
            out.violations.push((sig, desc));
        }
    };
    if got.len() != s.reads.len() {
        push(&mut out, "roundtrip:record-count".into(), format!("wrote {} records, read back {}", s.reads.len(), got.len()));
        return out;
    }
    for (i, (w, r)) in s.reads.iter().zip(got).enumerate() {
        out.compared += 1;
        let mu = if w.is_unmapped() { "unmapped" } else { "mapped" };
        let line = || w.sam_line(&s.refs);
        // names
        if c.preserve_names {
            if let Some(n) = &w.name {
                let g = r.name().map(|n| n.to_vec());
                if g.as_ref() != Some(n) {
                    push(&mut out, format!("roundtrip:name:{}", pair_class(c, s, i)),
                         format!("record #{i}: name {:?} read back as {:?}; written: {}", String::from_utf8_lossy(n), g.map(|g| String::from_utf8_lossy(&g).to_string()), line()));
                }
            }
        }
        let gflags = u16::from(r.flags());
        if gflags != w.flags {
            push(&mut out, format!("roundtrip:flags:{mu}:{}", pair_class(c, s, i)),
                 format!("record #{i}: flags {:#x} read back as {gflags:#x}; written: {}", w.flags, line()));
        }
        let gref = r.reference_sequence_id();
        if gref != w.ref_id {
            push(&mut out, format!("roundtrip:reference:{mu}"), format!("record #{i}: reference id {:?} read back as {gref:?}; written: {}", w.ref_id, line()));
        }
        let gpos = r.alignment_start().map(usize::from);
        if gpos != w.pos {
            push(&mut out, format!("roundtrip:position:{mu}"), format!("record #{i}: POS {:?} read back as {gpos:?}; written: {}", w.pos, line()));
        }
        if !w.is_unmapped() {
            let gq = r.mapping_quality().map(u8::from);
            let wq = w.mapq.filter(|q| *q != 255);
            if gq != wq {
                push(&mut out, "roundtrip:mapping-quality:mapped".into(), format!("record #{i}: MAPQ {wq:?} read back as {gq:?}; written: {}", line()));
            }
        }
        let gc = cigar_of(r);
        let wc = w.cigar_normalised();
        if gc != wc {
            let shape: BTreeSet<char> = w.cigar.iter().map(|x| x.0).collect();
            push(&mut out, format!("roundtrip:cigar:{mu}:ops={}", shape.iter().collect::<String>()),
                 format!("record #{i}: CIGAR {} (normalised {}) read back as {}; written: {}", w.cigar_string(), fmt_cigar(&wc), fmt_cigar(&gc), line()));
        }
        let gmr = r.mate_reference_sequence_id();
        if gmr != w.mate_ref {
            push(&mut out, format!("roundtrip:mate-reference:{}", pair_class(c, s, i)),
                 format!("record #{i}: RNEXT {:?} read back as {gmr:?}; written: {}", w.mate_ref, line()));
        }
        let gmp = r.mate_alignment_start().map(usize::from);
        if gmp != w.mate_pos {
            push(&mut out, format!("roundtrip:mate-position:{}", pair_class(c, s, i)),
                 format!("record #{i}: PNEXT {:?} read back as {gmp:?}; written: {}", w.mate_pos, line()));
        }
        if r.template_length() != w.tlen {
            push(&mut out, format!("roundtrip:template-length:{}", pair_class(c, s, i)),
                 format!("record #{i}: TLEN {} read back as {}; written: {}", w.tlen, r.template_length(), line()));
        }
        let gb: &[u8] = r.sequence().as_ref();
        if !gb.eq_ignore_ascii_case(&w.bases) {
            let at = gb.iter().zip(&w.bases).position(|(a, b)| !a.eq_ignore_ascii_case(b)).unwrap_or(gb.len().min(w.bases.len()));
            let kind = if gb.len() != w.bases.len() {
                "length".to_string()
            } else {
                // which edit covers the differing base
                let mut p = 0usize;
                let mut k = "?";
                for e in &w.edits {
                    let (n, name) = match e {
                        gencram::Edit::Match(n) => (*n, "match"),
                        gencram::Edit::Mismatch(n) => (*n, "mismatch"),
                        gencram::Edit::Ins(n) => (*n, "insertion"),
                        gencram::Edit::Soft(n) => (*n, "soft-clip"),
                        _ => (0, ""),
                    };
                    if n > 0 && at < p + n {
                        k = name;
                        break;
                    }
                    p += n;
                }
                format!("in-{k}")
            };
            push(&mut out, format!("roundtrip:bases:{mu}:{kind}"),
                 format!("record #{i}: bases differ (case-insensitively) at read offset {at}: wrote {:?}, read {:?}; written: {}",
                         String::from_utf8_lossy(&w.bases), String::from_utf8_lossy(gb), line()));
        }
        let gq: &[u8] = r.quality_scores().as_ref();
        if gq != &w.quals[..] {
            let kind = if w.quals.is_empty() { "written-missing" } else if gq.is_empty() { "read-missing" } else if gq.len() != w.quals.len() { "length" } else { "value" };
            push(&mut out, format!("roundtrip:quality-scores:{mu}:{kind}"),
                 format!("record #{i}: qualities {:?} read back as {:?}; written: {}", w.quals, gq, line()));
        }
        let gt: Vec<([u8; 2], Aux)> = r.data().iter().map(|(t, v)| ([t.as_ref()[0], t.as_ref()[1]], Aux::from_value(v))).collect();
        if gt != w.tags {
            let norm = |a: &Aux| -> String {
                match a {
                    Aux::I8(_) | Aux::U8(_) | Aux::I16(_) | Aux::U16(_) | Aux::I32(_) | Aux::U32(_) => a.render(),
                    _ => format!("{}|{}", a.type_code(), a.render()),
                }
            };
            let mut a: Vec<String> = gt.iter().map(|(t, v)| format!("{}{}:{}", t[0] as char, t[1] as char, norm(v))).collect();
            let mut b: Vec<String> = w.tags.iter().map(|(t, v)| format!("{}{}:{}", t[0] as char, t[1] as char, norm(v))).collect();
            let kind = if a == b {
                "integer-subtype"
            } else {
                a.sort();
                b.sort();
                if a == b { "order" } else { "value" }
            };
            let types: BTreeSet<&str> = w.tags.iter().map(|(_, v)| v.type_code()).collect();
            let tsig = if kind == "value" { format!(":types={}", types.into_iter().collect::<Vec<_>>().join(",")) } else { String::new() };
            push(&mut out, format!("roundtrip:tags:{kind}{tsig}"),
                 format!("record #{i}: tags read back as {:?}; written: {}", gt.iter().map(|(t, v)| format!("{}{}:{}", t[0] as char, t[1] as char, v.render())).collect::<Vec<_>>(), line()));
        }
    }
    // names regenerated: mates must still pair up, distinct templates must stay distinct
    if !c.preserve_names {
        let mut name_of_template: BTreeMap<usize, Vec<u8>> = BTreeMap::new();
        let mut template_of_name: BTreeMap<Vec<u8>, usize> = BTreeMap::new();
        for (i, (w, r)) in s.reads.iter().zip(got).enumerate() {
            let Some(g) = r.name().map(|n| n.to_vec()) else {
                push(&mut out, "roundtrip:regenerated-name:missing".into(), format!("record #{i} came back without a name (preserve_read_names=false); written: {}", w.sam_line(&s.refs)));
                continue;
            };
            // (only the primary segments are required to keep pairing up: a supplementary or
            // secondary record is stored detached with its own name)
            if w.name.is_none() || w.flags & (gencram::F_SECONDARY | gencram::F_SUPPLEMENTARY) != 0 {
                continue;
            }
            match name_of_template.get(&w.template) {
                Some(n) if *n != g => push(&mut out, format!("roundtrip:regenerated-name:mates-differ:{}", pair_class(c, s, i)),
                    format!("record #{i}: the segments of template {} come back with different names {:?} / {:?}", w.template, String::from_utf8_lossy(n), String::from_utf8_lossy(&g))),
                Some(_) => {}
                None => {
                    name_of_template.insert(w.template, g.clone());
                }
            }
            match template_of_name.get(&g) {
                Some(t) if *t != w.template => push(&mut out, "roundtrip:regenerated-name:templates-collide".into(),
                    format!("record #{i}: name {:?} is shared by templates {} and {}", String::from_utf8_lossy(&g), t, w.template)),
                Some(_) => {}
                None => {
                    template_of_name.insert(g, w.template);
                }
            }
        }
    }
    out
}

/// Reads the file back and compares: (violations, records compared).
fn evaluate(c: &Case, s: &Stream, bytes: &[u8]) -> (Vec<(String, String)>, u64) {
    match read_back(bytes, s) {
        Err((stage, why)) => {
            let sig = if stage == "panic" { format!("roundtrip:reader-panic:{why}") } else { format!("roundtrip:unreadable:{stage}:{}", classify_error(&why)) };
            let sig = classed(c, s, &sig);
            (vec![(sig, format!("the writer returned Ok ({} records, {} bytes) but reading the file back fails in {stage}: {why}", s.reads.len(), bytes.len()))], 0)
        }
        Ok(got) => {
            let mut cmp = compare(c, s, &got);
            if got.len() == s.reads.len() {
                cmp.violations.extend(compare_reused(s, &got, bytes));
            }
            (cmp.violations, cmp.compared)
        }
    }
}

/// Attribution of a failed round trip to a block codec. The same stream is written once more with
/// every block uncompressed (the series data does not depend on the encoder map); each raw block
/// of that twin is pushed through encode+decode of the encoder the map assigns to it (H2
/// wrappers). If a block codec is not the identity on its block, the file-level symptoms that the
/// uncompressed twin does not show are replaced by one `block-codec-not-invertible` violation per
/// encoder; symptoms the twin shows as well are record-layer findings and are kept.
fn diagnose_codec(c: &Case, s: &Stream, header: &sam::Header, records: &[RecordBuf], viol: Vec<(String, String)>, o: &mut CaseOut) -> Vec<(String, String)> {
    let mut twin = c.clone();
    twin.emap = "none".into();
    let WriteOutcome::Ok(tbytes) = write_cram(&twin, s, header, records) else {
        return viol;
    };
    let Some(blocks) = gencram::rawwalk::blocks(&tbytes) else {
        return viol;
    };
    o.count("codec_diagnoses_run", 1);
    let mut bad: BTreeMap<String, String> = BTreeMap::new();
    // records of each slice in file order (for fqzcomp's record lengths)
    let mut slices: Vec<Vec<usize>> = Vec::new();
    for ch in s.reads.chunks(c.rpc()) {
        for sl in ch.chunks(c.rps()) {
            slices.push(sl.iter().map(|r| r.bases.len()).collect());
        }
    }
    for b in &blocks {
        // a block of raw size 0 is never decoded by a reader (CRAM 3.x section 8)
        if !(b.content_type == 4 || b.content_type == 5) || b.method != 0 || b.data.is_empty() {
            continue;
        }
        let enc = emap::encoder_for(&c.emap, b.content_type, b.content_id);
        if enc == "none" || bad.contains_key(&enc) {
            continue;
        }
        let lens: &[usize] = slices.get(b.slice).map(|v| &v[..]).unwrap_or(&[]);
        if let Some(why) = emap::probe(&enc, &b.data, lens) {
            bad.insert(enc.clone(), format!(
                "encoder {enc} is not invertible on the {} bytes of block (content type {}, content id {}) of slice {}: decode(encode(x)) {why}; x = {}{}",
                b.data.len(), b.content_type, b.content_id, b.slice, vcore::report::hex(&b.data[..b.data.len().min(48)]), if b.data.len() > 48 { "…" } else { "" }));
        }
    }
    if bad.is_empty() {
        return viol;
    }
    let tv = evaluate(&twin, s, &tbytes).0;
    let tsigs: BTreeSet<&String> = tv.iter().map(|v| &v.0).collect();
    let mut out: Vec<(String, String)> = viol.iter().filter(|v| tsigs.contains(&v.0)).cloned().collect();
    let symptoms: Vec<&str> = viol.iter().filter(|v| !tsigs.contains(&v.0)).map(|v| v.0.as_str()).collect();
    if symptoms.is_empty() {
        return viol;
    }
    let mut families: BTreeSet<String> = BTreeSet::new();
    for (enc, why) in bad {
        // the codec property itself (and the narrow diagnosis of each codec defect) is C08's; here
        // the signature names the codec family only
        let family = enc.split(':').next().unwrap_or(&enc).to_string();
        if !families.insert(family.clone()) {
            continue;
        }
        out.push((format!("roundtrip:block-codec-not-invertible:{family}"),
                  format!("{why}; file-level symptoms (absent from the uncompressed twin): {}", symptoms.join(" | "))));
    }
    out
}

/// Signatures of symptoms that a known-defect class of the *stream* explains carry that class
/// (from the generator's description) instead of the incidental detail: a stream with a record
/// that has bases but no qualities explains quality mismatches and unreadable slices; one with an
/// unmapped record without bases explains unreadable slices; one with a nameless record (names
/// preserved) explains name mismatches. Every other symptom keeps its plain signature.
fn classed(c: &Case, s: &Stream, sig: &str) -> String {
    let noqual = s.reads.iter().any(|r| !r.bases.is_empty() && r.quals.is_empty());
    let nobases = s.reads.iter().any(|r| r.is_unmapped() && r.bases.is_empty() && r.pos.is_none());
    let zero_span = zero_span_class(s);
    // (a nameless detached record is written with its "name" even when names are not preserved)
    let noname = s.reads.iter().any(|r| r.name.is_none());
    let _ = c;
    let unreadable = sig.starts_with("roundtrip:unreadable:records:") || sig.starts_with("roundtrip:reader-panic:");
    if noqual && sig.starts_with("roundtrip:quality-scores:") {
        return "roundtrip:stream-has-record-without-qualities:quality-scores-differ".into();
    }
    if noqual && unreadable {
        return format!("roundtrip:stream-has-record-without-qualities:{}", &sig["roundtrip:".len()..]);
    }
    if nobases && unreadable {
        return format!("roundtrip:stream-has-unmapped-record-without-bases:{}", &sig["roundtrip:".len()..]);
    }
    let supp = s.reads.iter().any(|r| r.is_paired() && r.flags & gencram::F_SUPPLEMENTARY != 0);
    if supp && ["roundtrip:mate-reference:", "roundtrip:mate-position:", "roundtrip:template-length:", "roundtrip:flags:"].iter().any(|p| sig.starts_with(p)) {
        return "roundtrip:stream-has-supplementary-segment-of-a-pair:mate-fields-differ".into();
    }
    if zero_span && (unreadable || sig.starts_with("roundtrip:reference:")) {
        return format!("roundtrip:stream-has-placed-unmapped-record-without-bases:{}", &sig["roundtrip:".len()..]);
    }
    if noname && (sig.starts_with("roundtrip:name:") || sig.starts_with("roundtrip:regenerated-name:")) {
        return "roundtrip:stream-has-record-without-name:names-differ".into();
    }
    sig.to_string()
}

/// A placed unmapped record without bases: its alignment span is zero.
fn zero_span_class(s: &Stream) -> bool {
    s.reads.iter().any(|r| r.is_unmapped() && r.bases.is_empty() && r.pos.is_some())
}

/// Sidecar of expected totals for the container walker (from the descriptions and the layout).
fn sidecar(c: &Case, s: &Stream) -> Json {
    let rpc = c.rpc();
    let rps = c.rps();
    let mut containers = Vec::new();
    let mut counter = 0usize;
    for chunk in s.reads.chunks(rpc) {
        let mut slices = Vec::new();
        let mut sc = counter;
        for sl in chunk.chunks(rps) {
            let ctx = match gencram::slice_context(sl) {
                SliceCtx::Single { ref_id, start, end, exact } => json!({"kind": "single", "ref": ref_id, "start": start, "end": end, "exact": exact}),
                SliceCtx::Unmapped => json!({"kind": "unmapped"}),
                SliceCtx::Multi => json!({"kind": "multi"}),
            };
            slices.push(json!({"records": sl.len(), "counter": sc, "ctx": ctx}));
            sc += sl.len();
        }
        containers.push(json!({
            "records": chunk.len(),
            "counter": counter,
            "bases": chunk.iter().map(|r| r.bases.len() as u64).sum::<u64>(),
            "slices": slices,
        }));
        counter += chunk.len();
    }
    json!({
        "records": s.reads.len(),
        "refs": s.refs.iter().map(sidecar_ref).collect::<Vec<_>>(),
        "containers": containers,
        "stream_class": if zero_span_class(s) { json!("stream-has-placed-unmapped-record-without-bases") } else { Json::Null },
        "case": case_json(c),
    })
}

/// A reference for the walker: verbatim, or (long, mostly-N references) as fill + patches.
fn sidecar_ref(r: &gencram::RefSeq) -> Json {
    if r.seq.len() <= 200_000 {
        return json!({"name": r.name, "seq": String::from_utf8_lossy(&r.seq)});
    }
    let mut patches = Vec::new();
    let mut i = 0usize;
    while i < r.seq.len() {
        if r.seq[i] == b'N' {
            i += 1;
            continue;
        }
        let j = r.seq[i..].iter().position(|b| *b == b'N').map(|k| i + k).unwrap_or(r.seq.len());
        patches.push(json!([i, String::from_utf8_lossy(&r.seq[i..j])]));
        i = j;
    }
    json!({"name": r.name, "length": r.seq.len(), "fill": "N", "patches": patches})
}

/// The stream as a witness, unless it is too large to be useful in a JSON file.
fn witness(s: &Stream) -> Json {
    let size: usize = s.reads.iter().map(|r| r.bases.len() + r.tags.len() * 8 + 60).sum::<usize>() + s.refs.iter().map(|r| r.seq.len()).sum::<usize>();
    if s.reads.len() <= 80 && size < 60_000 { json!({"stream": s.to_json()}) } else { Json::Null }
}

/// `bnd:many-records:<records per slice>:<total>`: more than 2^21 records, written and read back
/// streaming (record i is minimal, every 1000th is a named one-base read), so that the record
/// counters of the later containers cross the LTF8 width at 2^21.
fn run_many_records(ctx: &Ctx, idx: u64, c: &Case) -> CaseOut {
    let mut o = CaseOut::new();
    let parts: Vec<&str> = c.class.split(':').collect();
    let rps: usize = parts[2].parse().unwrap();
    let total: usize = parts[3].parse().unwrap();
    let s = Stream { refs: det_ref(), read_groups: vec![], reads: vec![], declared_lengths: None };
    let header = s.header();
    let minimal = gencram::minimal_read().to_record_buf();
    let named = |i: usize| -> ReadDesc {
        let mut r = gencram::minimal_read();
        r.name = Some(format!("n{i}").into_bytes());
        r.bases = vec![b"ACGT"[i % 4]];
        r.quals = vec![(i % 50) as u8];
        r
    };
    o.count(&format!("encoder_map[{}]", c.emap), 1);
    let repo = s.repository();
    let w = guard::catch(|| -> std::io::Result<Vec<u8>> {
        let mut b = cram::io::writer::Builder::default().set_reference_sequence_repository(repo).encode_alignment_start_positions_as_deltas(c.deltas).verif_set_layout(rps, 1);
        if c.emap != "default" {
            b = b.set_block_content_encoder_map(emap::build(&c.emap));
        }
        let mut w = b.build_from_writer(Vec::new());
        w.write_header(&header)?;
        for i in 0..total {
            if i % 1000 == 999 {
                w.write_alignment_record(&header, &named(i).to_record_buf())?;
            } else {
                w.write_alignment_record(&header, &minimal)?;
            }
        }
        w.try_finish(&header)?;
        Ok(w.into_inner())
    });
    let bytes = match w {
        Ok(Ok(b)) => b,
        Ok(Err(e)) => {
            o.count(&format!("writer_rejected[{}]", classify_error(&e.to_string())), 1);
            o.count("files_rejected_by_writer", 1);
            return o;
        }
        Err(p) => {
            o.count(&format!("writer_panics[{}]", p.sig), 1);
            o.count("files_writer_panicked", 1);
            return o;
        }
    };
    o.count("files_written", 1);
    o.count(&format!("files_written_with_encoder_map[{}]", c.emap), 1);
    o.count("records_written", total as u64);
    o.max("max_records_in_a_file", total as u64);
    for k in bnd::coverage(&bytes) {
        o.count(&k, 1);
    }
    // sidecar (arithmetic) + dump for the walker
    let mut containers = Vec::new();
    let mut at = 0usize;
    while at < total {
        let n = rps.min(total - at);
        let bases = (at..at + n).filter(|i| i % 1000 == 999).count();
        containers.push(json!({"records": n, "counter": at, "bases": bases, "slices": [{"records": n, "counter": at, "ctx": {"kind": "unmapped"}}]}));
        at += n;
    }
    let dump = ctx.work.join("dump");
    let _ = std::fs::create_dir_all(&dump);
    std::fs::write(dump.join(format!("{idx}.cram")), &bytes).expect("dump cram");
    let side = json!({"records": total, "refs": s.refs.iter().map(sidecar_ref).collect::<Vec<_>>(), "containers": containers, "stream_class": Json::Null, "case": case_json(c)});
    std::fs::write(dump.join(format!("{idx}.json")), serde_json::to_vec(&side).unwrap()).expect("dump sidecar");
    o.count("files_dumped_for_walker", 1);
    // streaming read back
    let repo = s.repository();
    let r = guard::catch(|| -> Result<usize, (String, String)> {
        let mut reader = cram::io::reader::Builder::default().set_reference_sequence_repository(repo).build_from_reader(&bytes[..]);
        let h = reader.read_header().map_err(|e| ("unreadable:header".to_string(), e.to_string()))?;
        let mut n = 0usize;
        for r in reader.records(&h) {
            let r = r.map_err(|e| ("unreadable:records".to_string(), format!("after {n} records: {e}")))?;
            // (the regenerated name of a nameless record is not judged)
            let (want_name, want_bases) = if n % 1000 == 999 { (Some(format!("n{n}").into_bytes()), 1) } else { (None, 0) };
            let bad = if u16::from(r.flags()) != 4 {
                Some("flags")
            } else if want_name.is_some() && r.name().map(|x| x.to_vec()) != want_name {
                Some("name")
            } else if r.sequence().len() != want_bases || r.quality_scores().len() != want_bases {
                Some("bases")
            } else if !r.data().is_empty() || r.alignment_start().is_some() || r.reference_sequence_id().is_some() {
                Some("other-fields")
            } else {
                None
            };
            if let Some(f) = bad {
                return Err((format!("many-records:{f}"), format!("record #{n} of {total} reads back as {:?} flags {:#x} with {} bases", r.name(), u16::from(r.flags()), r.sequence().len())));
            }
            n += 1;
        }
        Ok(n)
    });
    match r {
        Err(p) => o.violation(format!("roundtrip:reader-panic:{}", p.sig), format!("reading {total} records back panicked: {}", p.message)),
        Ok(Err((sig, why))) => o.violation(format!("roundtrip:{sig}:{}", if sig.starts_with("unreadable") { classify_error(&why) } else { String::new() }), format!("file of {total} records ({} bytes): {why}", bytes.len())),
        Ok(Ok(n)) => {
            o.count("records_compared", n as u64);
            if n != total {
                o.violation("roundtrip:record-count", format!("wrote {total} records, read back {n}"));
            }
        }
    }
    o.evaluations = 1;
    o.fp = fnv1a(c.class.as_bytes()) ^ fnv1a(c.emap.as_bytes());
    o
}

fn run_case(ctx: &Ctx, idx: u64, c: &Case) -> CaseOut {
    if c.class.starts_with("bnd:many-records:") {
        return run_many_records(ctx, idx, c);
    }
    let mut o = CaseOut::new();
    let (s, layout) = build_stream(c);
    let mut c = c.clone();
    c.layout = layout;
    let c = &c;
    let header = s.header();
    let records = s.record_bufs();
    o.count(&format!("encoder_map[{}]", c.emap), 1);
    let bytes = match write_cram(c, &s, &header, &records) {
        WriteOutcome::Ok(b) => b,
        WriteOutcome::Rejected(why) => {
            o.count(&format!("writer_rejected[{why}]"), 1);
            o.count(&format!("writer_rejected_with_encoder_map[{}]", c.emap), 1);
            o.count("files_rejected_by_writer", 1);
            return o;
        }
        WriteOutcome::Panicked(p) => {
            // the stream classes that are known to make the writer panic (from the descriptions)
            let why = if s.reads.iter().any(|r| !r.is_unmapped() && r.bases.is_empty()) {
                "stream has a mapped record with CIGAR but without bases: "
            } else if s.reads.iter().any(|r| r.is_unmapped() && r.pos.is_some() && r.pos.unwrap() + r.bases.len() - 1 > s.refs[r.ref_id.unwrap()].seq.len()) {
                "stream has a placed unmapped record whose bases run past the reference end: "
            } else if emap::encoder_for(&c.emap, 4, 28) == "fqz" && s.reads.iter().any(|r| r.features.read_base > 0 || r.quals.is_empty()) {
                "fqzcomp with read-base features or a record without qualities: "
            } else if s.reads.iter().any(|r| !r.is_unmapped() && r.quals.is_empty()) {
                "stream has a mapped record without qualities: "
            } else {
                ""
            };
            if why.is_empty() && std::env::var_os("C07_DEBUG_PANICS").is_some() {
                eprintln!("UNEXPLAINED WRITER PANIC {} :: {} :: {}", p.sig, case_json(c), s.to_json());
            }
            o.count(&format!("writer_panics[{why}{}]", p.sig), 1);
            o.count(&format!("writer_panicked_with_encoder_map[{}]", c.emap), 1);
            o.count("files_writer_panicked", 1);
            return o;
        }
    };
    o.count("files_written", 1);
    o.count(&format!("files_written_with_encoder_map[{}]", c.emap), 1);
    o.count("records_written", s.reads.len() as u64);
    if c.class.starts_with("bnd:") {
        o.count("boundary_files_written", 1);
        for k in bnd::coverage(&bytes) {
            o.count(&k, 1);
        }
    }
    o.max("max_records_in_a_file", s.reads.len() as u64);
    if bytes.len() > 6 {
        o.count(&format!("version[{}.{}]", bytes[4], bytes[5]), 1);
    }
    // coverage from the descriptions
    let mut feat_mask = 0u32;
    for r in &s.reads {
        for (k, (name, n)) in r.features.kinds().into_iter().enumerate() {
            if n > 0 {
                o.count(&format!("features[{name}]"), n as u64);
                feat_mask |= 1 << k;
            }
        }
    }
    let n_containers = s.reads.len().div_ceil(c.rpc());
    let n_slices: usize = s.reads.chunks(c.rpc()).map(|ch| ch.len().div_ceil(c.rps())).sum();
    o.count("containers_expected", n_containers as u64);
    o.count("slices_expected", n_slices as u64);
    let mut layout_mask = 0u32;
    if n_containers > 1 {
        o.count("files_with_several_containers", 1);
        layout_mask |= 1;
    }
    if n_slices > n_containers {
        o.count("files_with_several_slices_in_a_container", 1);
        layout_mask |= 2;
    }
    for ch in s.reads.chunks(c.rpc()) {
        for sl in ch.chunks(c.rps()) {
            match gencram::slice_context(sl) {
                SliceCtx::Multi => {
                    o.count("slices_multi_reference", 1);
                    layout_mask |= 4;
                }
                SliceCtx::Unmapped => {
                    o.count("slices_unmapped", 1);
                    layout_mask |= 8;
                }
                SliceCtx::Single { .. } => o.count("slices_single_reference", 1),
            }
        }
    }
    // rich <-> minimal adjacency, by the kind of boundary between the two records
    for i in 1..s.reads.len() {
        let (a, b) = (&s.reads[i - 1], &s.reads[i]);
        if a.is_minimal() == b.is_minimal() {
            continue;
        }
        let dir = if b.is_minimal() { "rich->minimal" } else { "minimal->rich" };
        let (sa, sb) = (c.slice_of(i - 1), c.slice_of(i));
        let boundary = if sa == sb { "inside-slice" } else if sa.0 == sb.0 { "across-slices" } else { "across-containers" };
        o.count(&format!("adjacent[{dir}:{boundary}]"), 1);
    }
    let mut pair_mask = 0u32;
    for (i, r) in s.reads.iter().enumerate() {
        if r.is_minimal() {
            o.count("records_minimal", 1);
        }
        if let (Some(kind), Some(j)) = (r.stale, r.mate) {
            let place = if c.slice_of(i) != c.slice_of(j) { "across-slices" } else if i.abs_diff(j) == 1 { "same-slice-adjacent" } else { "same-slice-separated" };
            let side = match (s.reads[j].stale.is_some(), i < j) {
                (true, _) => "both",
                (false, true) => "first-only",
                (false, false) => "second-only",
            };
            o.count(&format!("records_with_inconsistent_mate_fields[{place}:{side}]"), 1);
            o.count(&format!("records_with_inconsistent_mate_fields[{kind}]"), 1);
        }
        if r.is_paired() && r.flags & gencram::F_SUPPLEMENTARY != 0 {
            o.count("records_supplementary_segment_of_a_pair", 1);
        }
        if r.name.is_none() {
            o.count("records_without_name", 1);
        }
        if r.mate.is_some() {
            let pc = pair_class(c, &s, i);
            pair_mask |= 1 << (fnv1a(pc.as_bytes()) % 16);
            o.count(&format!("paired_records[{pc}]"), 1);
        }
        if r.is_unmapped() {
            o.count("records_unmapped", 1);
        }
        if !r.bases.is_empty() && r.quals.is_empty() {
            o.count("records_without_qualities", 1);
        }
        if r.bases.is_empty() {
            o.count("records_without_bases", 1);
        }
    }

    // (2) dump for the container walker
    let dump = ctx.work.join("dump");
    let _ = std::fs::create_dir_all(&dump);
    std::fs::write(dump.join(format!("{idx}.cram")), &bytes).expect("dump cram");
    std::fs::write(dump.join(format!("{idx}.json")), serde_json::to_vec(&sidecar(c, &s)).unwrap()).expect("dump sidecar");
    o.count("files_dumped_for_walker", 1);

    // (1) round trip
    let mut viol = evaluate(c, &s, &bytes);
    o.count("records_compared", viol.1);
    if !viol.0.is_empty() && c.emap != "none" {
        viol.0 = diagnose_codec(c, &s, &header, &records, viol.0, &mut o);
    }
    for (sig, desc) in viol.0 {
        o.violation_with(sig, desc, witness(&s));
    }
    o.evaluations = 1;
    o.fp = fnv1a(format!("{}|{}|{}|{layout_mask}|{feat_mask}|{pair_mask}|{}", c.emap, c.preserve_names, c.deltas, c.opts.sorted).as_bytes());
    if idx % 97 == 0 {
        o.sample = Some(json!({"case": case_json(c), "first_records": s.reads.iter().take(3).map(|r| r.sam_line(&s.refs)).collect::<Vec<_>>()}));
    }
    o
}

fn main() {
    let ctx = Ctx::from_args();
    let ctx = vcore::cases::replay_request(&ctx).map(|r| r.1).unwrap_or(ctx);
    let mut rep = Report::new(
        "case = one generated header+record stream (gencram: reads derived from random references by edit scripts; \
         unmapped reads; two-segment templates with consistent mate fields; tags) x writer options (preserve_read_names, \
         position deltas, block content encoder map, H3 layout) written with cram::io::Writer and read back with \
         cram::io::Reader; deterministic corpus (hand-made witnesses + every encoder map once) plus a VERIF_SEED-seeded \
         random part; distinct = distinct (encoder map, preserve names, deltas, sorted, layout class bitmask [several \
         containers / several slices per container / multi-reference slice / unmapped slice], feature-kind bitmask, \
         pair-relation bitmask); non-trivial = the writer returned Ok (file read back, compared and dumped for the walker)",
    );
    for a in [
        "bases are compared case-insensitively (statement)",
        "CIGAR is compared after mapping =/X to M and merging adjacent operations of the same kind (CRAM stores an edit script, not the CIGAR)",
        "the header is not required to round-trip (the writer adds M5 to @SQ)",
        "MAPQ is compared for mapped records only (CRAM stores MQ only for mapped reads; the statement's field list does not name MAPQ)",
        "with preserve_read_names=false names are not compared; the two segments of a template must come back with one name and distinct templates with distinct names",
        "a record written without a name is not compared on its name (CRAM regenerates names)",
        "aux values are compared with their exact type incl. integer subtypes c/C/s/S/i/I (CRAM keys tag series by tag+type; observed to be preserved), floats bit by bit; MD/NM are ordinary tags to noodles (neither stripped nor regenerated)",
        "mapped records always carry a CIGAR whose read length equals the number of bases; fqzcomp is only assigned to the quality-score series and the name tokenizer only to the read-name series",
        "a failed round trip is attributed to a block codec (signature block-codec-not-invertible:<family>) only when encode+decode of the assigned encoder, run through the H2 wrappers on the raw series block of an uncompressed twin of the file, is not the identity AND the twin does not show the symptom; codec invertibility itself is C08's property",
        "signatures of symptoms that a stream class of the generator explains (record without qualities, unmapped record without bases, placed unmapped record without bases, nameless record, supplementary segment of a pair) carry that class; all other symptoms keep their plain signature",
        "every file that reads back is read again with ONE reader through every iteration API (read_container into one reused Container -> slices -> lazy cram::Record -> try_clone_from_alignment_record into one reused RecordBuf; records() second pass; alignment_records() trait objects into the reused RecordBuf; records() abandoned half-way and restarted after a seek); each path must deliver exactly the records of the fresh pass (names of nameless records included); rich and minimal records are made adjacent inside slices and across slice/container boundaries (counters adjacent[...])",
        "with preserve_read_names=false only the primary segments of a template are required to share their regenerated name (supplementary/secondary records are stored detached with their own name)",
        "pairs are generated both with mutually consistent mate fields (SAMv1 TLEN rule) and with mate fields that disagree with the mate in one direction or both (stale PNEXT/RNEXT, flipped mate-reverse/mate-unmapped bits, TLEN of wrong magnitude/sign/zero); in both cases the expected read-back is exactly the written mate fields",
        "a writer call that returns Err or panics is counted (writer_rejected / writer_panics) and is not a violation; TLEN of generated pairs follows SAMv1 1.4.9 (leftmost..rightmost mapped base, + for the leftmost segment, first in file on ties, 0 across references or with an unmapped segment)",
    ] {
        rep.assumptions.push(a.into());
    }
    let cases = gen_cases(&ctx);
    let f = |i: u64| -> CaseOut {
        let t0 = std::time::Instant::now();
        let out = run_case(&ctx, i, &cases[i as usize]);
        if std::env::var_os("C07_DEBUG_TIMES").is_some() && t0.elapsed().as_secs_f64() > 0.5 {
            eprintln!("SLOW {:.1}s case #{i} {} {}", t0.elapsed().as_secs_f64(), cases[i as usize].class, cases[i as usize].emap);
        }
        out
    };
    run_cases(&ctx, &mut rep, cases.len() as u64, 120.0, &f, &|i| case_json(&cases[i as usize]));
    if ctx.replay.is_none() && ctx.param("tiny").is_none() && ctx.param("cases").is_none() {
        let counters = rep.counters.clone();
        let g = |k: &str| counters.get(k).copied().unwrap_or(0);
        rep.floor("files_written", g("files_written"), (cases.len() as u64) * 6 / 10);
        rep.floor("records_compared", g("records_compared"), 2000);
        rep.floor("slices_multi_reference", g("slices_multi_reference"), 5);
        rep.floor("files_with_several_containers", g("files_with_several_containers"), 20);
        rep.floor("files_with_several_slices_in_a_container", g("files_with_several_slices_in_a_container"), 20);
        for k in ["adjacent[rich->minimal:inside-slice]", "adjacent[minimal->rich:inside-slice]", "adjacent[rich->minimal:across-slices]", "adjacent[minimal->rich:across-slices]",
                  "adjacent[rich->minimal:across-containers]", "adjacent[minimal->rich:across-containers]"] {
            rep.floor(k, g(k), if k.contains("across-slices") { 8 } else { 20 });
        }
        for k in bnd::required() {
            rep.floor(&k, g(&k), 1);
        }
        for place in ["same-slice-adjacent", "same-slice-separated", "across-slices"] {
            for side in ["first-only", "second-only", "both"] {
                let k = format!("records_with_inconsistent_mate_fields[{place}:{side}]");
                rep.floor(&k, g(&k), 20);
            }
        }
        for kind in gencram::STALE_KINDS {
            let k = format!("records_with_inconsistent_mate_fields[{kind}]");
            rep.floor(&k, g(&k), 40);
        }
        rep.floor("records_supplementary_segment_of_a_pair", g("records_supplementary_segment_of_a_pair"), 50);
        rep.floor("records_without_qualities", g("records_without_qualities"), 100);
        rep.floor("records_without_name", g("records_without_name"), 100);
    }
    rep.finish(&ctx);
}
