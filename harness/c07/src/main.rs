//! C07 — stub (to be implemented).

fn main() {
    eprintln!("c07: not implemented");
    std::process::exit(2);
}
