//! gencram — CRAM-mode generator of the SAM data model.
//!
//! Everything is generated as a *description* first (plain harness structs: reference sequences as
//! byte vectors, reads as edit scripts against the reference); the values handed to noodles
//! (`sam::Header`, `fasta::Repository`, `RecordBuf`) are derived from the descriptions through the
//! public builders only. Oracles are computed from the descriptions, never by asking noodles.
//!
//! Contents
//! * random reference sequences (ACGTN, optionally IUPAC codes and lower case) and matching @SQ
//!   lines (with or without M5; the MD5 is computed by the harness' own implementation in `md5`);
//! * mapped reads derived from the reference by an edit script (match, mismatch, insertion,
//!   deletion, N-skip, soft clip, hard clip, padding): CIGAR, bases, span and the features the
//!   CRAM writer has to emit are known by construction;
//! * unmapped reads (placed and unplaced), templates of exactly two primary segments with
//!   mutually consistent mate fields and TLEN (SAMv1 §1.4.9), secondary / supplementary single
//!   alignments, read groups, typed aux tags incl. MD/NM present or absent, unique read names;
//! * flag-controlled defect classes: records without qualities, unmapped records without bases and
//!   qualities, mapped records without bases;
//! * `sorted` mode: coordinate order over the references with the unplaced reads as a tail.

pub mod md5;
pub mod rawwalk;

use std::num::NonZero;

use bstr::BString;
use noodles_core::Position;
use noodles_fasta as fasta;
use noodles_sam::{
    self as sam,
    alignment::{
        RecordBuf,
        record::{
            Flags, MappingQuality,
            cigar::{Op, op::Kind},
            data::field::Tag,
        },
        record_buf::{
            Cigar, Data, QualityScores, Sequence,
            data::field::{Value, value::Array},
        },
    },
    header::record::value::{
        Map,
        map::{self, ReadGroup, ReferenceSequence, header::Version, reference_sequence::tag as sqtag},
    },
};
use serde_json::{Value as Json, json};
use vcore::Rng;

pub const F_PAIRED: u16 = 0x1;
pub const F_PROPER: u16 = 0x2;
pub const F_UNMAPPED: u16 = 0x4;
pub const F_MATE_UNMAPPED: u16 = 0x8;
pub const F_REVERSE: u16 = 0x10;
pub const F_MATE_REVERSE: u16 = 0x20;
pub const F_FIRST: u16 = 0x40;
pub const F_LAST: u16 = 0x80;
pub const F_SECONDARY: u16 = 0x100;
pub const F_QCFAIL: u16 = 0x200;
pub const F_DUP: u16 = 0x400;
pub const F_SUPPLEMENTARY: u16 = 0x800;

/// One reference sequence.
#[derive(Clone, Debug)]
pub struct RefSeq {
    pub name: String,
    pub seq: Vec<u8>,
    /// whether the @SQ line handed to the writer carries M5 (the writer adds it otherwise)
    pub with_m5: bool,
}

/// One step of the edit script of a mapped read.
#[derive(Clone, Debug, PartialEq, Eq)]
pub enum Edit {
    /// `n` read bases equal (case-insensitively) to the reference
    Match(usize),
    /// `n` read bases that differ from the reference base at their position
    Mismatch(usize),
    Ins(usize),
    Del(usize),
    Skip(usize),
    Soft(usize),
    Hard(usize),
    Pad(usize),
}

/// A typed aux value (description side).
#[derive(Clone, Debug, PartialEq)]
pub enum Aux {
    A(u8),
    I8(i8),
    U8(u8),
    I16(i16),
    U16(u16),
    I32(i32),
    U32(u32),
    /// f32 as raw bits (NaN payloads are compared bit by bit)
    F(u32),
    Z(Vec<u8>),
    H(Vec<u8>),
    BI8(Vec<i8>),
    BU8(Vec<u8>),
    BI16(Vec<i16>),
    BU16(Vec<u16>),
    BI32(Vec<i32>),
    BU32(Vec<u32>),
    BF(Vec<u32>),
}

impl Aux {
    pub fn type_code(&self) -> &'static str {
        match self {
            Aux::A(_) => "A",
            Aux::I8(_) => "c",
            Aux::U8(_) => "C",
            Aux::I16(_) => "s",
            Aux::U16(_) => "S",
            Aux::I32(_) => "i",
            Aux::U32(_) => "I",
            Aux::F(_) => "f",
            Aux::Z(_) => "Z",
            Aux::H(_) => "H",
            Aux::BI8(_) => "Bc",
            Aux::BU8(_) => "BC",
            Aux::BI16(_) => "Bs",
            Aux::BU16(_) => "BS",
            Aux::BI32(_) => "Bi",
            Aux::BU32(_) => "BI",
            Aux::BF(_) => "Bf",
        }
    }

    pub fn to_value(&self) -> Value {
        match self {
            Aux::A(c) => Value::Character(*c),
            Aux::I8(v) => Value::Int8(*v),
            Aux::U8(v) => Value::UInt8(*v),
            Aux::I16(v) => Value::Int16(*v),
            Aux::U16(v) => Value::UInt16(*v),
            Aux::I32(v) => Value::Int32(*v),
            Aux::U32(v) => Value::UInt32(*v),
            Aux::F(b) => Value::Float(f32::from_bits(*b)),
            Aux::Z(s) => Value::String(BString::from(s.clone())),
            Aux::H(s) => Value::Hex(BString::from(s.clone())),
            Aux::BI8(v) => Value::Array(Array::Int8(v.clone())),
            Aux::BU8(v) => Value::Array(Array::UInt8(v.clone())),
            Aux::BI16(v) => Value::Array(Array::Int16(v.clone())),
            Aux::BU16(v) => Value::Array(Array::UInt16(v.clone())),
            Aux::BI32(v) => Value::Array(Array::Int32(v.clone())),
            Aux::BU32(v) => Value::Array(Array::UInt32(v.clone())),
            Aux::BF(v) => Value::Array(Array::Float(v.iter().map(|b| f32::from_bits(*b)).collect())),
        }
    }

    /// The description of a noodles value (used on read-back values; a pure data conversion).
    pub fn from_value(v: &Value) -> Aux {
        match v {
            Value::Character(c) => Aux::A(*c),
            Value::Int8(v) => Aux::I8(*v),
            Value::UInt8(v) => Aux::U8(*v),
            Value::Int16(v) => Aux::I16(*v),
            Value::UInt16(v) => Aux::U16(*v),
            Value::Int32(v) => Aux::I32(*v),
            Value::UInt32(v) => Aux::U32(*v),
            Value::Float(f) => Aux::F(f.to_bits()),
            Value::String(s) => Aux::Z(s.to_vec()),
            Value::Hex(s) => Aux::H(s.to_vec()),
            Value::Array(Array::Int8(v)) => Aux::BI8(v.clone()),
            Value::Array(Array::UInt8(v)) => Aux::BU8(v.clone()),
            Value::Array(Array::Int16(v)) => Aux::BI16(v.clone()),
            Value::Array(Array::UInt16(v)) => Aux::BU16(v.clone()),
            Value::Array(Array::Int32(v)) => Aux::BI32(v.clone()),
            Value::Array(Array::UInt32(v)) => Aux::BU32(v.clone()),
            Value::Array(Array::Float(v)) => Aux::BF(v.iter().map(|f| f.to_bits()).collect()),
        }
    }

    /// SAM text of the value (`TYPE:VALUE`), rendered by the harness.
    pub fn render(&self) -> String {
        fn arr<T: std::fmt::Display>(t: char, v: &[T]) -> String {
            let mut s = format!("B:{t}");
            for x in v {
                s.push(',');
                s.push_str(&x.to_string());
            }
            s
        }
        match self {
            Aux::A(c) => format!("A:{}", *c as char),
            Aux::I8(v) => format!("i:{v}"),
            Aux::U8(v) => format!("i:{v}"),
            Aux::I16(v) => format!("i:{v}"),
            Aux::U16(v) => format!("i:{v}"),
            Aux::I32(v) => format!("i:{v}"),
            Aux::U32(v) => format!("i:{v}"),
            Aux::F(b) => format!("f:{}", f32::from_bits(*b)),
            Aux::Z(s) => format!("Z:{}", String::from_utf8_lossy(s)),
            Aux::H(s) => format!("H:{}", String::from_utf8_lossy(s)),
            Aux::BI8(v) => arr('c', v),
            Aux::BU8(v) => arr('C', v),
            Aux::BI16(v) => arr('s', v),
            Aux::BU16(v) => arr('S', v),
            Aux::BI32(v) => arr('i', v),
            Aux::BU32(v) => arr('I', v),
            Aux::BF(v) => arr('f', &v.iter().map(|b| f32::from_bits(*b)).collect::<Vec<_>>()),
        }
    }
}

/// How many features of each kind the CRAM writer must derive from a read (known by construction).
#[derive(Clone, Debug, Default, PartialEq, Eq)]
pub struct FeatureCounts {
    /// mismatch with both bases in ACGTN (substitution code)
    pub substitution: usize,
    /// mismatch where the read base or the reference base is outside ACGTN (read base feature)
    pub read_base: usize,
    pub insert_base: usize,
    pub insertion: usize,
    pub deletion: usize,
    pub ref_skip: usize,
    pub soft_clip: usize,
    pub hard_clip: usize,
    pub padding: usize,
}

impl FeatureCounts {
    pub fn total(&self) -> usize {
        self.substitution
            + self.read_base
            + self.insert_base
            + self.insertion
            + self.deletion
            + self.ref_skip
            + self.soft_clip
            + self.hard_clip
            + self.padding
    }

    pub fn kinds(&self) -> Vec<(&'static str, usize)> {
        vec![
            ("substitution", self.substitution),
            ("read_base", self.read_base),
            ("insert_base", self.insert_base),
            ("insertion", self.insertion),
            ("deletion", self.deletion),
            ("ref_skip", self.ref_skip),
            ("soft_clip", self.soft_clip),
            ("hard_clip", self.hard_clip),
            ("padding", self.padding),
        ]
    }
}

/// Description of one alignment record.
#[derive(Clone, Debug)]
pub struct ReadDesc {
    pub name: Option<Vec<u8>>,
    pub flags: u16,
    /// 0-based reference index
    pub ref_id: Option<usize>,
    /// 1-based
    pub pos: Option<usize>,
    pub mapq: Option<u8>,
    /// CIGAR as written: (op char, len)
    pub cigar: Vec<(char, usize)>,
    /// empty = missing (`*`)
    pub bases: Vec<u8>,
    /// empty = missing (`*`)
    pub quals: Vec<u8>,
    pub mate_ref: Option<usize>,
    pub mate_pos: Option<usize>,
    pub tlen: i32,
    pub tags: Vec<([u8; 2], Aux)>,
    /// edit script the read was derived with (mapped reads only)
    pub edits: Vec<Edit>,
    pub features: FeatureCounts,
    /// template number (both segments of a pair share it)
    pub template: usize,
    /// index of the mate in `Stream::reads` (pairs only)
    pub mate: Option<usize>,
    /// how the mate fields of this record were made inconsistent with its mate (None = consistent)
    pub stale: Option<&'static str>,
}

impl ReadDesc {
    pub fn is_unmapped(&self) -> bool {
        self.flags & F_UNMAPPED != 0
    }

    pub fn is_paired(&self) -> bool {
        self.flags & F_PAIRED != 0
    }

    /// Number of reference bases the CIGAR consumes (Σ M/D/N/=/X).
    pub fn ref_len(&self) -> usize {
        self.cigar.iter().filter(|(k, _)| matches!(k, 'M' | 'D' | 'N' | '=' | 'X')).map(|(_, n)| n).sum()
    }

    /// Inclusive 1-based reference span of a mapped, placed read (from POS and CIGAR).
    pub fn span(&self) -> Option<(usize, usize)> {
        if self.is_unmapped() {
            return None;
        }
        let p = self.pos?;
        self.ref_id?;
        let n = self.ref_len();
        Some((p, p + n.max(1) - 1))
    }

    pub fn cigar_string(&self) -> String {
        if self.cigar.is_empty() {
            return "*".into();
        }
        self.cigar.iter().map(|(k, n)| format!("{n}{k}")).collect()
    }

    /// CIGAR after the normalisation that is inherent to CRAM's edit-script storage: `=`/`X`
    /// become `M`, adjacent operations of the same kind are merged.
    pub fn cigar_normalised(&self) -> Vec<(char, usize)> {
        normalise_cigar(&self.cigar)
    }

    /// One SAM line rendered by the harness (for witnesses).
    pub fn sam_line(&self, refs: &[RefSeq]) -> String {
        let rn = |r: Option<usize>| r.map(|i| refs[i].name.clone()).unwrap_or_else(|| "*".into());
        let mut s = format!(
            "{}\t{}\t{}\t{}\t{}\t{}\t{}\t{}\t{}\t{}\t{}",
            self.name.as_ref().map(|n| String::from_utf8_lossy(n).to_string()).unwrap_or_else(|| "*".into()),
            self.flags,
            rn(self.ref_id),
            self.pos.unwrap_or(0),
            self.mapq.unwrap_or(255),
            self.cigar_string(),
            rn(self.mate_ref),
            self.mate_pos.unwrap_or(0),
            self.tlen,
            if self.bases.is_empty() { "*".to_string() } else { String::from_utf8_lossy(&self.bases).to_string() },
            if self.quals.is_empty() { "*".to_string() } else { self.quals.iter().map(|q| (q + 33) as char).collect() },
        );
        for (t, v) in &self.tags {
            s.push('\t');
            s.push(t[0] as char);
            s.push(t[1] as char);
            s.push(':');
            s.push_str(&v.render());
        }
        s
    }

    /// Conversion to the noodles value through public constructors only.
    pub fn to_record_buf(&self) -> RecordBuf {
        let mut b = RecordBuf::builder().set_flags(Flags::from(self.flags));
        if let Some(n) = &self.name {
            b = b.set_name(BString::from(n.clone()));
        }
        if let Some(r) = self.ref_id {
            b = b.set_reference_sequence_id(r);
        }
        if let Some(p) = self.pos {
            b = b.set_alignment_start(Position::new(p).expect("pos > 0"));
        }
        if let Some(q) = self.mapq.and_then(MappingQuality::new) {
            b = b.set_mapping_quality(q);
        }
        if !self.cigar.is_empty() {
            let ops: Vec<Op> = self.cigar.iter().map(|(k, n)| Op::new(kind_of(*k), *n)).collect();
            b = b.set_cigar(Cigar::from(ops));
        }
        if let Some(r) = self.mate_ref {
            b = b.set_mate_reference_sequence_id(r);
        }
        if let Some(p) = self.mate_pos {
            b = b.set_mate_alignment_start(Position::new(p).expect("mate pos > 0"));
        }
        b = b.set_template_length(self.tlen);
        if !self.bases.is_empty() {
            b = b.set_sequence(Sequence::from(self.bases.clone()));
        }
        if !self.quals.is_empty() {
            b = b.set_quality_scores(QualityScores::from(self.quals.clone()));
        }
        if !self.tags.is_empty() {
            let data: Data = self.tags.iter().map(|(t, v)| (Tag::new(t[0], t[1]), v.to_value())).collect();
            b = b.set_data(data);
        }
        b.build()
    }
}

pub fn kind_of(c: char) -> Kind {
    match c {
        'M' => Kind::Match,
        'I' => Kind::Insertion,
        'D' => Kind::Deletion,
        'N' => Kind::Skip,
        'S' => Kind::SoftClip,
        'H' => Kind::HardClip,
        'P' => Kind::Pad,
        '=' => Kind::SequenceMatch,
        'X' => Kind::SequenceMismatch,
        _ => panic!("bad cigar op {c}"),
    }
}

pub fn char_of(k: Kind) -> char {
    match k {
        Kind::Match => 'M',
        Kind::Insertion => 'I',
        Kind::Deletion => 'D',
        Kind::Skip => 'N',
        Kind::SoftClip => 'S',
        Kind::HardClip => 'H',
        Kind::Pad => 'P',
        Kind::SequenceMatch => '=',
        Kind::SequenceMismatch => 'X',
    }
}

pub fn normalise_cigar(c: &[(char, usize)]) -> Vec<(char, usize)> {
    let mut out: Vec<(char, usize)> = Vec::new();
    for &(k, n) in c {
        let k = if k == '=' || k == 'X' { 'M' } else { k };
        match out.last_mut() {
            Some(l) if l.0 == k => l.1 += n,
            _ => out.push((k, n)),
        }
    }
    out
}

/// Knobs of the stream generator.
#[derive(Clone, Debug)]
pub struct GenOpts {
    pub n_refs: usize,
    /// reference length range
    pub ref_len: (usize, usize),
    /// number of templates (a pair yields two records)
    pub n_templates: usize,
    /// coordinate-sorted output with the unplaced reads as a tail
    pub sorted: bool,
    /// IUPAC codes and lower case in the references
    pub iupac_ref: bool,
    /// per-mille probabilities
    pub pm_pair: u64,
    pub pm_unmapped_single: u64,
    pub pm_secondary_or_supp: u64,
    /// records with bases but without qualities (known defect class)
    pub pm_noqual: u64,
    /// unmapped records with neither bases nor qualities (known defect class)
    pub pm_nobases_unmapped: u64,
    /// mapped records without bases (makes the writer panic)
    pub pm_nobases_mapped: u64,
    /// records without a name (unpaired records only)
    pub pm_noname: u64,
    /// maximal read length
    pub max_read_len: usize,
    /// N-skips up to this length
    pub max_skip: usize,
    /// keep the two segments of a pair next to each other (otherwise anywhere in the stream)
    pub pm_mates_adjacent: u64,
    /// number of read groups in the header (0 = none)
    pub n_read_groups: usize,
    /// per-mille probability that a record carries aux tags at all
    pub pm_tags: u64,
    /// restrict all reads to one reference (single-reference slices)
    pub single_ref_reads: bool,
    /// "minimal" records: unplaced, unmapped, no name, no bases, no qualities, no tags (the
    /// counterpart of the rich records for stale-state observation in reused readers/buffers)
    pub pm_minimal: u64,
    /// in unsorted streams, put one minimal record after every other record (rich -> minimal ->
    /// rich adjacency) instead of leaving their places to chance
    pub alternate_minimal: bool,
    /// a pair with a mapped segment additionally gets a supplementary alignment of one segment
    /// (same name, paired + first/last + supplementary, mate fields pointing at the other primary)
    pub pm_supp_of_pair: u64,
    /// per-mille probability that a single unmapped read is placed (has RNAME/POS)
    pub pm_place_unmapped: u64,
    /// per-mille probability that the mate fields of a pair are made inconsistent (stale) in one
    /// direction or in both (the statement covers every stream the writer accepts, not only
    /// mutually consistent pairs)
    pub pm_stale_mates: u64,
}

impl Default for GenOpts {
    fn default() -> Self {
        GenOpts {
            n_refs: 2,
            ref_len: (50, 400),
            n_templates: 20,
            sorted: false,
            iupac_ref: false,
            pm_pair: 350,
            pm_unmapped_single: 100,
            pm_secondary_or_supp: 60,
            pm_noqual: 0,
            pm_nobases_unmapped: 0,
            pm_nobases_mapped: 0,
            pm_noname: 0,
            max_read_len: 60,
            max_skip: 120,
            pm_mates_adjacent: 400,
            n_read_groups: 2,
            pm_tags: 700,
            single_ref_reads: false,
            pm_minimal: 0,
            alternate_minimal: false,
            pm_supp_of_pair: 0,
            pm_place_unmapped: 250,
            pm_stale_mates: 0,
        }
    }
}

/// A generated header + record stream (description side).
#[derive(Clone, Debug)]
pub struct Stream {
    pub refs: Vec<RefSeq>,
    pub read_groups: Vec<String>,
    pub reads: Vec<ReadDesc>,
    /// @SQ LN values that differ from the length of the sequences in the repository (only for
    /// streams whose placed records never touch the reference: placed unmapped reads in
    /// multi-reference slices at coordinates a real reference would be too costly for)
    pub declared_lengths: Option<Vec<usize>>,
}

impl Stream {
    /// The `sam::Header` handed to the writer: @HD, @SQ (LN, optionally M5), @RG.
    pub fn header(&self) -> sam::Header {
        let mut b = sam::Header::builder().set_header(Map::<map::Header>::new(Version::new(1, 6)));
        for r in &self.refs {
            let len = self.declared_lengths.as_ref().map(|v| v[self.refs.iter().position(|x| x.name == r.name).unwrap()]).unwrap_or(r.seq.len());
            let len = NonZero::new(len).expect("reference length > 0");
            let m = if r.with_m5 {
                Map::<ReferenceSequence>::builder()
                    .set_length(len)
                    .insert(sqtag::MD5_CHECKSUM, BString::from(md5::hex(&md5::md5_of_reference(&r.seq))))
                    .build()
                    .expect("valid @SQ")
            } else {
                Map::<ReferenceSequence>::new(len)
            };
            b = b.add_reference_sequence(r.name.as_bytes(), m);
        }
        for g in &self.read_groups {
            b = b.add_read_group(g.as_bytes(), Map::<ReadGroup>::default());
        }
        b.build()
    }

    /// `fasta::Repository` over in-memory records.
    pub fn repository(&self) -> fasta::Repository {
        let recs: Vec<fasta::Record> = self
            .refs
            .iter()
            .map(|r| {
                fasta::Record::new(
                    fasta::record::Definition::new(r.name.as_bytes(), None),
                    fasta::record::Sequence::from(r.seq.clone()),
                )
            })
            .collect();
        fasta::Repository::new(recs)
    }

    pub fn record_bufs(&self) -> Vec<RecordBuf> {
        self.reads.iter().map(|r| r.to_record_buf()).collect()
    }

    pub fn total_bases(&self) -> u64 {
        self.reads.iter().map(|r| r.bases.len() as u64).sum()
    }

    pub fn to_json(&self) -> Json {
        json!({
            "refs": self.refs.iter().map(|r| json!({"name": r.name, "seq": String::from_utf8_lossy(&r.seq), "m5": r.with_m5})).collect::<Vec<_>>(),
            "read_groups": self.read_groups,
            "sam": self.reads.iter().map(|r| r.sam_line(&self.refs)).collect::<Vec<_>>(),
        })
    }
}

const ACGT: &[u8] = b"ACGT";
const IUPAC_EXTRA: &[u8] = b"RYSWKMBDHV";

fn gen_reference(rng: &mut Rng, len: usize, iupac: bool) -> Vec<u8> {
    let mut s = Vec::with_capacity(len);
    // runs of N are typical for real references
    let mut n_run = 0usize;
    for _ in 0..len {
        if n_run > 0 {
            n_run -= 1;
            s.push(b'N');
            continue;
        }
        let r = rng.below(1000);
        let b = if r < 8 {
            n_run = rng.urange(0, 6);
            b'N'
        } else if iupac && r < 40 {
            *rng.pick(IUPAC_EXTRA)
        } else {
            *rng.pick(ACGT)
        };
        let b = if iupac && rng.chance(1, 8) { b.to_ascii_lowercase() } else { b };
        s.push(b);
    }
    s
}

fn is_acgtn(b: u8) -> bool {
    matches!(b.to_ascii_uppercase(), b'A' | b'C' | b'G' | b'T' | b'N')
}

/// A read base that differs (case-insensitively) from `refb`.
fn mismatch_base(rng: &mut Rng, refb: u8, exotic: bool) -> u8 {
    loop {
        let r = rng.below(100);
        let b = if r < 70 {
            *rng.pick(ACGT)
        } else if r < 85 {
            b'N'
        } else if exotic {
            *rng.pick(IUPAC_EXTRA)
        } else {
            *rng.pick(ACGT)
        };
        let b = if exotic && rng.chance(1, 6) { b.to_ascii_lowercase() } else { b };
        if !b.eq_ignore_ascii_case(&refb) {
            return b;
        }
    }
}

fn random_base(rng: &mut Rng, exotic: bool) -> u8 {
    let r = rng.below(100);
    let b = if r < 88 {
        *rng.pick(ACGT)
    } else if r < 95 || !exotic {
        b'N'
    } else {
        *rng.pick(IUPAC_EXTRA)
    };
    if exotic && rng.chance(1, 10) { b.to_ascii_lowercase() } else { b }
}

fn gen_quals(rng: &mut Rng, n: usize) -> Vec<u8> {
    match rng.below(6) {
        0 => vec![rng.below(94) as u8; n],
        1 => (0..n).map(|_| rng.below(94) as u8).collect(),
        _ => {
            // binned, illumina-like
            let bins = [2u8, 11, 25, 37, 40];
            (0..n).map(|_| *rng.pick(&bins)).collect()
        }
    }
}

/// Builds a mapped read on reference `rid` starting at 1-based `start`. Returns the read without
/// name / pairing information.
pub fn gen_mapped_read(rng: &mut Rng, refs: &[RefSeq], rid: usize, start: usize, o: &GenOpts, exotic: bool) -> ReadDesc {
    let rseq = &refs[rid].seq;
    assert!(start >= 1 && start <= rseq.len());
    let mut remaining_ref = rseq.len() - start + 1;
    let mut remaining_read = o.max_read_len.max(2);
    let mut edits: Vec<Edit> = Vec::new();

    // leading clips
    if rng.chance(1, 8) {
        edits.push(Edit::Hard(1 + rng.skewed(30) as usize));
    }
    if rng.chance(1, 5) && remaining_read > 4 {
        let n = 1 + rng.skewed(8) as usize;
        let n = n.min(remaining_read - 2);
        edits.push(Edit::Soft(n));
        remaining_read -= n;
    }
    let body_ops = 1 + rng.skewed(9) as usize;
    let mut body: Vec<Edit> = Vec::new();
    for k in 0..body_ops {
        let first = k == 0;
        let last = k + 1 == body_ops;
        if remaining_read == 0 || remaining_ref == 0 {
            break;
        }
        let r = rng.below(100);
        // the first and last body operation consume both read and reference (rarely an insertion)
        let e = if first || last {
            if r < 6 && !(first && last) {
                Edit::Ins(1 + rng.skewed(3) as usize)
            } else if r < 25 {
                Edit::Mismatch(1 + rng.skewed(2) as usize)
            } else {
                Edit::Match(1 + rng.skewed(40) as usize)
            }
        } else if r < 40 {
            Edit::Match(1 + rng.skewed(40) as usize)
        } else if r < 58 {
            Edit::Mismatch(1 + rng.skewed(3) as usize)
        } else if r < 72 {
            Edit::Ins(1 + rng.skewed(5) as usize)
        } else if r < 86 {
            Edit::Del(1 + rng.skewed(9) as usize)
        } else if r < 94 {
            Edit::Skip(1 + rng.skewed(o.max_skip as u64) as usize)
        } else {
            Edit::Pad(1 + rng.skewed(2) as usize)
        };
        // clamp to what is left
        let e = match e {
            Edit::Match(n) => Edit::Match(n.min(remaining_read).min(remaining_ref)),
            Edit::Mismatch(n) => Edit::Mismatch(n.min(remaining_read).min(remaining_ref)),
            Edit::Ins(n) => Edit::Ins(n.min(remaining_read)),
            Edit::Del(n) => {
                // keep one reference base for the closing match
                if remaining_ref < 2 {
                    continue;
                }
                Edit::Del(n.min(remaining_ref - 1))
            }
            Edit::Skip(n) => {
                if remaining_ref < 2 {
                    continue;
                }
                Edit::Skip(n.min(remaining_ref - 1))
            }
            x => x,
        };
        match e {
            Edit::Match(n) | Edit::Mismatch(n) => {
                remaining_read -= n;
                remaining_ref -= n;
            }
            Edit::Ins(n) => remaining_read -= n,
            Edit::Del(n) | Edit::Skip(n) => remaining_ref -= n,
            _ => {}
        }
        body.push(e);
    }
    // the body must end with a read+reference consuming operation (or an insertion); drop trailing D/N/P
    while matches!(body.last(), Some(Edit::Del(_) | Edit::Skip(_) | Edit::Pad(_))) {
        body.pop();
    }
    // and start with one
    while matches!(body.first(), Some(Edit::Del(_) | Edit::Skip(_) | Edit::Pad(_))) {
        body.remove(0);
        // the reference bases of a dropped leading D/N are simply not used (start stays)
    }
    if !body.iter().any(|e| matches!(e, Edit::Match(_) | Edit::Mismatch(_))) {
        // at least one aligned base
        body.push(Edit::Match(1));
    }
    edits.extend(body);
    if rng.chance(1, 5) {
        edits.push(Edit::Soft(1 + rng.skewed(8) as usize));
    }
    if rng.chance(1, 8) {
        edits.push(Edit::Hard(1 + rng.skewed(30) as usize));
    }

    // Recompute: walk the edit script over the reference; a leading D/N that was dropped shifted
    // nothing because the walk restarts at `start`. Clamp anything that would run off the end.
    let mut bases = Vec::new();
    let mut rp = start - 1; // 0-based reference cursor
    let mut feats = FeatureCounts::default();
    let mut final_edits = Vec::new();
    for e in edits {
        match e {
            Edit::Match(n) => {
                let n = n.min(rseq.len() - rp);
                if n == 0 {
                    continue;
                }
                for i in 0..n {
                    let b = rseq[rp + i];
                    // same base, possibly in the other case: equal under the statement's comparison
                    let b = if exotic && rng.chance(1, 12) {
                        if b.is_ascii_lowercase() { b.to_ascii_uppercase() } else { b.to_ascii_lowercase() }
                    } else {
                        b
                    };
                    bases.push(b);
                }
                rp += n;
                final_edits.push(Edit::Match(n));
            }
            Edit::Mismatch(n) => {
                let n = n.min(rseq.len() - rp);
                if n == 0 {
                    continue;
                }
                for i in 0..n {
                    let rb = rseq[rp + i];
                    let b = mismatch_base(rng, rb, exotic);
                    if is_acgtn(rb) && is_acgtn(b) {
                        feats.substitution += 1;
                    } else {
                        feats.read_base += 1;
                    }
                    bases.push(b);
                }
                rp += n;
                final_edits.push(Edit::Mismatch(n));
            }
            Edit::Ins(n) => {
                for _ in 0..n {
                    bases.push(random_base(rng, exotic));
                }
                if n == 1 {
                    feats.insert_base += 1;
                } else {
                    feats.insertion += 1;
                }
                final_edits.push(Edit::Ins(n));
            }
            Edit::Del(n) => {
                let n = n.min(rseq.len().saturating_sub(rp + 1));
                if n == 0 {
                    continue;
                }
                rp += n;
                feats.deletion += 1;
                final_edits.push(Edit::Del(n));
            }
            Edit::Skip(n) => {
                let n = n.min(rseq.len().saturating_sub(rp + 1));
                if n == 0 {
                    continue;
                }
                rp += n;
                feats.ref_skip += 1;
                final_edits.push(Edit::Skip(n));
            }
            Edit::Soft(n) => {
                for _ in 0..n {
                    bases.push(random_base(rng, exotic));
                }
                feats.soft_clip += 1;
                final_edits.push(Edit::Soft(n));
            }
            Edit::Hard(n) => {
                feats.hard_clip += 1;
                final_edits.push(Edit::Hard(n));
            }
            Edit::Pad(n) => {
                feats.padding += 1;
                final_edits.push(Edit::Pad(n));
            }
        }
    }
    // a D/N that lost its closing match because the reference ended: close with nothing -> drop it
    loop {
        let last_body = final_edits.iter().rposition(|e| !matches!(e, Edit::Soft(_) | Edit::Hard(_)));
        match last_body {
            Some(i) if matches!(final_edits[i], Edit::Del(_) | Edit::Skip(_) | Edit::Pad(_)) => {
                match final_edits.remove(i) {
                    Edit::Del(_) => feats.deletion -= 1,
                    Edit::Skip(_) => feats.ref_skip -= 1,
                    Edit::Pad(_) => feats.padding -= 1,
                    _ => unreachable!(),
                }
            }
            _ => break,
        }
    }

    // CIGAR style
    let style = rng.below(10);
    let mut cigar: Vec<(char, usize)> = Vec::new();
    let push = |c: &mut Vec<(char, usize)>, k: char, n: usize, merge: bool| match c.last_mut() {
        Some(l) if merge && l.0 == k => l.1 += n,
        _ => c.push((k, n)),
    };
    for e in &final_edits {
        match (e, style) {
            // `=`/`X` style
            (Edit::Match(n), 0..=1) => push(&mut cigar, '=', *n, true),
            (Edit::Mismatch(n), 0..=1) => push(&mut cigar, 'X', *n, true),
            // non-canonical: adjacent M operations are not merged
            (Edit::Match(n) | Edit::Mismatch(n), 2) => push(&mut cigar, 'M', *n, false),
            (Edit::Match(n) | Edit::Mismatch(n), _) => push(&mut cigar, 'M', *n, true),
            (Edit::Ins(n), _) => push(&mut cigar, 'I', *n, style != 2),
            (Edit::Del(n), _) => push(&mut cigar, 'D', *n, style != 2),
            (Edit::Skip(n), _) => push(&mut cigar, 'N', *n, style != 2),
            (Edit::Soft(n), _) => push(&mut cigar, 'S', *n, true),
            (Edit::Hard(n), _) => push(&mut cigar, 'H', *n, true),
            (Edit::Pad(n), _) => push(&mut cigar, 'P', *n, style != 2),
        }
    }
    let quals = gen_quals(rng, bases.len());
    let mapq = match rng.below(10) {
        0 => None,
        1 => Some(0),
        2 => Some(254),
        _ => Some(rng.below(61) as u8),
    };
    let mut flags = 0u16;
    if rng.chance(1, 2) {
        flags |= F_REVERSE;
    }
    if rng.chance(1, 20) {
        flags |= F_QCFAIL;
    }
    if rng.chance(1, 15) {
        flags |= F_DUP;
    }
    ReadDesc {
        name: None,
        flags,
        ref_id: Some(rid),
        pos: Some(start),
        mapq,
        cigar,
        bases,
        quals,
        mate_ref: None,
        mate_pos: None,
        tlen: 0,
        tags: Vec::new(),
        edits: final_edits,
        features: feats,
        template: 0,
        mate: None,
        stale: None,
    }
}

/// An unmapped read; `place` = Some((ref, pos)) makes it a placed unmapped read.
pub fn gen_unmapped_read(rng: &mut Rng, place: Option<(usize, usize)>, max_len: usize, exotic: bool) -> ReadDesc {
    let n = 1 + rng.skewed(max_len.max(2) as u64 - 1) as usize;
    let bases: Vec<u8> = (0..n).map(|_| random_base(rng, exotic)).collect();
    let quals = gen_quals(rng, n);
    let mut flags = F_UNMAPPED;
    if rng.chance(1, 20) {
        flags |= F_QCFAIL;
    }
    ReadDesc {
        name: None,
        flags,
        ref_id: place.map(|p| p.0),
        pos: place.map(|p| p.1),
        mapq: if rng.bool() { None } else { Some(0) },
        cigar: Vec::new(),
        bases,
        quals,
        mate_ref: None,
        mate_pos: None,
        tlen: 0,
        tags: Vec::new(),
        edits: Vec::new(),
        features: FeatureCounts::default(),
        template: 0,
        mate: None,
        stale: None,
    }
}

fn gen_name(rng: &mut Rng, template: usize, style: u64) -> Vec<u8> {
    match style {
        // illumina-like, tokenizer friendly
        0 => format!("HWI-ST{}:{}:C0ABCACXX:{}:{}:{}:{}", 100 + template % 3, 7, 1 + template % 8, 1101 + template / 7, 1000 + rng.below(20000), 2000 + template)
            .into_bytes(),
        1 => format!("read{template:05}").into_bytes(),
        2 => format!("q.{template}/{}", rng.below(3)).into_bytes(),
        _ => {
            // arbitrary printable name over [!-?A-~], unique through the template number
            let mut s = format!("t{template}_").into_bytes();
            let extra = rng.skewed(40) as usize;
            for _ in 0..extra {
                let c = loop {
                    let c = rng.range(b'!' as i64, b'~' as i64) as u8;
                    if c != b'@' {
                        break c;
                    }
                };
                s.push(c);
            }
            s
        }
    }
}

fn gen_tags(rng: &mut Rng, r: &ReadDesc, read_groups: &[String]) -> Vec<([u8; 2], Aux)> {
    let mut tags: Vec<([u8; 2], Aux)> = Vec::new();
    let mut used: Vec<[u8; 2]> = Vec::new();
    let mut add = |tags: &mut Vec<([u8; 2], Aux)>, t: [u8; 2], v: Aux| {
        if !used.contains(&t) {
            used.push(t);
            tags.push((t, v));
        }
    };
    if !read_groups.is_empty() && rng.chance(3, 4) {
        add(&mut tags, *b"RG", Aux::Z(rng.pick(read_groups).as_bytes().to_vec()));
    }
    if !r.is_unmapped() {
        // MD / NM as an aligner would attach them (values are opaque to the round trip)
        if rng.chance(1, 2) {
            let nm = r.edits.iter().map(|e| match e {
                Edit::Mismatch(n) | Edit::Ins(n) | Edit::Del(n) => *n,
                _ => 0,
            }).sum::<usize>();
            let v = match rng.below(3) {
                0 => Aux::U8(nm.min(255) as u8),
                1 => Aux::I32(nm as i32),
                _ => Aux::U16(nm.min(65535) as u16),
            };
            add(&mut tags, *b"NM", v);
        }
        if rng.chance(1, 2) {
            add(&mut tags, *b"MD", Aux::Z(format!("{}", r.ref_len()).into_bytes()));
        }
    }
    let n_extra = rng.skewed(6) as usize;
    for _ in 0..n_extra {
        let t = [*rng.pick(b"XYZabqx"), *rng.pick(b"ABCabc0129")];
        let n_arr = match rng.below(4) {
            0 => 0,
            1 => 1,
            _ => rng.skewed(20) as usize,
        };
        let v = match rng.below(17) {
            0 => Aux::A(rng.range(b'!' as i64, b'~' as i64) as u8),
            1 => Aux::I8(*rng.pick(&[i8::MIN, -1, 0, 1, i8::MAX, 42])),
            2 => Aux::U8(*rng.pick(&[0u8, 1, 127, 128, 255])),
            3 => Aux::I16(*rng.pick(&[i16::MIN, -129, -1, 0, 128, i16::MAX])),
            4 => Aux::U16(*rng.pick(&[0u16, 255, 256, 32768, u16::MAX])),
            5 => Aux::I32(*rng.pick(&[i32::MIN, -32769, -1, 0, 65536, i32::MAX])),
            6 => Aux::U32(*rng.pick(&[0u32, 65535, 65536, 1 << 31, u32::MAX])),
            7 => Aux::F(*rng.pick(&[0u32, 0x8000_0000, 0x3f80_0000, 0x7f80_0000, 0xff80_0000, 0x0000_0001, 0x7fc0_0000, 0x4049_0fdb, 0xc2f6_e979])),
            8 => {
                let n = rng.skewed(30) as usize;
                Aux::Z((0..n).map(|_| rng.range(b' ' as i64, b'~' as i64) as u8).collect())
            }
            9 => {
                let n = rng.skewed(8) as usize;
                Aux::H((0..2 * n).map(|_| *rng.pick(b"0123456789ABCDEF")).collect())
            }
            10 => Aux::BI8((0..n_arr).map(|_| rng.next_u64() as i8).collect()),
            11 => Aux::BU8((0..n_arr).map(|_| rng.next_u64() as u8).collect()),
            12 => Aux::BI16((0..n_arr).map(|_| rng.next_u64() as i16).collect()),
            13 => Aux::BU16((0..n_arr).map(|_| rng.next_u64() as u16).collect()),
            14 => Aux::BI32((0..n_arr).map(|_| rng.next_u64() as i32).collect()),
            15 => Aux::BU32((0..n_arr).map(|_| rng.next_u64() as u32).collect()),
            _ => Aux::BF((0..n_arr).map(|_| (rng.below(2000) as f32 / 8.0 - 100.0).to_bits()).collect()),
        };
        add(&mut tags, t, v);
    }
    // tag order is part of the SAM rendering: shuffle
    rng.shuffle(&mut tags);
    tags
}

/// Sets RNEXT/PNEXT/TLEN and the mate flag bits of both segments of every pair from the final
/// file order (SAMv1 §1.4: TLEN = leftmost mapped base .. rightmost mapped base, plus for the
/// leftmost segment, minus for the rightmost; 0 when a segment is unmapped or the segments are on
/// different references; on equal starts the first segment in file order is taken as leftmost).
pub fn finalize_mates(reads: &mut [ReadDesc]) {
    // resolve mate indices through the template number
    let mut by_template: std::collections::HashMap<usize, Vec<usize>> = std::collections::HashMap::new();
    for (i, r) in reads.iter().enumerate() {
        if r.is_paired() && r.flags & (F_SECONDARY | F_SUPPLEMENTARY) == 0 {
            by_template.entry(r.template).or_default().push(i);
        }
    }
    for (_, v) in by_template {
        if v.len() != 2 {
            continue;
        }
        let (i, j) = (v[0].min(v[1]), v[0].max(v[1]));
        let (a, b) = (reads[i].clone(), reads[j].clone());
        let set = |r: &mut ReadDesc, m: &ReadDesc, mi: usize| {
            r.mate = Some(mi);
            r.mate_ref = m.ref_id;
            r.mate_pos = m.pos;
            r.flags &= !(F_MATE_UNMAPPED | F_MATE_REVERSE);
            if m.is_unmapped() {
                r.flags |= F_MATE_UNMAPPED;
            }
            if m.flags & F_REVERSE != 0 {
                r.flags |= F_MATE_REVERSE;
            }
        };
        set(&mut reads[i], &b, j);
        set(&mut reads[j], &a, i);
        let (ti, tj) = match (a.span(), b.span()) {
            (Some((sa, ea)), Some((sb, eb))) if a.ref_id == b.ref_id => {
                let len = (ea.max(eb) - sa.min(sb) + 1) as i32;
                if sa <= sb { (len, -len) } else { (-len, len) }
            }
            _ => (0, 0),
        };
        reads[i].tlen = ti;
        reads[j].tlen = tj;
        if ti == 0 {
            reads[i].flags &= !F_PROPER;
            reads[j].flags &= !F_PROPER;
        }
    }
    // supplementary / secondary alignments of a segment of a pair point at the primary of the
    // other segment (what aligners emit); TLEN 0
    let primaries: std::collections::HashMap<(usize, u16), usize> = reads
        .iter()
        .enumerate()
        .filter(|(_, r)| r.is_paired() && r.flags & (F_SECONDARY | F_SUPPLEMENTARY) == 0)
        .map(|(i, r)| ((r.template, r.flags & (F_FIRST | F_LAST)), i))
        .collect();
    for i in 0..reads.len() {
        let r = &reads[i];
        if !(r.is_paired() && r.flags & (F_SECONDARY | F_SUPPLEMENTARY) != 0) {
            continue;
        }
        let other = if r.flags & F_FIRST != 0 { F_LAST } else { F_FIRST };
        let Some(&m) = primaries.get(&(r.template, other)) else { continue };
        let m = reads[m].clone();
        let r = &mut reads[i];
        r.mate_ref = m.ref_id;
        r.mate_pos = m.pos;
        r.tlen = 0;
        r.flags &= !(F_MATE_UNMAPPED | F_MATE_REVERSE | F_PROPER);
        if m.is_unmapped() {
            r.flags |= F_MATE_UNMAPPED;
        }
        if m.flags & F_REVERSE != 0 {
            r.flags |= F_MATE_REVERSE;
        }
    }
}

/// The ways one record's mate information can disagree with its mate.
pub const STALE_KINDS: [&str; 8] = ["stale-pnext", "stale-rnext", "mate-reverse-bit-flipped", "mate-unmapped-bit-flipped", "tlen-magnitude", "tlen-sign", "tlen-zero", "pnext-and-tlen"];

/// Makes the mate fields of record `i` inconsistent with its mate (call after `finalize_mates`).
pub fn make_mate_info_stale(reads: &mut [ReadDesc], i: usize, kind: &'static str, n_refs: usize) {
    let r = &mut reads[i];
    match kind {
        "stale-pnext" => r.mate_pos = Some(r.mate_pos.unwrap_or(0) + 2),
        "stale-rnext" => {
            if n_refs > 1 {
                r.mate_ref = Some((r.mate_ref.unwrap_or(0) + 1) % n_refs);
                if r.mate_pos.is_none() {
                    r.mate_pos = Some(3);
                }
            } else {
                r.mate_pos = Some(r.mate_pos.unwrap_or(0) + 5);
            }
        }
        "mate-reverse-bit-flipped" => r.flags ^= F_MATE_REVERSE,
        "mate-unmapped-bit-flipped" => r.flags ^= F_MATE_UNMAPPED,
        "tlen-magnitude" => r.tlen += if r.tlen < 0 { -3 } else { 3 },
        "tlen-sign" => r.tlen = if r.tlen != 0 { -r.tlen } else { 7 },
        "tlen-zero" => r.tlen = if r.tlen != 0 { 0 } else { -5 },
        "pnext-and-tlen" => {
            r.mate_pos = Some(r.mate_pos.unwrap_or(0) + 2);
            r.tlen += if r.tlen < 0 { -2 } else { 2 };
        }
        other => panic!("unknown stale kind {other}"),
    }
    r.flags &= !F_PROPER;
    r.stale = Some(kind);
}

/// A minimal record: flag 4 only, everything else missing.
pub fn minimal_read() -> ReadDesc {
    ReadDesc {
        name: None,
        flags: F_UNMAPPED,
        ref_id: None,
        pos: None,
        mapq: None,
        cigar: Vec::new(),
        bases: Vec::new(),
        quals: Vec::new(),
        mate_ref: None,
        mate_pos: None,
        tlen: 0,
        tags: Vec::new(),
        edits: Vec::new(),
        features: FeatureCounts::default(),
        template: 0,
        mate: None,
        stale: None,
    }
}

impl ReadDesc {
    pub fn is_minimal(&self) -> bool {
        self.name.is_none() && self.is_unmapped() && self.bases.is_empty() && self.tags.is_empty() && self.pos.is_none()
    }
}

/// Generates a header + record stream.
pub fn gen_stream(rng: &mut Rng, o: &GenOpts) -> Stream {
    let n_refs = o.n_refs.max(1);
    let refs: Vec<RefSeq> = (0..n_refs)
        .map(|i| {
            let len = rng.urange(o.ref_len.0.max(1), o.ref_len.1.max(o.ref_len.0).max(1));
            RefSeq { name: format!("sq{i}"), seq: gen_reference(rng, len, o.iupac_ref), with_m5: rng.bool() }
        })
        .collect();
    let read_groups: Vec<String> = (0..o.n_read_groups).map(|i| format!("rg{i}")).collect();
    let exotic = o.iupac_ref;
    let name_style = rng.below(5);
    let the_ref = rng.usize_below(n_refs);
    let pick_ref = |rng: &mut Rng| if o.single_ref_reads { the_ref } else { rng.usize_below(n_refs) };

    let mut templates: Vec<Vec<ReadDesc>> = Vec::new();
    for t in 0..o.n_templates {
        if o.pm_minimal > 0 && rng.below(1000) < o.pm_minimal {
            let mut m = minimal_read();
            m.template = t;
            templates.push(vec![m]);
            continue;
        }
        let r = rng.below(1000);
        let mut segs: Vec<ReadDesc> = Vec::new();
        if r < o.pm_pair {
            // pair: mapped/mapped (same or other reference), mapped/unmapped (placed), unmapped/unmapped
            let kind = rng.below(10);
            let rid = pick_ref(rng);
            let p1 = rng.urange(1, refs[rid].seq.len());
            let mut a = gen_mapped_read(rng, &refs, rid, p1, o, exotic);
            let mut b;
            if kind < 6 {
                // both mapped, same reference, mate nearby
                let lo = p1.saturating_sub(40).max(1);
                let hi = (p1 + 150).min(refs[rid].seq.len());
                let p2 = rng.urange(lo, hi);
                b = gen_mapped_read(rng, &refs, rid, p2, o, exotic);
                if rng.chance(2, 3) {
                    a.flags |= F_PROPER;
                    b.flags |= F_PROPER;
                }
            } else if kind < 8 && !o.single_ref_reads && n_refs > 1 {
                let rid2 = (rid + 1 + rng.usize_below(n_refs - 1)) % n_refs;
                let p2 = rng.urange(1, refs[rid2].seq.len());
                b = gen_mapped_read(rng, &refs, rid2, p2, o, exotic);
            } else if kind < 9 {
                // unmapped mate placed at the mapped segment's coordinates; keep it inside the reference
                let room = refs[rid].seq.len() - p1 + 1;
                b = gen_unmapped_read(rng, Some((rid, p1)), o.max_read_len.min(room), exotic);
            } else {
                a = gen_unmapped_read(rng, None, o.max_read_len, exotic);
                b = gen_unmapped_read(rng, None, o.max_read_len, exotic);
            }
            a.flags |= F_PAIRED | F_FIRST;
            b.flags |= F_PAIRED | F_LAST;
            if rng.bool() {
                std::mem::swap(&mut a, &mut b);
            }
            segs.push(a);
            segs.push(b);
            if o.pm_supp_of_pair > 0 && rng.below(1000) < o.pm_supp_of_pair {
                if let Some(of) = segs.iter().find(|x| !x.is_unmapped()).map(|x| x.flags & (F_FIRST | F_LAST)) {
                    let rid = pick_ref(rng);
                    let p = rng.urange(1, refs[rid].seq.len());
                    let mut sup = gen_mapped_read(rng, &refs, rid, p, o, exotic);
                    sup.flags |= F_PAIRED | of | F_SUPPLEMENTARY;
                    segs.push(sup);
                }
            }
        } else if r < o.pm_pair + o.pm_unmapped_single {
            let place = if rng.below(1000) < o.pm_place_unmapped {
                let rid = pick_ref(rng);
                let p = rng.urange(1, refs[rid].seq.len());
                Some((rid, p))
            } else {
                None
            };
            let room = place.map(|(rid, p)| refs[rid].seq.len() - p + 1).unwrap_or(usize::MAX);
            segs.push(gen_unmapped_read(rng, place, o.max_read_len.min(room), exotic));
        } else {
            let rid = pick_ref(rng);
            let p = rng.urange(1, refs[rid].seq.len());
            let mut a = gen_mapped_read(rng, &refs, rid, p, o, exotic);
            if rng.below(1000) < o.pm_secondary_or_supp {
                a.flags |= if rng.bool() { F_SECONDARY } else { F_SUPPLEMENTARY };
            }
            segs.push(a);
        }
        let name = gen_name(rng, t, name_style);
        for s in &mut segs {
            s.template = t;
            s.name = Some(name.clone());
        }
        // defect classes (flag-controlled)
        for s in &mut segs {
            if rng.below(1000) < o.pm_noqual {
                s.quals.clear();
            }
            // (unplaced only: a placed unmapped record without bases has a zero alignment span,
            // a different defect that C07 keeps as one hand-made witness)
            if s.is_unmapped() && s.ref_id.is_none() && rng.below(1000) < o.pm_nobases_unmapped {
                s.bases.clear();
                s.quals.clear();
            }
            if !s.is_unmapped() && rng.below(1000) < o.pm_nobases_mapped {
                s.bases.clear();
                s.quals.clear();
            }
            if !s.is_paired() && rng.below(1000) < o.pm_noname {
                s.name = None;
            }
        }
        for s in &mut segs {
            if rng.below(1000) < o.pm_tags {
                s.tags = gen_tags(rng, s, &read_groups);
            }
        }
        templates.push(segs);
    }

    // file order
    let mut reads: Vec<ReadDesc> = Vec::new();
    if o.sorted {
        for t in templates {
            reads.extend(t);
        }
        // stable sort: (reference, position), unplaced last
        reads.sort_by_key(|r| (r.ref_id.unwrap_or(usize::MAX), r.pos.unwrap_or(usize::MAX)));
    } else {
        // adjacent mates or mates anywhere
        let mut later: Vec<ReadDesc> = Vec::new();
        for t in templates {
            if t.len() >= 2 && rng.below(1000) >= o.pm_mates_adjacent {
                let mut it = t.into_iter();
                reads.push(it.next().unwrap());
                later.extend(it);
            } else {
                reads.extend(t);
            }
        }
        for r in later {
            let at = rng.usize_below(reads.len() + 1);
            reads.insert(at, r);
        }
        if o.alternate_minimal {
            let (mins, others): (Vec<ReadDesc>, Vec<ReadDesc>) = reads.into_iter().partition(|r| r.is_minimal());
            let mut mins = mins.into_iter();
            reads = Vec::new();
            for r in others {
                reads.push(r);
                if let Some(m) = mins.next() {
                    reads.push(m);
                }
            }
            reads.extend(mins);
        }
    }
    finalize_mates(&mut reads);
    if o.pm_stale_mates > 0 {
        for i in 0..reads.len() {
            let Some(j) = reads[i].mate else { continue };
            if j < i || rng.below(1000) >= o.pm_stale_mates {
                continue;
            }
            let kind = *rng.pick(&STALE_KINDS);
            match rng.below(3) {
                0 => make_mate_info_stale(&mut reads, i, kind, n_refs),
                1 => make_mate_info_stale(&mut reads, j, kind, n_refs),
                _ => {
                    make_mate_info_stale(&mut reads, i, kind, n_refs);
                    let k2 = *rng.pick(&STALE_KINDS);
                    make_mate_info_stale(&mut reads, j, k2, n_refs);
                }
            }
        }
    }
    Stream { refs, read_groups, reads, declared_lengths: None }
}

/// Reference-sequence context of a group of records as the CRAM specification defines it for a
/// slice: `Single(ref, start, end)` when all records are placed on the same reference, `Unmapped`
/// when none is placed, `Multi` otherwise. `exact` is false when the group contains placed
/// unmapped reads (the specification does not say what span such a read covers).
#[derive(Clone, Debug, PartialEq, Eq)]
pub enum SliceCtx {
    Single { ref_id: usize, start: usize, end: usize, exact: bool },
    Unmapped,
    Multi,
}

pub fn slice_context(reads: &[ReadDesc]) -> SliceCtx {
    let placed: Vec<&ReadDesc> = reads.iter().filter(|r| r.ref_id.is_some() && r.pos.is_some()).collect();
    if placed.is_empty() {
        return SliceCtx::Unmapped;
    }
    if placed.len() != reads.len() {
        return SliceCtx::Multi;
    }
    let id = placed[0].ref_id.unwrap();
    if placed.iter().any(|r| r.ref_id != Some(id)) {
        return SliceCtx::Multi;
    }
    let mut start = usize::MAX;
    let mut end = 0usize;
    let mut exact = true;
    for r in &placed {
        match r.span() {
            Some((s, e)) => {
                start = start.min(s);
                end = end.max(e);
            }
            None => {
                exact = false;
                let p = r.pos.unwrap();
                start = start.min(p);
                end = end.max(p);
            }
        }
    }
    SliceCtx::Single { ref_id: id, start, end, exact }
}
