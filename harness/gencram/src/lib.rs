//! gencram — stub (to be implemented).
