//! Minimal block lister: walks the containers of a CRAM 3.x file and returns the framing of every
//! block and the byte geometry of containers and slices. Used for *diagnosis* in C07 (attributing a
//! failed round trip to a block codec) and in C19 to build a stand-in index when `cram::fs::index`
//! fails. The conformance verdicts and the judgement of CRAI entries come from `py/cram_walk.py`,
//! not from here.

pub struct Block {
    /// running index of the slice in the file (blocks before the first slice header: usize::MAX)
    pub slice: usize,
    pub method: u8,
    pub content_type: u8,
    pub content_id: i32,
    #[allow(dead_code)]
    pub raw_size: usize,
    pub data: Vec<u8>,
}

fn itf8(b: &[u8], p: &mut usize) -> Option<i32> {
    let b0 = *b.get(*p)? as u32;
    let (n, v) = if b0 < 0x80 {
        (0, b0)
    } else if b0 < 0xc0 {
        (1, b0 & 0x3f)
    } else if b0 < 0xe0 {
        (2, b0 & 0x1f)
    } else if b0 < 0xf0 {
        (3, b0 & 0x0f)
    } else {
        (4, b0 & 0x0f)
    };
    let mut v = v;
    for i in 1..=n {
        let x = *b.get(*p + i)? as u32;
        if n == 4 && i == 4 {
            v = (v << 4) | (x & 0x0f);
        } else {
            v = (v << 8) | x;
        }
    }
    *p += n + 1;
    Some(v as i32)
}

fn ltf8(b: &[u8], p: &mut usize) -> Option<i64> {
    let b0 = *b.get(*p)?;
    let n = b0.leading_ones() as usize;
    let mut v: u64 = if n >= 8 { 0 } else { (b0 as u64) & (0xffu64 >> (n + 1)) };
    for i in 1..=n.min(8) {
        v = (v << 8) | *b.get(*p + i)? as u64;
    }
    *p += n.min(8) + 1;
    Some(v as i64)
}

/// Byte geometry of one slice: offset of its header block relative to the container data, and
/// the number of bytes up to the end of its last block.
#[derive(Clone, Debug)]
pub struct SliceGeom {
    pub landmark: u64,
    pub length: u64,
}

/// Byte geometry of one data container.
#[derive(Clone, Debug)]
pub struct ContainerGeom {
    /// file offset of the container header
    pub offset: u64,
    pub slices: Vec<SliceGeom>,
}

/// Geometry of the data containers (the header container and the EOF container are skipped).
pub fn geometry(file: &[u8]) -> Option<Vec<ContainerGeom>> {
    let mut out = Vec::new();
    let mut p = 26usize;
    let mut first = true;
    while p < file.len() {
        let offset = p;
        let len = i32::from_le_bytes(file.get(p..p + 4)?.try_into().ok()?) as usize;
        p += 4;
        for _ in 0..3 {
            itf8(file, &mut p)?;
        }
        let nrec = itf8(file, &mut p)?;
        ltf8(file, &mut p)?;
        ltf8(file, &mut p)?;
        itf8(file, &mut p)?;
        let nl = itf8(file, &mut p)?;
        for _ in 0..nl {
            itf8(file, &mut p)?;
        }
        p += 4;
        let dstart = p;
        let end = p + len;
        let mut starts: Vec<usize> = Vec::new();
        while p < end {
            let content_type = *file.get(p + 1)?;
            let bstart = p;
            p += 2;
            itf8(file, &mut p)?;
            let csize = itf8(file, &mut p)? as usize;
            itf8(file, &mut p)?;
            p += csize + 4;
            if content_type == 2 {
                starts.push(bstart - dstart);
            }
        }
        p = end;
        if first {
            first = false;
            continue;
        }
        if nrec == 0 && starts.is_empty() {
            continue; // EOF container
        }
        let mut slices = Vec::new();
        for (k, s) in starts.iter().enumerate() {
            let e = starts.get(k + 1).copied().unwrap_or(len);
            slices.push(SliceGeom { landmark: *s as u64, length: (e - s) as u64 });
        }
        out.push(ContainerGeom { offset: offset as u64, slices });
    }
    Some(out)
}

pub fn blocks(file: &[u8]) -> Option<Vec<Block>> {
    let mut out = Vec::new();
    let mut p = 26usize;
    let mut slice = usize::MAX;
    while p < file.len() {
        let len = i32::from_le_bytes(file.get(p..p + 4)?.try_into().ok()?) as usize;
        p += 4;
        for _ in 0..4 {
            itf8(file, &mut p)?;
        }
        ltf8(file, &mut p)?;
        ltf8(file, &mut p)?;
        let _nblocks = itf8(file, &mut p)?;
        let nl = itf8(file, &mut p)?;
        for _ in 0..nl {
            itf8(file, &mut p)?;
        }
        p += 4; // crc
        let end = p + len;
        while p < end {
            let method = *file.get(p)?;
            let content_type = *file.get(p + 1)?;
            p += 2;
            let content_id = itf8(file, &mut p)?;
            let csize = itf8(file, &mut p)? as usize;
            let raw_size = itf8(file, &mut p)? as usize;
            let data = file.get(p..p + csize)?.to_vec();
            p += csize + 4;
            if content_type == 2 {
                slice = slice.wrapping_add(1);
            }
            out.push(Block { slice, method, content_type, content_id, raw_size, data });
        }
    }
    Some(out)
}

/// Every size / counter / coordinate field of the data containers of a file as `(field, value)`
/// pairs (for *coverage* counters: which ITF8/LTF8 width boundaries the written files reached).
pub fn fields(file: &[u8]) -> Option<Vec<(&'static str, i64)>> {
    let mut out = Vec::new();
    let mut p = 26usize;
    let mut first = true;
    while p < file.len() {
        let len = i32::from_le_bytes(file.get(p..p + 4)?.try_into().ok()?) as usize;
        p += 4;
        let ref_id = itf8(file, &mut p)?;
        let start = itf8(file, &mut p)?;
        let span = itf8(file, &mut p)?;
        let nrec = itf8(file, &mut p)?;
        let counter = ltf8(file, &mut p)?;
        let bases = ltf8(file, &mut p)?;
        let nblocks = itf8(file, &mut p)?;
        let nl = itf8(file, &mut p)?;
        let mut landmarks = Vec::new();
        for _ in 0..nl {
            landmarks.push(itf8(file, &mut p)?);
        }
        p += 4;
        let end = p + len;
        let data = !first && !(nrec == 0 && nl == 0);
        if data {
            out.push(("container.length", len as i64));
            out.push(("container.records", nrec as i64));
            out.push(("container.record-counter", counter));
            out.push(("container.bases", bases));
            out.push(("container.block-count", nblocks as i64));
            for l in &landmarks {
                out.push(("container.landmark", *l as i64));
            }
            if ref_id >= 0 {
                out.push(("container.start", start as i64));
                out.push(("container.span", span as i64));
            }
        }
        while p < end {
            let method = *file.get(p)?;
            let content_type = *file.get(p + 1)?;
            p += 2;
            itf8(file, &mut p)?;
            let csize = itf8(file, &mut p)? as usize;
            let rsize = itf8(file, &mut p)? as usize;
            if data {
                out.push(("block.compressed-size", csize as i64));
                out.push(("block.raw-size", rsize as i64));
            }
            if data && content_type == 2 && method == 0 {
                let h = file.get(p..p + csize)?;
                let mut q = 0usize;
                let sref = itf8(h, &mut q)?;
                let sstart = itf8(h, &mut q)?;
                let sspan = itf8(h, &mut q)?;
                let srec = itf8(h, &mut q)?;
                let scounter = ltf8(h, &mut q)?;
                let sblocks = itf8(h, &mut q)?;
                out.push(("slice.records", srec as i64));
                out.push(("slice.record-counter", scounter));
                out.push(("slice.block-count", sblocks as i64));
                if sref >= 0 {
                    out.push(("slice.start", sstart as i64));
                    out.push(("slice.span", sspan as i64));
                }
            }
            p += csize + 4;
        }
        p = end;
        first = false;
    }
    Some(out)
}
