//! MD5 (RFC 1321), written for the harness so that @SQ M5 values and expected slice checksums do
//! not come from the code under observation.

const S: [u32; 64] = [
    7, 12, 17, 22, 7, 12, 17, 22, 7, 12, 17, 22, 7, 12, 17, 22, 5, 9, 14, 20, 5, 9, 14, 20, 5, 9, 14, 20, 5, 9, 14, 20, 4,
    11, 16, 23, 4, 11, 16, 23, 4, 11, 16, 23, 4, 11, 16, 23, 6, 10, 15, 21, 6, 10, 15, 21, 6, 10, 15, 21, 6, 10, 15, 21,
];

fn k(i: usize) -> u32 {
    // floor(2^32 * abs(sin(i + 1)))
    ((i as f64 + 1.0).sin().abs() * 4294967296.0) as u32
}

pub fn md5(data: &[u8]) -> [u8; 16] {
    let mut a0: u32 = 0x67452301;
    let mut b0: u32 = 0xefcdab89;
    let mut c0: u32 = 0x98badcfe;
    let mut d0: u32 = 0x10325476;
    let mut msg = data.to_vec();
    let bit_len = (data.len() as u64).wrapping_mul(8);
    msg.push(0x80);
    while msg.len() % 64 != 56 {
        msg.push(0);
    }
    msg.extend_from_slice(&bit_len.to_le_bytes());
    let kt: Vec<u32> = (0..64).map(k).collect();
    for chunk in msg.chunks(64) {
        let m: Vec<u32> = chunk.chunks(4).map(|w| u32::from_le_bytes([w[0], w[1], w[2], w[3]])).collect();
        let (mut a, mut b, mut c, mut d) = (a0, b0, c0, d0);
        for i in 0..64 {
            let (mut f, g) = match i / 16 {
                0 => ((b & c) | (!b & d), i),
                1 => ((d & b) | (!d & c), (5 * i + 1) % 16),
                2 => (b ^ c ^ d, (3 * i + 5) % 16),
                _ => (c ^ (b | !d), (7 * i) % 16),
            };
            f = f.wrapping_add(a).wrapping_add(kt[i]).wrapping_add(m[g]);
            a = d;
            d = c;
            c = b;
            b = b.wrapping_add(f.rotate_left(S[i]));
        }
        a0 = a0.wrapping_add(a);
        b0 = b0.wrapping_add(b);
        c0 = c0.wrapping_add(c);
        d0 = d0.wrapping_add(d);
    }
    let mut out = [0u8; 16];
    out[0..4].copy_from_slice(&a0.to_le_bytes());
    out[4..8].copy_from_slice(&b0.to_le_bytes());
    out[8..12].copy_from_slice(&c0.to_le_bytes());
    out[12..16].copy_from_slice(&d0.to_le_bytes());
    out
}

/// SAMv1 §1.3.2: upper-case, characters outside `!`..`~` stripped.
pub fn md5_of_reference(seq: &[u8]) -> [u8; 16] {
    let norm: Vec<u8> = seq.iter().filter(|b| (33..=126).contains(*b)).map(|b| b.to_ascii_uppercase()).collect();
    md5(&norm)
}

pub fn hex(d: &[u8]) -> String {
    d.iter().map(|b| format!("{b:02x}")).collect()
}

#[cfg(test)]
mod tests {
    use super::*;

    #[test]
    fn vectors() {
        assert_eq!(hex(&md5(b"")), "d41d8cd98f00b204e9800998ecf8427e");
        assert_eq!(hex(&md5(b"abc")), "900150983cd24fb0d6963f7d28e17f72");
        assert_eq!(hex(&md5(b"ACGT")), "f1f8f4bf413b16ad135722aa4591043e");
        assert_eq!(
            hex(&md5(b"12345678901234567890123456789012345678901234567890123456789012345678901234567890")),
            "57edf4a22be3c955ac49da2e2107b67a"
        );
    }
}
