#!/bin/bash
# Verifies a C15 fix diff against a scratch worktree of /repo's HEAD (never touches /repo):
#   verify_fix.sh <fix.diff> <crate-to-test|-> <witness.json> [<witness.json> ...]
# 1. worktree at $S/repo (default S=/tmp/c15fix), patch applied;
# 2. harness copied with its path dependencies rewritten, c15 built (rel) in a persistent target;
# 3. every witness probe is run under the panic monitor: prints its outcome (must not be a panic);
# 4. `cargo test --offline -p <crate>` in the worktree (persistent target), unless the crate is `-`.
set -u
S=${S:-/tmp/c15fix}
patch=$(readlink -f "$1"); crate=$2; shift 2
mkdir -p "$S"
git -C /repo worktree remove --force "$S/repo" 2>/dev/null
rm -rf "$S/repo"
git -C /repo worktree prune
git -C /repo worktree add -q --detach "$S/repo" HEAD || exit 2
if ! git -C "$S/repo" apply "$patch"; then echo "PATCH DOES NOT APPLY"; exit 2; fi
mkdir -p "$S/verif"
rsync -a --delete --exclude target --exclude work --exclude replays --exclude evidence --exclude .git /verif/ "$S/verif/"
sed -i "s#\"/repo/#\"$S/repo/#g" "$S/verif/harness/Cargo.toml"
mkdir -p "$S/verif/replays" "$S/verif/work"
# PROFILE=chk builds with overflow checks + debug assertions (for `profile=chk:` signatures)
if [ "${PROFILE:-rel}" = chk ]; then
  (cd "$S/verif/harness" && RUSTFLAGS="--cfg noodles_verif" CARGO_NET_OFFLINE=true CARGO_TARGET_DIR="$S/target/chk" cargo build --profile chk --offline -p c15 2>&1 | grep -E "^error|Finished" -A6) || exit 2
  BIN="$S/target/chk/chk/c15"
else
  (cd "$S/verif/harness" && RUSTFLAGS="--cfg noodles_verif" CARGO_NET_OFFLINE=true CARGO_TARGET_DIR="$S/target/rel" cargo build --release --offline -p c15 2>&1 | grep -E "^error|Finished" -A6) || exit 2
  BIN="$S/target/rel/release/c15"
fi
rc=0
for w in "$@"; do
  out=$(cd "$S/verif" && "$BIN" --tier quick --seed 1 --work "$S/verif/work" --replays "$S/verif/replays" --report "$S/verif/work/r.json" mode=probe catch=1 noseeded=1 file="$(readlink -f "$w")" 2>&1 | tail -1)
  echo "$(basename "$w"): $out"
  case "$out" in panic:*) rc=1;; outcome:*) ;; *) rc=1;; esac
done
if [ "$crate" != "-" ]; then
  # one crate or a quoted, space-separated list of crates
  for c in $crate; do
    echo "--- cargo test -p $c"
    (cd "$S/repo" && CARGO_NET_OFFLINE=true CARGO_TARGET_DIR="$S/target-test" cargo test --offline -p "$c" 2>&1 | grep -E "^test result|FAILED|failed|error(\[|:)" | sort | uniq -c | head -20)
  done
fi
git -C /repo worktree remove --force "$S/repo" 2>/dev/null
exit $rc
