#!/usr/bin/env python3
"""Collects violation signatures and their smallest self-contained witnesses from C15 stage reports and replay
files (saturation bookkeeping).

    collect.py <out.json> <replays-dir> [<replays-dir> ...]

Every replay JSON written by the c15 binary carries `sig`, `desc` and `witness.probe` (a serialised probe; bytes
only when they are <= 20 000). For every signature the smallest probe that carries its bytes is kept.
"""
import json
import os
import sys


def probe_size(p):
    if not isinstance(p, dict):
        return None
    if p.get("probe") in ("read", "debugfmt", "codec"):
        if not p.get("bytes_hex") and not p.get("bytes_rle") and p.get("len", 0) != 0:
            return None
        return p.get("len", 0) if p.get("bytes_hex") or not p.get("bytes_rle") else len(json.dumps(p["bytes_rle"]))
    return len(json.dumps(p))


def main():
    out = sys.argv[1]
    table = json.load(open(out)) if os.path.exists(out) else {}
    for d in sys.argv[2:]:
        for name in sorted(os.listdir(d)):
            if not (name.endswith(".json") and name.startswith("C15-")):
                continue
            try:
                v = json.load(open(os.path.join(d, name)))
            except Exception:
                continue
            sig = v.get("sig")
            if not sig:
                continue
            e = table.setdefault(sig, {"count": 0, "seeds": [], "probe": None, "size": None, "desc": v.get("desc", ""), "how": ""})
            e["count"] += 1
            if v.get("seed") not in e["seeds"]:
                e["seeds"].append(v.get("seed"))
            w = v.get("witness") or {}
            p = w.get("probe") if isinstance(w, dict) else None
            sz = probe_size(p)
            if sz is not None and (e["size"] is None or sz < e["size"]):
                e["size"] = sz
                e["probe"] = p
                e["desc"] = v.get("desc", "")
                e["how"] = w.get("how", "")
    json.dump(table, open(out, "w"), indent=1, sort_keys=True)
    print(f"{len(table)} signatures; without a self-contained witness: {sum(1 for e in table.values() if e['probe'] is None)}")


if __name__ == "__main__":
    main()
