//! Field locators for the binary formats, written from the specifications (SAMv1 §4.2/§5.2, CSIv1, tabix, VCFv4.3
//! §6.3): where the length / count / id fields of a valid file are, so that the seeded part can set them to hostile
//! values. Each walker is tolerant (stops at the first thing it cannot parse) and never looks at noodles.

#[derive(Clone, Copy, Debug)]
pub struct Field {
    pub off: usize,
    /// width in bytes (1, 2, 3, 4 or 8), little endian
    pub width: usize,
    /// what it is (class of the mutation in the evidence)
    pub name: &'static str,
}

fn u32at(b: &[u8], p: usize) -> Option<u32> {
    b.get(p..p + 4).map(|s| u32::from_le_bytes([s[0], s[1], s[2], s[3]]))
}

fn u16at(b: &[u8], p: usize) -> Option<u16> {
    b.get(p..p + 2).map(|s| u16::from_le_bytes([s[0], s[1]]))
}

/// Record extents `[start, end)` (start = the length prefix) found by the walker, for splice / duplicate / delete.
#[derive(Clone, Debug, Default)]
pub struct Layout {
    pub fields: Vec<Field>,
    pub records: Vec<(usize, usize)>,
}

pub fn bam(b: &[u8]) -> Layout {
    let mut l = Layout::default();
    let f = |l: &mut Layout, off, width, name| l.fields.push(Field { off, width, name });
    if b.get(..4) != Some(b"BAM\x01") {
        return l;
    }
    f(&mut l, 4, 4, "bam.l_text");
    let Some(l_text) = u32at(b, 4) else { return l };
    let mut p = 8 + l_text as usize;
    f(&mut l, p, 4, "bam.n_ref");
    let Some(n_ref) = u32at(b, p) else { return l };
    p += 4;
    for _ in 0..n_ref {
        f(&mut l, p, 4, "bam.l_name");
        let Some(ln) = u32at(b, p) else { return l };
        p += 4 + ln as usize;
        f(&mut l, p, 4, "bam.l_ref");
        p += 4;
        if p > b.len() {
            return l;
        }
    }
    while let Some(bs) = u32at(b, p) {
        let end = p + 4 + bs as usize;
        if end > b.len() || bs < 32 {
            break;
        }
        l.records.push((p, end));
        f(&mut l, p, 4, "bam.block_size");
        let r = p + 4;
        f(&mut l, r, 4, "bam.ref_id");
        f(&mut l, r + 4, 4, "bam.pos");
        f(&mut l, r + 8, 1, "bam.l_read_name");
        f(&mut l, r + 9, 1, "bam.mapq");
        f(&mut l, r + 10, 2, "bam.bin");
        f(&mut l, r + 12, 2, "bam.n_cigar_op");
        f(&mut l, r + 14, 2, "bam.flag");
        f(&mut l, r + 16, 4, "bam.l_seq");
        f(&mut l, r + 20, 4, "bam.next_ref_id");
        f(&mut l, r + 24, 4, "bam.next_pos");
        f(&mut l, r + 28, 4, "bam.tlen");
        let l_read_name = b[r + 8] as usize;
        let n_cigar = u16at(b, r + 12).unwrap_or(0) as usize;
        let l_seq = u32at(b, r + 16).unwrap_or(0) as usize;
        let mut q = r + 32 + l_read_name;
        for i in 0..n_cigar.min(4) {
            f(&mut l, q + 4 * i, 4, "bam.cigar_op");
        }
        q += 4 * n_cigar + l_seq.div_ceil(2) + l_seq;
        // aux
        while q + 3 <= end {
            let ty = b[q + 2];
            f(&mut l, q, 2, "bam.aux_tag");
            f(&mut l, q + 2, 1, "bam.aux_type");
            q += 3;
            match ty {
                b'A' | b'c' | b'C' => q += 1,
                b's' | b'S' => q += 2,
                b'i' | b'I' | b'f' => q += 4,
                b'Z' | b'H' => {
                    while q < end && b[q] != 0 {
                        q += 1;
                    }
                    if q < end {
                        f(&mut l, q, 1, "bam.aux_nul");
                    }
                    q += 1;
                }
                b'B' => {
                    if q + 5 > end {
                        break;
                    }
                    f(&mut l, q, 1, "bam.aux_subtype");
                    f(&mut l, q + 1, 4, "bam.aux_count");
                    let sz = match b[q] {
                        b'c' | b'C' => 1,
                        b's' | b'S' => 2,
                        _ => 4,
                    };
                    let n = u32at(b, q + 1).unwrap_or(0) as usize;
                    q += 5 + sz * n;
                }
                _ => break,
            }
        }
        p = end;
    }
    l
}

/// One BCF typed value at `p`: pushes the descriptor (and overflow length) fields, returns the offset behind it.
fn bcf_typed(b: &[u8], p: usize, l: &mut Layout, name: &'static str) -> Option<usize> {
    let d = *b.get(p)?;
    l.fields.push(Field { off: p, width: 1, name });
    let ty = d & 0x0f;
    let mut len = (d >> 4) as usize;
    let mut q = p + 1;
    if len == 15 {
        // overflow: a typed integer follows
        let d2 = *b.get(q)?;
        l.fields.push(Field { off: q, width: 1, name: "bcf.typed_overflow_descriptor" });
        let w = match d2 & 0x0f {
            1 => 1,
            2 => 2,
            3 => 4,
            _ => return None,
        };
        l.fields.push(Field { off: q + 1, width: w, name: "bcf.typed_overflow_length" });
        let s = b.get(q + 1..q + 1 + w)?;
        len = match w {
            1 => s[0] as usize,
            2 => u16::from_le_bytes([s[0], s[1]]) as usize,
            _ => u32::from_le_bytes([s[0], s[1], s[2], s[3]]) as usize,
        };
        q += 1 + w;
    }
    let sz = match ty {
        0 => 0,
        1 | 7 => 1,
        2 => 2,
        3 | 5 => 4,
        _ => return None,
    };
    if sz > 0 && len > 0 && matches!(ty, 1 | 2 | 3) {
        l.fields.push(Field { off: q, width: sz, name: "bcf.typed_first_int" });
    }
    let e = q.checked_add(sz.checked_mul(len)?)?;
    if e > b.len() { None } else { Some(e) }
}

pub fn bcf(b: &[u8]) -> Layout {
    let mut l = Layout::default();
    if b.get(..3) != Some(b"BCF") {
        return l;
    }
    l.fields.push(Field { off: 3, width: 1, name: "bcf.major" });
    l.fields.push(Field { off: 4, width: 1, name: "bcf.minor" });
    l.fields.push(Field { off: 5, width: 4, name: "bcf.l_text" });
    let Some(l_text) = u32at(b, 5) else { return l };
    let mut p = 9 + l_text as usize;
    loop {
        let (Some(ls), Some(li)) = (u32at(b, p), u32at(b, p + 4)) else { break };
        let end = p + 8 + ls as usize + li as usize;
        if end > b.len() || ls < 24 {
            break;
        }
        l.records.push((p, end));
        let f = |l: &mut Layout, off, width, name| l.fields.push(Field { off, width, name });
        f(&mut l, p, 4, "bcf.l_shared");
        f(&mut l, p + 4, 4, "bcf.l_indiv");
        let r = p + 8;
        f(&mut l, r, 4, "bcf.chrom");
        f(&mut l, r + 4, 4, "bcf.pos");
        f(&mut l, r + 8, 4, "bcf.rlen");
        f(&mut l, r + 12, 4, "bcf.qual");
        f(&mut l, r + 16, 2, "bcf.n_info");
        f(&mut l, r + 18, 2, "bcf.n_allele");
        f(&mut l, r + 20, 3, "bcf.n_sample");
        f(&mut l, r + 23, 1, "bcf.n_fmt");
        let n_info = u16at(b, r + 16).unwrap_or(0) as usize;
        let n_allele = u16at(b, r + 18).unwrap_or(0) as usize;
        let n_fmt = b[r + 23] as usize;
        let shared_end = r + ls as usize;
        let mut q = r + 24;
        let mut ok = true;
        // ID, alleles, FILTER
        match bcf_typed(&b[..shared_end], q, &mut l, "bcf.id_descriptor") {
            Some(e) => q = e,
            None => ok = false,
        }
        for _ in 0..n_allele {
            if !ok {
                break;
            }
            match bcf_typed(&b[..shared_end], q, &mut l, "bcf.allele_descriptor") {
                Some(e) => q = e,
                None => ok = false,
            }
        }
        if ok {
            match bcf_typed(&b[..shared_end], q, &mut l, "bcf.filter_descriptor") {
                Some(e) => q = e,
                None => ok = false,
            }
        }
        for _ in 0..n_info {
            if !ok {
                break;
            }
            match bcf_typed(&b[..shared_end], q, &mut l, "bcf.info_key_descriptor") {
                Some(e) => q = e,
                None => break,
            }
            match bcf_typed(&b[..shared_end], q, &mut l, "bcf.info_value_descriptor") {
                Some(e) => q = e,
                None => ok = false,
            }
        }
        // individual part: key (typed int), then one descriptor for the whole series
        let mut q = shared_end;
        for _ in 0..n_fmt {
            match bcf_typed(&b[..end], q, &mut l, "bcf.format_key_descriptor") {
                Some(e) => q = e,
                None => break,
            }
            if q >= end {
                break;
            }
            l.fields.push(Field { off: q, width: 1, name: "bcf.format_series_descriptor" });
            // the length of the series data is n_sample * len * size: the walker does not follow it exactly when the
            // descriptor overflows; stop after the first series in that case
            let d = b[q];
            let len = (d >> 4) as usize;
            if len == 15 {
                break;
            }
            let sz = match d & 0x0f {
                1 | 7 => 1,
                2 => 2,
                3 | 5 => 4,
                _ => break,
            };
            let n_sample = (b[r + 20] as usize) | (b[r + 21] as usize) << 8 | (b[r + 22] as usize) << 16;
            if len > 0 {
                l.fields.push(Field { off: q + 1, width: sz, name: "bcf.format_first_value" });
            }
            q += 1 + n_sample * len * sz;
            if q > end {
                break;
            }
        }
        p = end;
    }
    l
}

pub fn bai(b: &[u8]) -> Layout {
    let mut l = Layout::default();
    if b.get(..4) != Some(b"BAI\x01") {
        return l;
    }
    l.fields.push(Field { off: 4, width: 4, name: "bai.n_ref" });
    let Some(n_ref) = u32at(b, 4) else { return l };
    let mut q = 8usize;
    for _ in 0..n_ref {
        let start = q;
        l.fields.push(Field { off: q, width: 4, name: "bai.n_bin" });
        let Some(n_bin) = u32at(b, q) else { return l };
        q += 4;
        for _ in 0..n_bin {
            l.fields.push(Field { off: q, width: 4, name: "bai.bin" });
            l.fields.push(Field { off: q + 4, width: 4, name: "bai.n_chunk" });
            let Some(n_chunk) = u32at(b, q + 4) else { return l };
            q += 8;
            for i in 0..n_chunk as usize {
                if i < 3 {
                    l.fields.push(Field { off: q, width: 8, name: "bai.chunk_beg" });
                    l.fields.push(Field { off: q + 8, width: 8, name: "bai.chunk_end" });
                }
                q += 16;
            }
            if q > b.len() {
                return l;
            }
        }
        l.fields.push(Field { off: q, width: 4, name: "bai.n_intv" });
        let Some(n_intv) = u32at(b, q) else { return l };
        q += 4;
        for i in 0..n_intv as usize {
            if i < 3 {
                l.fields.push(Field { off: q, width: 8, name: "bai.ioffset" });
            }
            q += 8;
        }
        if q > b.len() {
            return l;
        }
        l.records.push((start, q));
    }
    if q + 8 <= b.len() {
        l.fields.push(Field { off: q, width: 8, name: "bai.n_no_coor" });
    }
    l
}

/// CSI (`tabix == false`) or tabix payload (inflated).
pub fn csi_like(b: &[u8], tabix: bool) -> Layout {
    let mut l = Layout::default();
    let mut q;
    if tabix {
        if b.get(..4) != Some(b"TBI\x01") {
            return l;
        }
        for (i, name) in ["tbi.n_ref", "tbi.format", "tbi.col_seq", "tbi.col_beg", "tbi.col_end", "tbi.meta", "tbi.skip", "tbi.l_nm"].into_iter().enumerate() {
            l.fields.push(Field { off: 4 + 4 * i, width: 4, name });
        }
        let Some(l_nm) = u32at(b, 32) else { return l };
        // name terminators
        let names = 36..(36 + l_nm as usize).min(b.len());
        for p in names.clone() {
            if b[p] == 0 {
                l.fields.push(Field { off: p, width: 1, name: "tbi.name_nul" });
            }
        }
        q = 36 + l_nm as usize;
    } else {
        if b.get(..4) != Some(b"CSI\x01") {
            return l;
        }
        l.fields.push(Field { off: 4, width: 4, name: "csi.min_shift" });
        l.fields.push(Field { off: 8, width: 4, name: "csi.depth" });
        l.fields.push(Field { off: 12, width: 4, name: "csi.l_aux" });
        let Some(l_aux) = u32at(b, 12) else { return l };
        q = 16 + l_aux as usize;
        if l_aux >= 28 {
            for (i, name) in ["csi.aux.format", "csi.aux.col_seq", "csi.aux.col_beg", "csi.aux.col_end", "csi.aux.meta", "csi.aux.skip", "csi.aux.l_nm"].into_iter().enumerate() {
                l.fields.push(Field { off: 16 + 4 * i, width: 4, name });
            }
        }
        l.fields.push(Field { off: q, width: 4, name: "csi.n_ref" });
        q += 4;
    }
    let n_ref = if tabix { u32at(b, 4) } else { u32at(b, q - 4) };
    let Some(n_ref) = n_ref else { return l };
    for _ in 0..n_ref {
        let start = q;
        l.fields.push(Field { off: q, width: 4, name: "csi.n_bin" });
        let Some(n_bin) = u32at(b, q) else { return l };
        q += 4;
        for _ in 0..n_bin {
            l.fields.push(Field { off: q, width: 4, name: "csi.bin" });
            q += 4;
            if !tabix {
                l.fields.push(Field { off: q, width: 8, name: "csi.loffset" });
                q += 8;
            }
            l.fields.push(Field { off: q, width: 4, name: "csi.n_chunk" });
            let Some(n_chunk) = u32at(b, q) else { return l };
            q += 4;
            for i in 0..n_chunk as usize {
                if i < 3 {
                    l.fields.push(Field { off: q, width: 8, name: "csi.chunk_beg" });
                    l.fields.push(Field { off: q + 8, width: 8, name: "csi.chunk_end" });
                }
                q += 16;
            }
            if q > b.len() {
                return l;
            }
        }
        if tabix {
            l.fields.push(Field { off: q, width: 4, name: "tbi.n_intv" });
            let Some(n_intv) = u32at(b, q) else { return l };
            q += 4;
            for i in 0..n_intv as usize {
                if i < 3 {
                    l.fields.push(Field { off: q, width: 8, name: "tbi.ioffset" });
                }
                q += 8;
            }
            if q > b.len() {
                return l;
            }
        }
        l.records.push((start, q));
    }
    if q + 8 <= b.len() {
        l.fields.push(Field { off: q, width: 8, name: "csi.n_no_coor" });
    }
    l
}

pub fn gzi(b: &[u8]) -> Layout {
    let mut l = Layout::default();
    if b.len() >= 8 {
        l.fields.push(Field { off: 0, width: 8, name: "gzi.count" });
    }
    let mut q = 8;
    while q + 16 <= b.len() {
        l.fields.push(Field { off: q, width: 8, name: "gzi.compressed_offset" });
        l.fields.push(Field { off: q + 8, width: 8, name: "gzi.uncompressed_offset" });
        l.records.push((q, q + 16));
        q += 16;
    }
    l
}

/// BGZF members of a file: header fields and trailers.
pub fn bgzf(b: &[u8]) -> Layout {
    let mut l = Layout::default();
    let mut p = 0usize;
    while p + 18 <= b.len() {
        if b[p] != 0x1f || b[p + 1] != 0x8b {
            break;
        }
        let bsize = u16at(b, p + 16).unwrap_or(0) as usize;
        let end = p + bsize + 1;
        if end > b.len() || bsize < 25 {
            break;
        }
        l.records.push((p, end));
        for (off, width, name) in [
            (2usize, 1usize, "bgzf.cm"),
            (3, 1, "bgzf.flg"),
            (10, 2, "bgzf.xlen"),
            (12, 2, "bgzf.si"),
            (14, 2, "bgzf.slen"),
            (16, 2, "bgzf.bsize"),
        ] {
            l.fields.push(Field { off: p + off, width, name });
        }
        l.fields.push(Field { off: end - 8, width: 4, name: "bgzf.crc32" });
        l.fields.push(Field { off: end - 4, width: 4, name: "bgzf.isize" });
        p = end;
    }
    l
}

/// Line extents of a text file (`records`), no fields.
pub fn lines(b: &[u8]) -> Layout {
    let mut l = Layout::default();
    let mut s = 0usize;
    for (i, &c) in b.iter().enumerate() {
        if c == b'\n' {
            l.records.push((s, i + 1));
            s = i + 1;
        }
    }
    if s < b.len() {
        l.records.push((s, b.len()));
    }
    l
}
