//! Run-wide hang ledger: bounds what a defect that makes MANY probes hang can cost.
//!
//! A file in the stage's work directory is mapped `MAP_SHARED` by every process of the run (the parent, its
//! children and the forked batch processes). Per entry point (`<kind>:<api>`, `codec:<name>`, `query:<target>`) it
//! counts the probes that were killed by the CPU timer. A batch process consults it before every probe:
//!
//! * fewer than `FULL` hangs of the entry so far: the probe runs under the normal CPU budget;
//! * then, up to `SHORT` hangs: it runs under the entry's short budget (still >= 200x the slowest valid input of
//!   that kind, which the run checks at the end);
//! * after that, or once the run has seen `GLOBAL` hangs in total and the entry has hung at least once: the probe
//!   is skipped and counted (`probes_skipped_after_repeated_hang[entry]`), never as an evaluation;
//! * once the run has seen `GLOBAL` hangs, entries that never hung run under their short budget too.
//!
//! Hangs inside the separate Debug-call budget (0.25 s each) are cheap and are not entered here.

use std::{
    path::Path,
    sync::atomic::{AtomicPtr, AtomicU64, Ordering::Relaxed},
};

pub const FULL: u64 = 2;
pub const SHORT: u64 = 5;
pub const GLOBAL: u64 = 12;
const SLOTS: usize = 255;

#[repr(C)]
pub struct Slot {
    pub hash: AtomicU64,
    pub hangs: AtomicU64,
    pub short_runs: AtomicU64,
    pub skipped: AtomicU64,
}

#[repr(C)]
pub struct Ledger {
    pub total_hangs: AtomicU64,
    _pad: [AtomicU64; 3],
    pub slots: [Slot; SLOTS],
}

static LEDGER: AtomicPtr<Ledger> = AtomicPtr::new(std::ptr::null_mut());

pub enum Decision {
    Normal,
    Short,
    Skip,
}

/// The ledger is keyed by reader KIND (`bcf` for `bcf:primary`, `bcf:eager`, `bcf:debug-fmt`: a defect that makes
/// one API of a reader hang usually makes the others hang on the same inputs, and the probes of the APIs follow
/// each other in a batch, so per-API accounting would pay the full budget once per API and child process); codec
/// and query entries are keyed as they are.
pub fn key(entry: &str) -> &str {
    if entry.starts_with("codec:") || entry.starts_with("query:") { entry } else { entry.split(':').next().unwrap_or(entry) }
}

pub fn hash(entry: &str) -> u64 {
    vcore::rng::fnv1a(key(entry).as_bytes()) | 1
}

/// Maps (creating if necessary) the ledger file of this run. Without a ledger every probe runs normally.
pub fn open(work: &Path) {
    let path = work.join("hang-ledger.bin");
    let Ok(c) = std::ffi::CString::new(path.to_string_lossy().as_bytes()) else { return };
    let len = std::mem::size_of::<Ledger>().next_multiple_of(4096);
    unsafe {
        let fd = libc::open(c.as_ptr(), libc::O_RDWR | libc::O_CREAT, 0o644);
        if fd < 0 {
            return;
        }
        // growing to the same size is idempotent; new bytes are zero
        if libc::ftruncate(fd, len as libc::off_t) != 0 {
            libc::close(fd);
            return;
        }
        let p = libc::mmap(std::ptr::null_mut(), len, libc::PROT_READ | libc::PROT_WRITE, libc::MAP_SHARED, fd, 0);
        libc::close(fd);
        if p != libc::MAP_FAILED {
            LEDGER.store(p as *mut Ledger, Relaxed);
        }
    }
}

fn ledger() -> Option<&'static Ledger> {
    let p = LEDGER.load(Relaxed);
    if p.is_null() { None } else { Some(unsafe { &*p }) }
}

fn slot(l: &'static Ledger, entry: &str, create: bool) -> Option<&'static Slot> {
    let h = hash(entry);
    let mut i = (h % SLOTS as u64) as usize;
    for _ in 0..SLOTS {
        let s = &l.slots[i];
        let cur = s.hash.load(Relaxed);
        if cur == h {
            return Some(s);
        }
        if cur == 0 {
            if !create {
                return None;
            }
            match s.hash.compare_exchange(0, h, Relaxed, Relaxed) {
                Ok(_) => return Some(s),
                Err(other) if other == h => return Some(s),
                Err(_) => {}
            }
        }
        i = (i + 1) % SLOTS;
    }
    None
}

/// What to do with the next probe of `entry`.
pub fn decide(entry: &str) -> Decision {
    let Some(l) = ledger() else { return Decision::Normal };
    let many = l.total_hangs.load(Relaxed) >= GLOBAL;
    let Some(s) = slot(l, entry, many) else { return Decision::Normal };
    let n = s.hangs.load(Relaxed);
    if n == 0 {
        // the run has already seen many hangs: every entry point runs under its short budget from now on
        if many {
            s.short_runs.fetch_add(1, Relaxed);
            return Decision::Short;
        }
        return Decision::Normal;
    }
    if n >= SHORT || l.total_hangs.load(Relaxed) >= GLOBAL {
        s.skipped.fetch_add(1, Relaxed);
        return Decision::Skip;
    }
    if n >= FULL {
        s.short_runs.fetch_add(1, Relaxed);
        return Decision::Short;
    }
    Decision::Normal
}

pub fn record_hang(entry: &str) {
    if let Some(l) = ledger() {
        if let Some(s) = slot(l, entry, true) {
            s.hangs.fetch_add(1, Relaxed);
            l.total_hangs.fetch_add(1, Relaxed);
        }
    }
}

/// (hangs, probes run under the short budget, probes skipped) of `entry`.
pub fn stats(entry: &str) -> (u64, u64, u64) {
    match ledger().and_then(|l| slot(l, entry, false)) {
        Some(s) => (s.hangs.load(Relaxed), s.short_runs.load(Relaxed), s.skipped.load(Relaxed)),
        None => (0, 0, 0),
    }
}
