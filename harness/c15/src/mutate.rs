//! Byte-level mutation machinery of the deterministic part: position selection, the six substitutions and the
//! truncation of the quantifier, and the layers a mutation is applied at.

use vcore::bgzf as ob;

pub const SUBST_NAMES: [&str; 7] = ["set00", "setFF", "xor01", "xor80", "plus1", "minus1", "truncate"];

pub fn subst(b: u8, which: usize) -> u8 {
    match which {
        0 => 0x00,
        1 => 0xFF,
        2 => b ^ 0x01,
        3 => b ^ 0x80,
        4 => b.wrapping_add(1),
        _ => b.wrapping_sub(1),
    }
}

/// Where a mutation is applied.
#[derive(Clone, Copy, Debug, PartialEq, Eq, Hash, PartialOrd, Ord)]
pub enum Layer {
    /// the bytes of the file as they are
    Outer,
    /// BGZF-wrapped kinds: the inflated stream, re-compressed into valid BGZF afterwards
    Inflated,
    /// CRAM: the bytes of the file, CRC32 of every container header and block re-computed afterwards
    CramSealed,
    /// CRAM: the file with every block re-written as a raw (method 0) block, then like CramSealed
    CramRawSealed,
    /// CRAM: one integer parameter of a compression header (encoding maps), slice header or block header set to a
    /// hostile value on the parsed model (raw-block form where available), everything enclosing re-serialised
    CramStruct,
    /// BCF: a typed-value descriptor byte (length nibble, type nibble) of the inflated / raw stream set to every
    /// combination of length {0, 1, 2, 15} x type {0, 1, 2, 3, 5, 7}; re-sealed for the BGZF-wrapped kind
    BcfTyped,
}

pub const BCF_LENS: [u8; 4] = [0, 1, 2, 15];
pub const BCF_TYPES: [u8; 6] = [0, 1, 2, 3, 5, 7];

pub fn bcf_descriptor(which: usize) -> u8 {
    (BCF_LENS[(which / BCF_TYPES.len()) % BCF_LENS.len()] << 4) | BCF_TYPES[which % BCF_TYPES.len()]
}

impl Layer {
    pub fn name(self) -> &'static str {
        match self {
            Layer::Outer => "outer",
            Layer::Inflated => "inflated",
            Layer::CramSealed => "cram-crc-resealed",
            Layer::CramRawSealed => "cram-rawblocks-crc-resealed",
            Layer::CramStruct => "cram-structured-parameter-resealed",
            Layer::BcfTyped => "bcf-typed-descriptor",
        }
    }

    pub fn from_name(s: &str) -> Option<Layer> {
        [Layer::Outer, Layer::Inflated, Layer::CramSealed, Layer::CramRawSealed, Layer::CramStruct, Layer::BcfTyped].into_iter().find(|l| l.name() == s)
    }
}

/// Positions of the deterministic part: all of them when `max` allows, otherwise every position of the first 600
/// bytes, ±40 bytes around (a stride over) the structural boundaries and a stride over the rest.
pub fn positions(len: usize, boundaries: &[usize], max: usize) -> Vec<usize> {
    if len <= max {
        return (0..len).collect();
    }
    let mut take = vec![false; len];
    let mut n = 0usize;
    let mark = |p: usize, take: &mut Vec<bool>, n: &mut usize| {
        if p < len && !take[p] {
            take[p] = true;
            *n += 1;
        }
    };
    let head = 600.min(max / 3).min(len);
    for p in 0..head {
        mark(p, &mut take, &mut n);
    }
    // boundaries: as many as fit into a third of the budget, evenly spread, ±40 (the last boundary = end of file)
    let per = 81usize;
    let nb = (max / 3 / per).max(1);
    let bs: Vec<usize> = if boundaries.len() <= nb {
        boundaries.to_vec()
    } else {
        (0..nb).map(|i| boundaries[i * (boundaries.len() - 1) / (nb - 1).max(1)]).collect()
    };
    for &b in &bs {
        for p in b.saturating_sub(40)..(b + 41).min(len) {
            mark(p, &mut take, &mut n);
        }
    }
    // stride over the rest
    if n < max {
        let rest = max - n;
        let stride = (len / rest).max(1);
        // a stride that is coprime to typical record sizes
        let stride = if stride % 2 == 0 { stride + 1 } else { stride };
        let mut p = stride / 2;
        while p < len {
            mark(p, &mut take, &mut n);
            p += stride;
        }
    }
    (0..len).filter(|&p| take[p]).collect()
}

/// BGZF file of an inflated stream with the members pre-built, so that a mutation re-compresses only the member
/// it falls into.
pub struct Resealer {
    pub payload: Vec<u8>,
    block_len: usize,
    members: Vec<Vec<u8>>,
}

impl Resealer {
    pub fn new(payload: Vec<u8>, block_len: usize) -> Self {
        let block_len = block_len.clamp(1, 65280);
        let members = payload.chunks(block_len).map(member).collect();
        Resealer { payload, block_len, members }
    }

    /// The file for the payload with byte `pos` replaced by `b`.
    pub fn with_byte(&self, pos: usize, b: u8) -> Vec<u8> {
        let bi = pos / self.block_len;
        let mut out = Vec::with_capacity(self.payload.len() / 2 + 64);
        for (i, m) in self.members.iter().enumerate() {
            if i == bi {
                let s = bi * self.block_len;
                let e = (s + self.block_len).min(self.payload.len());
                let mut chunk = self.payload[s..e].to_vec();
                chunk[pos - s] = b;
                out.extend_from_slice(&member(&chunk));
            } else {
                out.extend_from_slice(m);
            }
        }
        out.extend_from_slice(&ob::EOF_MARKER);
        out
    }

    /// The file for the first `len` bytes of the payload (complete BGZF, EOF marker included).
    pub fn truncated(&self, len: usize) -> Vec<u8> {
        let bi = len / self.block_len;
        let mut out = Vec::new();
        for m in &self.members[..bi.min(self.members.len())] {
            out.extend_from_slice(m);
        }
        let s = bi * self.block_len;
        if len > s {
            out.extend_from_slice(&member(&self.payload[s..len]));
        }
        out.extend_from_slice(&ob::EOF_MARKER);
        out
    }
}

fn member(data: &[u8]) -> Vec<u8> {
    ob::build_member(data, ob::Enc::Deflate(1))
        .or_else(|| ob::build_member(data, ob::Enc::Stored))
        .expect("chunk fits into a BGZF member")
}

/// Arbitrary payload → BGZF (used by the seeded part; `block_len` varies there).
pub fn reseal(payload: &[u8], block_len: usize) -> Vec<u8> {
    ob::reseal(payload, block_len)
}
