//! Minimal items of every kind for the deterministic part: records / lines / index entries with nothing behind
//! the mandatory fields. A weakened bounds check only escapes the record buffer when the fields BEHIND the
//! corrupted length are short or absent (rich records absorb an over-long length), so every length / count byte of
//! these files is enumerated in full (every position x every substitution, outer bytes and re-sealed payload),
//! each minimal record alone in its file and as the LAST record behind a richer one.
//!
//! Everything is seed independent. Binary record files come from the noodles writers through
//! `corpus::write_history` (deterministic for BAM / BCF); the CRAM items are byte fixtures (`data/min-*.cram`,
//! written once by `mode=genfixtures`: the CRAM writer's block order differs from process to process); text and
//! index files are written by hand from the specifications.

use corpus::{Item, Kind, Side};

const SAM_HEADER: &str = "@HD\tVN:1.6\n@SQ\tSN:s\tLN:10\n";
const REFERENCE_FASTA: &str = ">s\nACGTACGTAC\n";

/// (name, records) — SAM lines without the trailing newline.
fn sam_record_sets() -> Vec<(&'static str, Vec<&'static str>)> {
    let rich = "rich0\t99\ts\t1\t60\t2M1I1M\t=\t3\t6\tACGT\tIIII\tNM:i:1\tXZ:Z:abc\tXB:B:s,1,2,3";
    let a = "r0\t0\ts\t1\t60\t4M\t*\t0\t0\tACGT\tIIII"; // 1 op, 4 bases, qualities, no aux
    let b = "r0\t0\ts\t1\t60\t4M\t*\t0\t0\tACGT\t*"; // no qualities (0xff in BAM)
    let c = "*\t0\ts\t1\t60\t4M\t*\t0\t0\tACGT\tIIII"; // no name beyond the NUL
    let d = "r\t4\t*\t0\t0\t*\t*\t0\t0\t*\t*"; // 0-op CIGAR, 0 bases
    let e = "r\t0\ts\t1\t0\t1M\t*\t0\t0\tA\t*"; // 1 base
    let f = "r\t0\ts\t2\t0\t3M\t*\t0\t0\tCGT\tIII"; // 3 bases (odd: half-filled last sequence byte)
    let g = "r\t4\t*\t0\t0\t*\t*\t0\t0\tAC\tII"; // unmapped with 2 bases, 0-op CIGAR
    vec![
        ("1op-4bases-noaux", vec![a]),
        ("no-qualities", vec![b]),
        ("no-name", vec![c]),
        ("0op-0bases", vec![d]),
        ("1base", vec![e]),
        ("3bases", vec![f]),
        ("unmapped-2bases-0op", vec![g]),
        ("rich-then-1op-4bases-noaux", vec![rich, a]),
        ("rich-then-0op-0bases", vec![rich, d]),
        ("rich-then-no-qualities", vec![rich, b]),
        ("all-minimal-7recs", vec![a, b, c, d, e, f, g]),
        ("header-only", vec![]),
    ]
}

const VCF_HEADER_NOSAMPLES: &str = "##fileformat=VCFv4.3\n##contig=<ID=s,length=10>\n##INFO=<ID=DP,Number=1,Type=Integer,Description=\"d\">\n#CHROM\tPOS\tID\tREF\tALT\tQUAL\tFILTER\tINFO\n";
const VCF_HEADER_1SAMPLE: &str = "##fileformat=VCFv4.3\n##contig=<ID=s,length=10>\n##INFO=<ID=DP,Number=1,Type=Integer,Description=\"d\">\n##FORMAT=<ID=GT,Number=1,Type=String,Description=\"g\">\n##FORMAT=<ID=GQ,Number=1,Type=Integer,Description=\"q\">\n#CHROM\tPOS\tID\tREF\tALT\tQUAL\tFILTER\tINFO\tFORMAT\tx\n";

/// (name, header, records)
fn vcf_record_sets() -> Vec<(&'static str, &'static str, Vec<&'static str>)> {
    let a = "s\t1\t.\tA\t.\t.\t.\t."; // single allele, no INFO
    let b = "s\t1\t.\tA\tC\t.\t.\t."; // two alleles, no INFO
    let c = "s\t2\t.\tA\tC\t.\t.\tDP=1"; // one INFO field
    let d = "s\t3\ti\tA\tC\t1\tPASS\t."; // id, qual, filter
    let rich = "s\t1\tid0;id1\tAC\tA,ACG\t10.5\tPASS\tDP=7";
    let s_a = "s\t1\t.\tA\tC\t.\t.\t.\tGT\t0/1"; // one sample, one FORMAT key
    let s_b = "s\t2\t.\tA\t.\t.\t.\t.\tGT\t0"; // haploid, single allele
    let s_c = "s\t3\t.\tA\tC\t.\t.\t.\tGT:GQ\t0|1:9";
    let s_rich = "s\t1\tid0\tAC\tA,ACG\t10.5\tPASS\tDP=7\tGT:GQ\t1/2:40";
    vec![
        ("nosamples-single-allele-noinfo", VCF_HEADER_NOSAMPLES, vec![a]),
        ("nosamples-2alleles-noinfo", VCF_HEADER_NOSAMPLES, vec![b]),
        ("nosamples-1info", VCF_HEADER_NOSAMPLES, vec![c]),
        ("nosamples-id-qual-filter", VCF_HEADER_NOSAMPLES, vec![d]),
        ("nosamples-rich-then-single-allele", VCF_HEADER_NOSAMPLES, vec![rich, a]),
        ("nosamples-rich-then-1info", VCF_HEADER_NOSAMPLES, vec![rich, c]),
        ("nosamples-all-minimal-4recs", VCF_HEADER_NOSAMPLES, vec![a, b, c, d]),
        ("nosamples-header-only", VCF_HEADER_NOSAMPLES, vec![]),
        ("1sample-gt", VCF_HEADER_1SAMPLE, vec![s_a]),
        ("1sample-haploid-single-allele", VCF_HEADER_1SAMPLE, vec![s_b]),
        ("1sample-gt-gq", VCF_HEADER_1SAMPLE, vec![s_c]),
        ("1sample-rich-then-gt", VCF_HEADER_1SAMPLE, vec![s_rich, s_a]),
        ("1sample-rich-then-haploid", VCF_HEADER_1SAMPLE, vec![s_rich, s_b]),
    ]
}

fn text(header: &str, records: &[&str], final_newline: bool) -> Vec<u8> {
    let mut s = String::from(header);
    for (i, r) in records.iter().enumerate() {
        s.push_str(r);
        if i + 1 < records.len() || final_newline {
            s.push('\n');
        }
    }
    s.into_bytes()
}

fn written(kind: Kind, name: String, model: Vec<u8>, reference: bool) -> Option<Item> {
    let side = Side { model: Some(model), writable: true, reference_fasta: if reference { Some(REFERENCE_FASTA.as_bytes().to_vec()) } else { None }, ..Side::default() };
    let mut item = Item { kind, name, bytes: Vec::new(), side };
    let res = vcore::guard::catch(|| {
        let mut out = Vec::new();
        corpus::write_history(&item, &mut out).map(|_| out)
    });
    match res {
        Ok(Ok(b)) => {
            item.bytes = b;
            Some(item)
        }
        _ => None,
    }
}

fn plain(kind: Kind, name: String, bytes: Vec<u8>, side: Side) -> Item {
    Item { kind, name, bytes, side }
}

fn le32(v: &mut Vec<u8>, x: u32) {
    v.extend_from_slice(&x.to_le_bytes());
}

fn le64(v: &mut Vec<u8>, x: u64) {
    v.extend_from_slice(&x.to_le_bytes());
}

/// BAI with one reference: `bins` (bin id, chunks), linear index entries, optional n_no_coor trailer.
fn bai(bins: &[(u32, Vec<(u64, u64)>)], linear: &[u64], trailer: Option<u64>) -> Vec<u8> {
    let mut v = b"BAI\x01".to_vec();
    le32(&mut v, 1);
    le32(&mut v, bins.len() as u32);
    for (id, chunks) in bins {
        le32(&mut v, *id);
        le32(&mut v, chunks.len() as u32);
        for (s, e) in chunks {
            le64(&mut v, *s);
            le64(&mut v, *e);
        }
    }
    le32(&mut v, linear.len() as u32);
    for x in linear {
        le64(&mut v, *x);
    }
    if let Some(n) = trailer {
        le64(&mut v, n);
    }
    v
}

fn csi_payload(bins: &[(u32, u64, Vec<(u64, u64)>)], n_ref: u32, trailer: Option<u64>, aux: &[u8]) -> Vec<u8> {
    let mut v = b"CSI\x01".to_vec();
    le32(&mut v, 14);
    le32(&mut v, 5);
    le32(&mut v, aux.len() as u32);
    v.extend_from_slice(aux);
    le32(&mut v, n_ref);
    for _ in 0..n_ref {
        le32(&mut v, bins.len() as u32);
        for (id, loffset, chunks) in bins {
            le32(&mut v, *id);
            le64(&mut v, *loffset);
            le32(&mut v, chunks.len() as u32);
            for (s, e) in chunks {
                le64(&mut v, *s);
                le64(&mut v, *e);
            }
        }
    }
    if let Some(n) = trailer {
        le64(&mut v, n);
    }
    v
}

fn tbi_payload(bins: &[(u32, Vec<(u64, u64)>)], linear: &[u64], trailer: Option<u64>) -> Vec<u8> {
    let mut v = b"TBI\x01".to_vec();
    le32(&mut v, 1); // n_ref
    le32(&mut v, 2); // format: VCF
    le32(&mut v, 1); // col_seq
    le32(&mut v, 2); // col_beg
    le32(&mut v, 0); // col_end
    le32(&mut v, b'#' as u32); // meta
    le32(&mut v, 0); // skip
    le32(&mut v, 2); // l_nm
    v.extend_from_slice(b"s\0");
    le32(&mut v, bins.len() as u32);
    for (id, chunks) in bins {
        le32(&mut v, *id);
        le32(&mut v, chunks.len() as u32);
        for (s, e) in chunks {
            le64(&mut v, *s);
            le64(&mut v, *e);
        }
    }
    le32(&mut v, linear.len() as u32);
    for x in linear {
        le64(&mut v, *x);
    }
    if let Some(n) = trailer {
        le64(&mut v, n);
    }
    v
}

fn gzip(data: &[u8]) -> Vec<u8> {
    let mut out = vec![0x1f, 0x8b, 8, 0, 0, 0, 0, 0, 0, 0xff];
    out.extend(miniz_oxide::deflate::compress_to_vec(data, 6));
    out.extend_from_slice(&vcore::bgzf::crc32(data).to_le_bytes());
    out.extend_from_slice(&(data.len() as u32).to_le_bytes());
    out
}

/// Names of the CRAM fixtures and their SAM models (records only).
pub fn cram_fixture_models() -> Vec<(&'static str, Vec<u8>)> {
    let unmapped = "r\t4\t*\t0\t0\t*\t*\t0\t0\tACGT\tIIII";
    let unmapped2 = "q\t4\t*\t0\t0\t*\t*\t0\t0\tAC\tII";
    let mapped = "r0\t0\ts\t1\t60\t4M\t*\t0\t0\tACGT\tIIII";
    let pair1 = "p\t99\ts\t1\t60\t4M\t=\t5\t8\tACGT\tIIII";
    let pair2 = "p\t147\ts\t5\t60\t4M\t=\t1\t-8\tACGT\tIIII";
    let mapped6 = "r6\t0\ts\t6\t60\t4M\t*\t0\t0\tCGTA\tIIII";
    vec![
        ("min-1unmapped", text(SAM_HEADER, &[unmapped], true)),
        ("min-2unmapped", text(SAM_HEADER, &[unmapped, unmapped2], true)),
        ("min-1mapped", text(SAM_HEADER, &[mapped], true)),
        ("min-mapped-then-unmapped", text(SAM_HEADER, &[mapped, unmapped2], true)),
        // a proper pair in one slice: the first record has its mate downstream (CF bit, NF series)
        ("min-pair", text(SAM_HEADER, &[pair1, pair2], true)),
        ("min-pair-then-single", text(SAM_HEADER, &[pair1, pair2, mapped6], true)),
    ]
}

/// A fresh CRAM for a fixture model (used by `mode=genfixtures` only).
pub fn cram_fresh(model: &[u8]) -> Option<Vec<u8>> {
    written(Kind::Cram, String::new(), model.to_vec(), true).map(|i| i.bytes)
}

static CRAM_FIXTURES: [(&str, &[u8]); 6] = [
    ("min-pair", include_bytes!("../data/min-pair.cram")),
    ("min-pair-then-single", include_bytes!("../data/min-pair-then-single.cram")),
    ("min-1unmapped", include_bytes!("../data/min-1unmapped.cram")),
    ("min-2unmapped", include_bytes!("../data/min-2unmapped.cram")),
    ("min-1mapped", include_bytes!("../data/min-1mapped.cram")),
    ("min-mapped-then-unmapped", include_bytes!("../data/min-mapped-then-unmapped.cram")),
];

pub fn items() -> Vec<Item> {
    let mut v: Vec<Item> = Vec::new();
    // ---- alignment kinds
    for (name, recs) in sam_record_sets() {
        let model = text(SAM_HEADER, &recs, true);
        v.push(plain(Kind::Sam, format!("sam/min-{name}"), model.clone(), Side::default()));
        if !recs.is_empty() {
            v.push(plain(Kind::Sam, format!("sam/min-{name}-no-final-newline"), text(SAM_HEADER, &recs, false), Side::default()));
        }
        v.push(plain(Kind::SamGz, format!("samgz/min-{name}"), vcore::bgzf::reseal(&model, 65280), Side::default()));
        for kind in [Kind::Bam, Kind::BamRaw] {
            if let Some(i) = written(kind, format!("{}/min-{name}", kind.name()), model.clone(), false) {
                v.push(i);
            }
        }
    }
    // a record whose real CIGAR lives in the CG tag (kSmN placeholder in the CIGAR field), written by hand: the
    // noodles writer only produces it for more than 65535 operations
    {
        let mut b = b"BAM\x01".to_vec();
        le32(&mut b, SAM_HEADER.len() as u32);
        b.extend_from_slice(SAM_HEADER.as_bytes());
        le32(&mut b, 1);
        le32(&mut b, 2);
        b.extend_from_slice(b"s\0");
        le32(&mut b, 10);
        let mut r = Vec::new();
        le32(&mut r, 0); // refID
        le32(&mut r, 0); // pos
        r.push(2); // l_read_name
        r.push(60); // mapq
        r.extend_from_slice(&4681u16.to_le_bytes()); // bin
        r.extend_from_slice(&2u16.to_le_bytes()); // n_cigar_op
        r.extend_from_slice(&0u16.to_le_bytes()); // flag
        le32(&mut r, 4); // l_seq
        le32(&mut r, u32::MAX); // next refID
        le32(&mut r, u32::MAX); // next pos
        le32(&mut r, 0); // tlen
        r.extend_from_slice(b"r\0");
        le32(&mut r, (4 << 4) | 4); // 4S
        le32(&mut r, (4 << 4) | 3); // 4N
        r.extend_from_slice(&[0x12, 0x48]); // ACGT
        r.extend_from_slice(&[40; 4]);
        r.extend_from_slice(b"CGBI");
        le32(&mut r, 1);
        le32(&mut r, 4 << 4); // 4M
        le32(&mut b, r.len() as u32);
        b.extend_from_slice(&r);
        v.push(plain(Kind::Bam, "bam/min-cigar-in-cg-tag".into(), vcore::bgzf::reseal(&b, 65280), Side::default()));
        v.push(plain(Kind::BamRaw, "bamraw/min-cigar-in-cg-tag".into(), b, Side::default()));
    }
    // headerless SAM: one minimal line and nothing else
    v.push(plain(Kind::Sam, "sam/min-headerless-1rec".into(), b"r\t4\t*\t0\t0\t*\t*\t0\t0\t*\t*\n".to_vec(), Side::default()));
    // ---- CRAM fixtures
    let models = cram_fixture_models();
    for (name, bytes) in CRAM_FIXTURES.iter() {
        if bytes.is_empty() {
            continue;
        }
        let model = models.iter().find(|m| m.0 == *name).map(|m| m.1.clone());
        let side = Side { model, reference_fasta: Some(REFERENCE_FASTA.as_bytes().to_vec()), ..Side::default() };
        v.push(plain(Kind::Cram, format!("cram/{name}"), bytes.to_vec(), side));
    }
    // ---- variant kinds
    for (name, header, recs) in vcf_record_sets() {
        let model = text(header, &recs, true);
        v.push(plain(Kind::Vcf, format!("vcf/min-{name}"), model.clone(), Side::default()));
        if !recs.is_empty() {
            v.push(plain(Kind::Vcf, format!("vcf/min-{name}-no-final-newline"), text(header, &recs, false), Side::default()));
        }
        v.push(plain(Kind::VcfGz, format!("vcfgz/min-{name}"), vcore::bgzf::reseal(&model, 65280), Side::default()));
        for kind in [Kind::Bcf, Kind::BcfRaw] {
            if let Some(i) = written(kind, format!("{}/min-{name}", kind.name()), model.clone(), false) {
                v.push(i);
            }
        }
    }
    // ---- the other file format versions (the corpus and the items above are VCFv4.3; the lazy BCF / VCF genotype
    // code has version-dependent paths, e.g. explicit phasing of the first allele from 4.4 on)
    for version in ["4.2", "4.4", "4.5"] {
        let h1 = VCF_HEADER_1SAMPLE.replace("VCFv4.3", &format!("VCFv{version}"));
        let h0 = VCF_HEADER_NOSAMPLES.replace("VCFv4.3", &format!("VCFv{version}"));
        let sets: Vec<(&str, &str, Vec<&str>)> = vec![
            ("1sample-gt-gq", &h1, vec!["s\t3\t.\tA\tC\t.\t.\t.\tGT:GQ\t0|1:9"]),
            ("1sample-rich-then-gt", &h1, vec!["s\t1\tid0\tAC\tA,ACG\t10.5\tPASS\tDP=7\tGT:GQ\t1/2:40", "s\t1\t.\tA\tC\t.\t.\t.\tGT\t0/1"]),
            ("1sample-haploid-then-missing-gt", &h1, vec!["s\t2\t.\tA\t.\t.\t.\t.\tGT\t0", "s\t3\t.\tA\tC\t.\t.\t.\tGT:GQ\t.:5"]),
            ("nosamples-1info", &h0, vec!["s\t2\t.\tA\tC\t.\t.\tDP=1"]),
        ];
        for (name, header, recs) in sets {
            let model = text(header, &recs, true);
            v.push(plain(Kind::Vcf, format!("vcf/min-v{version}-{name}"), model.clone(), Side::default()));
            v.push(plain(Kind::VcfGz, format!("vcfgz/min-v{version}-{name}"), vcore::bgzf::reseal(&model, 65280), Side::default()));
            for kind in [Kind::Bcf, Kind::BcfRaw] {
                if let Some(i) = written(kind, format!("{}/min-v{version}-{name}", kind.name()), model.clone(), false) {
                    v.push(i);
                }
            }
        }
    }
    // ---- text kinds: mandatory columns only, minimal widths, with and without the final newline
    let mut both = |kind: Kind, name: &str, body: &str, side: Side| {
        v.push(plain(kind, format!("{}/min-{name}", kind.name()), format!("{body}\n").into_bytes(), side.clone()));
        v.push(plain(kind, format!("{}/min-{name}-no-final-newline", kind.name()), body.as_bytes().to_vec(), side));
    };
    both(Kind::Gff, "1line-no-attributes", "##gff-version 3\ns\t.\tg\t1\t2\t.\t.\t.\t.", Side::default());
    both(Kind::Gff, "1line-1attribute", "s\t.\tg\t1\t1\t.\t+\t0\tID=a", Side::default());
    both(Kind::Gff, "2lines-last-minimal", "s\tsrc\tgene\t1\t9\t0.5\t+\t.\tID=g1;Name=n;Note=a,b\ns\t.\tg\t1\t2\t.\t.\t.\t.", Side::default());
    both(Kind::Gtf, "1line-1attribute", "s\t.\tg\t1\t2\t.\t.\t.\tgene_id \"g\";", Side::default());
    both(Kind::Gtf, "1line-2attributes", "s\t.\tg\t1\t1\t.\t+\t0\tgene_id \"g\"; transcript_id \"t\";", Side::default());
    both(Kind::Gtf, "2lines-last-minimal", "s\tsrc\texon\t1\t9\t0.5\t+\t.\tgene_id \"g1\"; transcript_id \"t1\"; n \"1\";\ns\t.\tg\t1\t2\t.\t.\t.\tgene_id \"g\";", Side::default());
    both(Kind::Bed, "bed3-1line", "s\t0\t1", Side { bed_n: 3, ..Side::default() });
    both(Kind::Bed, "bed3-2lines-last-minimal", "sq0\t100\t200\tname\t5\t+\ns\t0\t1", Side { bed_n: 3, ..Side::default() });
    both(Kind::Bed, "bed4-1line", "s\t0\t1\tn", Side { bed_n: 4, ..Side::default() });
    both(Kind::Bed, "bed5-1line", "s\t0\t1\tn\t0", Side { bed_n: 5, ..Side::default() });
    both(Kind::Bed, "bed6-1line", "s\t0\t1\tn\t0\t+", Side { bed_n: 6, ..Side::default() });
    both(Kind::Bed, "bed6-2lines-last-minimal", "sq0\t100\t200\tname\t5\t+\tx\ty\ns\t0\t1\tn\t0\t-", Side { bed_n: 6, ..Side::default() });
    both(Kind::Fasta, "1seq-1base", ">s\nA", Side::default());
    both(Kind::Fasta, "2seqs-last-minimal", ">sq0 desc\nACGTACGT\nACG\n>s\nA", Side::default());
    both(Kind::Fastq, "1read-1base", "@r\nA\n+\nI", Side::default());
    both(Kind::Fastq, "2reads-last-minimal", "@r0 desc\nACGT\n+r0 desc\nIIII\n@r\nA\n+\nI", Side::default());
    both(Kind::Fai, "1entry", "s\t1\t3\t1\t2", Side::default());
    both(Kind::Fai, "2entries-last-minimal", "sq0\t11\t10\t8\t9\ns\t1\t27\t1\t2", Side::default());
    both(Kind::FastqFai, "1entry", "r\t1\t3\t1\t2\t7", Side::default());
    // ---- binary indexes: one reference / one bin / one chunk / empty linear index / no trailer
    let chunk = vec![(0x10000u64, 0x20000u64)];
    v.push(plain(Kind::Bai, "bai/min-1ref-1bin-1chunk-empty-linear-no-trailer".into(), bai(&[(4681, chunk.clone())], &[], None), Side::default()));
    v.push(plain(Kind::Bai, "bai/min-1ref-1bin-1chunk-1interval-trailer".into(), bai(&[(4681, chunk.clone())], &[0x10000], Some(0)), Side::default()));
    v.push(plain(Kind::Bai, "bai/min-1ref-nothing".into(), bai(&[], &[], None), Side::default()));
    v.push(plain(Kind::Bai, "bai/min-1ref-metadata-bin-only".into(), bai(&[(37450, vec![(0x10000, 0x20000), (1, 0)])], &[], Some(1)), Side::default()));
    v.push(plain(Kind::Bai, "bai/min-1ref-2bins-last-1chunk".into(), bai(&[(0, vec![(0x10000, 0x30000), (0x40000, 0x50000)]), (4681, chunk.clone())], &[0x10000, 0x10000], None), Side::default()));
    let csi = |p: Vec<u8>| vcore::bgzf::reseal(&p, 65280);
    v.push(plain(Kind::Csi, "csi/min-1ref-1bin-1chunk-no-trailer".into(), csi(csi_payload(&[(4681, 0x10000, chunk.clone())], 1, None, &[])), Side::default()));
    v.push(plain(Kind::Csi, "csi/min-1ref-1bin-1chunk-trailer".into(), csi(csi_payload(&[(4681, 0x10000, chunk.clone())], 1, Some(0), &[])), Side::default()));
    v.push(plain(Kind::Csi, "csi/min-1ref-nothing".into(), csi(csi_payload(&[], 1, None, &[])), Side::default()));
    v.push(plain(Kind::Csi, "csi/min-0refs".into(), csi(csi_payload(&[], 0, None, &[])), Side::default()));
    v.push(plain(Kind::Csi, "csi/min-1ref-metadata-bin-only".into(), csi(csi_payload(&[(37450, 0, vec![(0x10000, 0x20000), (1, 0)])], 1, Some(1), &[])), Side::default()));
    {
        // tabix-style aux header (format, col_seq, col_beg, col_end, meta, skip, l_nm, names)
        let mut aux = Vec::new();
        for x in [2u32, 1, 2, 0, b'#' as u32, 0, 2] {
            le32(&mut aux, x);
        }
        aux.extend_from_slice(b"s\0");
        v.push(plain(Kind::Csi, "csi/min-1ref-1bin-1chunk-aux-header".into(), csi(csi_payload(&[(4681, 0x10000, chunk.clone())], 1, None, &aux)), Side::default()));
    }
    v.push(plain(Kind::Tbi, "tbi/min-1ref-1bin-1chunk-empty-linear-no-trailer".into(), csi(tbi_payload(&[(4681, chunk.clone())], &[], None)), Side::default()));
    v.push(plain(Kind::Tbi, "tbi/min-1ref-1bin-1chunk-1interval-trailer".into(), csi(tbi_payload(&[(4681, chunk.clone())], &[0x10000], Some(0))), Side::default()));
    v.push(plain(Kind::Tbi, "tbi/min-1ref-nothing".into(), csi(tbi_payload(&[], &[], None)), Side::default()));
    {
        let mut g = Vec::new();
        le64(&mut g, 1);
        le64(&mut g, 100);
        le64(&mut g, 65280);
        v.push(plain(Kind::Gzi, "gzi/min-1entry".into(), g, Side::default()));
        let mut g0 = Vec::new();
        le64(&mut g0, 0);
        v.push(plain(Kind::Gzi, "gzi/min-0entries".into(), g0, Side::default()));
    }
    v.push(plain(Kind::Crai, "crai/min-1entry".into(), gzip(b"0\t1\t4\t26\t100\t50\n"), Side::default()));
    v.push(plain(Kind::Crai, "crai/min-1entry-unmapped-no-final-newline".into(), gzip(b"-1\t0\t0\t26\t100\t50"), Side::default()));
    v.push(plain(Kind::Crai, "crai/min-2entries-last-minimal".into(), gzip(b"0\t1000\t5000\t12345\t678\t9012\n0\t1\t1\t0\t0\t0\n"), Side::default()));
    // ---- BGZF: one tiny block with and without the EOF marker
    v.push(plain(Kind::Bgzf, "bgzf/min-1byte-1block".into(), vcore::bgzf::reseal(b"A", 65280), Side::default()));
    v.push(plain(Kind::Bgzf, "bgzf/min-1byte-1block-no-eof-marker".into(), vcore::bgzf::build_file(&[b"A".to_vec()], vcore::bgzf::Enc::Deflate(1), 0), Side::default()));
    v
}
