//! Queries with an index whose contents are arbitrary: structurally valid indexes built through the public
//! constructors (binning indexes, gzi, fai, crai) used against VALID data files.

use std::{
    io::{self, BufRead, Cursor, Read, Seek},
    num::NonZero,
};

use bstr::BString;
use indexmap::IndexMap;
use noodles_bam as bam;
use noodles_bcf as bcf;
use noodles_bgzf as bgzf;
use noodles_core::{Position, Region, region::Interval};
use noodles_cram as cram;
use noodles_csi::{
    BinningIndex,
    binning_index::{
        Index,
        index::{
            Header, ReferenceSequence,
            header::{Format, format::CoordinateSystem},
            reference_sequence::{
                Bin, Metadata,
                bin::Chunk,
                index::{BinnedIndex, LinearIndex},
            },
        },
    },
};
use noodles_fasta as fasta;
use noodles_gff as gff;
use noodles_sam as sam;
use noodles_vcf as vcf;
use serde_json::{Value, json};
use vcore::Rng;

pub const TARGETS: [&str; 10] = ["bam", "bcf", "vcfgz", "samgz", "gffgz", "bgzf-seek", "bgzf-gzi", "fasta-fai", "cram-crai", "bgzf-read"];

/// Caller buffer lengths around the thresholds of the BGZF readers' direct-read path.
pub const BUF_LENS: [usize; 13] = [1, 4096, 65279, 65280, 65494, 65495, 65496, 65500, 65535, 65536, 65537, 70000, 131072];
pub const BGZF_READERS: [&str; 4] = ["reader", "reader-after-seek", "multithreaded-reader", "indexed-reader"];

#[derive(Clone, Debug, Default)]
pub struct RefSpec {
    pub bins: Vec<(usize, Vec<(u64, u64)>)>,
    pub linear: Vec<u64>,
    pub binned: Vec<(usize, u64)>,
    pub metadata: Option<(u64, u64, u64, u64)>,
}

#[derive(Clone, Debug, Default)]
pub struct HeaderSpec {
    /// 0 generic/gff, 1 generic/bed, 2 sam, 3 vcf
    pub format: u8,
    pub col_seq: usize,
    pub col_beg: usize,
    pub col_end: Option<usize>,
    pub meta: u8,
    pub skip: u32,
    pub names: Vec<Vec<u8>>,
}

#[derive(Clone, Debug, Default)]
pub struct IndexSpec {
    pub min_shift: u8,
    pub depth: u8,
    pub linear: bool,
    pub header: Option<HeaderSpec>,
    pub refs: Vec<RefSpec>,
    pub unplaced: Option<u64>,
}

#[derive(Clone, Debug)]
pub enum What {
    /// region query: name, start, end (0 = unbounded)
    Region(Vec<u8>, usize, usize),
    Unmapped,
}

#[derive(Clone, Debug)]
pub enum Probe {
    Binning { target: usize, data: String, spec: IndexSpec, what: What },
    /// `bgzf::io::Reader::seek(vpos)` then read
    Seek { data: String, vpos: u64 },
    /// `seek_by_uncompressed_position` with an arbitrary gzi
    Gzi { data: String, entries: Vec<(u64, u64)>, pos: u64 },
    /// fasta `IndexedReader::query` with an arbitrary fai
    Fai { data: String, records: Vec<(Vec<u8>, u64, u64, u64, u64)>, name: Vec<u8>, start: usize, end: usize },
    /// cram `query` / `query_unmapped` with an arbitrary crai
    Crai { data: String, records: Vec<(Option<usize>, usize, usize, u64, u64, u64)>, what: What },
    /// `Read::read` with a caller buffer of `buf_len` bytes, block after block, on the BGZF item `data` with
    /// `patches` (offset, bytes) applied; `reader` indexes `BGZF_READERS`; `seek` = compressed offset of a member
    /// to seek to first (virtual position with in-block offset 0 / uncompressed offset through the gzi)
    BgzfRead { data: String, patches: Vec<(usize, Vec<u8>)>, reader: usize, buf_len: usize, seek: Option<(u64, u64)> },
}

fn vp(v: u64) -> bgzf::VirtualPosition {
    bgzf::VirtualPosition::from(v)
}

impl IndexSpec {
    fn header(&self) -> Option<Header> {
        let h = self.header.as_ref()?;
        let mut names = noodles_csi::binning_index::index::header::ReferenceSequenceNames::new();
        for n in &h.names {
            names.insert(BString::from(n.clone()));
        }
        let fmt = match h.format {
            0 => Format::Generic(CoordinateSystem::Gff),
            1 => Format::Generic(CoordinateSystem::Bed),
            2 => Format::Sam,
            _ => Format::Vcf,
        };
        Some(
            Header::builder()
                .set_format(fmt)
                .set_reference_sequence_name_index(h.col_seq)
                .set_start_position_index(h.col_beg)
                .set_end_position_index(h.col_end)
                .set_line_comment_prefix(h.meta)
                .set_line_skip_count(h.skip)
                .set_reference_sequence_names(names)
                .build(),
        )
    }

    fn bins(r: &RefSpec) -> IndexMap<usize, Bin> {
        let mut bins = IndexMap::new();
        for (id, chunks) in &r.bins {
            bins.insert(*id, Bin::new(chunks.iter().map(|&(s, e)| Chunk::new(vp(s), vp(e))).collect()));
        }
        bins
    }

    fn metadata(r: &RefSpec) -> Option<Metadata> {
        r.metadata.map(|(a, b, c, d)| Metadata::new(vp(a), vp(b), c, d))
    }

    pub fn build_linear(&self) -> Index<LinearIndex> {
        let refs = self
            .refs
            .iter()
            .map(|r| {
                let lin: LinearIndex = r.linear.iter().map(|&v| vp(v)).collect();
                ReferenceSequence::new(Self::bins(r), lin, Self::metadata(r))
            })
            .collect();
        let mut b = Index::<LinearIndex>::builder().set_min_shift(self.min_shift).set_depth(self.depth).set_reference_sequences(refs);
        if let Some(h) = self.header() {
            b = b.set_header(h);
        }
        if let Some(n) = self.unplaced {
            b = b.set_unplaced_unmapped_record_count(n);
        }
        b.build()
    }

    pub fn build_binned(&self) -> Index<BinnedIndex> {
        let refs = self
            .refs
            .iter()
            .map(|r| {
                let mut ix = BinnedIndex::default();
                for &(id, v) in &r.binned {
                    ix.insert(id, vp(v));
                }
                ReferenceSequence::new(Self::bins(r), ix, Self::metadata(r))
            })
            .collect();
        let mut b = Index::<BinnedIndex>::builder().set_min_shift(self.min_shift).set_depth(self.depth).set_reference_sequences(refs);
        if let Some(h) = self.header() {
            b = b.set_header(h);
        }
        if let Some(n) = self.unplaced {
            b = b.set_unplaced_unmapped_record_count(n);
        }
        b.build()
    }

    pub fn to_json(&self) -> Value {
        json!({
            "min_shift": self.min_shift, "depth": self.depth, "linear": self.linear, "unplaced": self.unplaced.map(|n| n.to_string()),
            "header": self.header.as_ref().map(|h| json!({"format": h.format, "col_seq": h.col_seq, "col_beg": h.col_beg, "col_end": h.col_end, "meta": h.meta, "skip": h.skip,
                "names": h.names.iter().map(|n| vcore::report::hex(n)).collect::<Vec<_>>()})),
            "refs": self.refs.iter().map(|r| json!({
                "bins": r.bins.iter().map(|(id, cs)| json!([id, cs.iter().map(|(s, e)| json!([s.to_string(), e.to_string()])).collect::<Vec<_>>()])).collect::<Vec<_>>(),
                "linear": r.linear.iter().map(|v| v.to_string()).collect::<Vec<_>>(),
                "binned": r.binned.iter().map(|(id, v)| json!([id, v.to_string()])).collect::<Vec<_>>(),
                "metadata": r.metadata.map(|(a, b, c, d)| json!([a.to_string(), b.to_string(), c.to_string(), d.to_string()])),
            })).collect::<Vec<_>>(),
        })
    }

    pub fn from_json(v: &Value) -> Option<IndexSpec> {
        let u = |x: &Value| -> Option<u64> { x.as_str()?.parse().ok() };
        let header = match &v["header"] {
            Value::Null => None,
            h => Some(HeaderSpec {
                format: h["format"].as_u64()? as u8,
                col_seq: h["col_seq"].as_u64()? as usize,
                col_beg: h["col_beg"].as_u64()? as usize,
                col_end: h["col_end"].as_u64().map(|x| x as usize),
                meta: h["meta"].as_u64()? as u8,
                skip: h["skip"].as_u64()? as u32,
                names: h["names"].as_array()?.iter().map(|n| vcore::report::unhex(n.as_str().unwrap_or(""))).collect(),
            }),
        };
        let mut refs = vec![];
        for r in v["refs"].as_array()? {
            let mut rs = RefSpec::default();
            for b in r["bins"].as_array()? {
                let mut cs = vec![];
                for c in b[1].as_array()? {
                    cs.push((u(&c[0])?, u(&c[1])?));
                }
                rs.bins.push((b[0].as_u64()? as usize, cs));
            }
            for l in r["linear"].as_array()? {
                rs.linear.push(u(l)?);
            }
            for b in r["binned"].as_array()? {
                rs.binned.push((b[0].as_u64()? as usize, u(&b[1])?));
            }
            if let Some(m) = r["metadata"].as_array() {
                rs.metadata = Some((u(&m[0])?, u(&m[1])?, u(&m[2])?, u(&m[3])?));
            }
            refs.push(rs);
        }
        Some(IndexSpec {
            min_shift: v["min_shift"].as_u64()? as u8,
            depth: v["depth"].as_u64()? as u8,
            linear: v["linear"].as_bool()?,
            header,
            refs,
            unplaced: v["unplaced"].as_str().and_then(|s| s.parse().ok()),
        })
    }
}

impl What {
    fn to_json(&self) -> Value {
        match self {
            What::Region(n, s, e) => json!({"region": vcore::report::hex(n), "start": s, "end": e}),
            What::Unmapped => json!("unmapped"),
        }
    }

    fn from_json(v: &Value) -> Option<What> {
        if v.as_str() == Some("unmapped") {
            return Some(What::Unmapped);
        }
        Some(What::Region(vcore::report::unhex(v["region"].as_str()?), v["start"].as_u64()? as usize, v["end"].as_u64()? as usize))
    }
}

impl Probe {
    pub fn target(&self) -> usize {
        match self {
            Probe::Binning { target, .. } => *target,
            Probe::Seek { .. } => 5,
            Probe::Gzi { .. } => 6,
            Probe::Fai { .. } => 7,
            Probe::Crai { .. } => 8,
            Probe::BgzfRead { .. } => 9,
        }
    }

    pub fn to_json(&self) -> Value {
        match self {
            Probe::Binning { target, data, spec, what } => json!({"probe": "binning", "target": TARGETS[*target], "data": data, "index": spec.to_json(), "what": what.to_json()}),
            Probe::Seek { data, vpos } => json!({"probe": "seek", "data": data, "vpos": vpos.to_string()}),
            Probe::Gzi { data, entries, pos } => {
                json!({"probe": "gzi", "data": data, "entries": entries.iter().map(|(a, b)| json!([a.to_string(), b.to_string()])).collect::<Vec<_>>(), "pos": pos.to_string()})
            }
            Probe::Fai { data, records, name, start, end } => json!({"probe": "fai", "data": data,
                "records": records.iter().map(|(n, a, b, c, d)| json!([vcore::report::hex(n), a.to_string(), b.to_string(), c.to_string(), d.to_string()])).collect::<Vec<_>>(),
                "name": vcore::report::hex(name), "start": start, "end": end}),
            Probe::Crai { data, records, what } => json!({"probe": "crai", "data": data,
                "records": records.iter().map(|(r, s, sp, o, l, n)| json!([r, s, sp, o.to_string(), l.to_string(), n.to_string()])).collect::<Vec<_>>(),
                "what": what.to_json()}),
            Probe::BgzfRead { data, patches, reader, buf_len, seek } => json!({"probe": "bgzfread", "data": data,
                "patches": patches.iter().map(|(o, b)| json!([o, vcore::report::hex(b)])).collect::<Vec<_>>(),
                "reader": BGZF_READERS[*reader], "buf_len": buf_len, "seek": seek.map(|(c, u)| json!([c.to_string(), u.to_string()]))}),
        }
    }

    pub fn from_json(v: &Value) -> Option<Probe> {
        let u = |x: &Value| -> Option<u64> { x.as_str()?.parse().ok() };
        let data = v["data"].as_str()?.to_string();
        match v["probe"].as_str()? {
            "binning" => Some(Probe::Binning {
                target: TARGETS.iter().position(|t| Some(*t) == v["target"].as_str())?,
                data,
                spec: IndexSpec::from_json(&v["index"])?,
                what: What::from_json(&v["what"])?,
            }),
            "seek" => Some(Probe::Seek { data, vpos: u(&v["vpos"])? }),
            "gzi" => {
                let mut entries = vec![];
                for e in v["entries"].as_array()? {
                    entries.push((u(&e[0])?, u(&e[1])?));
                }
                Some(Probe::Gzi { data, entries, pos: u(&v["pos"])? })
            }
            "fai" => {
                let mut records = vec![];
                for r in v["records"].as_array()? {
                    records.push((vcore::report::unhex(r[0].as_str()?), u(&r[1])?, u(&r[2])?, u(&r[3])?, u(&r[4])?));
                }
                Some(Probe::Fai { data, records, name: vcore::report::unhex(v["name"].as_str()?), start: v["start"].as_u64()? as usize, end: v["end"].as_u64()? as usize })
            }
            "bgzfread" => {
                let mut patches = vec![];
                for p in v["patches"].as_array()? {
                    patches.push((p[0].as_u64()? as usize, vcore::report::unhex(p[1].as_str()?)));
                }
                Some(Probe::BgzfRead {
                    data,
                    patches,
                    reader: BGZF_READERS.iter().position(|r| Some(*r) == v["reader"].as_str())?,
                    buf_len: v["buf_len"].as_u64()? as usize,
                    seek: match v["seek"].as_array() {
                        Some(a) => Some((u(&a[0])?, u(&a[1])?)),
                        None => None,
                    },
                })
            }
            "crai" => {
                let mut records = vec![];
                for r in v["records"].as_array()? {
                    records.push((r[0].as_u64().map(|x| x as usize), r[1].as_u64()? as usize, r[2].as_u64()? as usize, u(&r[3])?, u(&r[4])?, u(&r[5])?));
                }
                Some(Probe::Crai { data, records, what: What::from_json(&v["what"])? })
            }
            _ => None,
        }
    }

    pub fn describe(&self) -> String {
        match self {
            Probe::Binning { target, data, spec, what } => format!(
                "{} query {:?} on {data} with a constructed {} index (min_shift {}, depth {}, {} reference sequences, header {})",
                TARGETS[*target],
                what,
                if spec.linear { "linear (BAI/tabix-like)" } else { "binned (CSI)" },
                spec.min_shift,
                spec.depth,
                spec.refs.len(),
                spec.header.is_some()
            ),
            Probe::Seek { data, vpos } => format!("bgzf::io::Reader::seek(coffset {}, uoffset {}) on {data}, then read", vpos >> 16, vpos & 0xffff),
            Probe::Gzi { data, entries, pos } => format!("seek_by_uncompressed_position({pos}) on {data} with a gzi of {} arbitrary entries", entries.len()),
            Probe::Fai { data, records, name, start, end } => {
                format!("fasta query {}:{start}-{end} on {data} with a fai of {} arbitrary records", String::from_utf8_lossy(name), records.len())
            }
            Probe::Crai { data, records, what } => format!("cram query {what:?} on {data} with a crai of {} arbitrary records", records.len()),
            Probe::BgzfRead { data, patches, reader, buf_len, seek } => format!(
                "bgzf {} reading {data} with read(&mut [0; {buf_len}]) calls{}; file patched at {}",
                BGZF_READERS[*reader],
                match seek {
                    Some((c, u)) => format!(" after a seek to the member at {c} (uncompressed offset {u})"),
                    None => String::new(),
                },
                patches.iter().map(|(o, b)| format!("{o}:{}", vcore::report::hex(b))).collect::<Vec<_>>().join(",")
            ),
        }
    }
}

fn interval(start: usize, end: usize) -> Interval {
    match (Position::new(start), Position::new(end)) {
        (Some(s), Some(e)) => Interval::from(s..=e),
        (Some(s), None) => Interval::from(s..),
        (None, Some(e)) => Interval::from(..=e),
        (None, None) => Interval::from(..),
    }
}

const MAX_ITEMS: usize = 200_000;

/// Drains a fallible iterator the way a caller does: stop at the first error.
fn drain<T>(it: impl Iterator<Item = io::Result<T>>, mut touch: impl FnMut(&T)) -> io::Result<usize> {
    let mut n = 0;
    for r in it {
        let x = r?;
        touch(&x);
        n += 1;
        if n >= MAX_ITEMS {
            break;
        }
    }
    Ok(n)
}

fn run_binning<I: BinningIndex>(target: usize, data: &[u8], side: &corpus::Side, ix: &I, what: &What) -> io::Result<usize> {
    // what every user of an index may call
    let _ = (ix.min_shift(), ix.depth(), ix.header().is_some(), ix.unplaced_unmapped_record_count(), ix.last_first_record_start_position());
    for rs in ix.reference_sequences() {
        let _ = rs.metadata();
    }
    let _ = side;
    let touch_aln = |r: &dyn sam::alignment::Record| {
        let _ = (r.name().map(|n| n.len()), r.flags().ok(), r.alignment_start().map(|p| p.ok()), r.cigar().len(), r.sequence().len());
    };
    match target {
        0 => {
            let mut r = bam::io::Reader::new(Cursor::new(data));
            let header = r.read_header()?;
            match what {
                What::Region(name, s, e) => {
                    let region = Region::new(BString::from(name.clone()), interval(*s, *e));
                    let q = r.query(&header, ix, &region)?;
                    drain(q.records(), |rec| touch_aln(rec))
                }
                What::Unmapped => drain(r.query_unmapped(ix)?, |rec| touch_aln(rec)),
            }
        }
        1 => {
            let mut r = bcf::io::Reader::new(Cursor::new(data));
            let header = r.read_header()?;
            match what {
                What::Region(name, s, e) => {
                    let region = Region::new(BString::from(name.clone()), interval(*s, *e));
                    let q = r.query(&header, ix, &region)?;
                    drain(q.records(), |rec| {
                        let _ = (rec.reference_sequence_id().ok(), rec.variant_start().map(|p| p.ok()), rec.ids().as_ref().len());
                    })
                }
                What::Unmapped => Ok(0),
            }
        }
        2 => {
            let mut r = vcf::io::Reader::new(bgzf::io::Reader::new(Cursor::new(data)));
            let header = r.read_header()?;
            match what {
                What::Region(name, s, e) => {
                    let region = Region::new(BString::from(name.clone()), interval(*s, *e));
                    let q = r.query(&header, ix, &region)?;
                    drain(q.records(), |rec| {
                        let _ = (rec.reference_sequence_name().len(), rec.variant_start().map(|p| p.ok()));
                    })
                }
                What::Unmapped => Ok(0),
            }
        }
        3 => {
            let mut r = sam::io::Reader::new(bgzf::io::Reader::new(Cursor::new(data)));
            let header = r.read_header()?;
            match what {
                What::Region(name, s, e) => {
                    let region = Region::new(BString::from(name.clone()), interval(*s, *e));
                    let q = r.query(&header, ix, &region)?;
                    drain(q.records(), |rec| touch_aln(rec))
                }
                What::Unmapped => drain(r.query_unmapped(ix)?, |rec| touch_aln(rec)),
            }
        }
        _ => {
            let mut r = gff::io::Reader::new(bgzf::io::Reader::new(Cursor::new(data)));
            match what {
                What::Region(name, s, e) => {
                    let region = Region::new(BString::from(name.clone()), interval(*s, *e));
                    let q = r.query(ix, &region)?;
                    drain(q, |rec| {
                        let _ = rec.attributes().as_ref().len();
                    })
                }
                What::Unmapped => Ok(0),
            }
        }
    }
}

/// Executes a probe against `data` (the bytes of the valid data file it names).
pub fn run(p: &Probe, data: &[u8], side: &corpus::Side) -> io::Result<usize> {
    match p {
        Probe::Binning { target, spec, what, .. } => {
            if spec.linear {
                run_binning(*target, data, side, &spec.build_linear(), what)
            } else {
                run_binning(*target, data, side, &spec.build_binned(), what)
            }
        }
        Probe::Seek { vpos, .. } => {
            let mut r = bgzf::io::Reader::new(Cursor::new(data));
            r.seek(vp(*vpos))?;
            let _ = u64::from(r.virtual_position());
            let mut buf = [0u8; 300];
            // the call patterns of the record readers: read_exact of a few bytes, read, fill_buf
            let mut small = [0u8; 4];
            let first = r.read_exact(&mut small);
            let n = r.read(&mut buf)?;
            first?;
            let w = r.fill_buf()?.len();
            let _ = u64::from(r.virtual_position());
            Ok(n + w)
        }
        Probe::Gzi { entries, pos, .. } => {
            let index = bgzf::gzi::Index::from(entries.clone());
            let _ = index.query(*pos);
            let mut r = bgzf::io::Reader::new(Cursor::new(data));
            r.seek_by_uncompressed_position(&index, *pos)?;
            let mut buf = [0u8; 300];
            let mut small = [0u8; 4];
            let first = r.read_exact(&mut small);
            let n = r.read(&mut buf)?;
            first?;
            let _ = u64::from(r.virtual_position());
            Ok(n)
        }
        Probe::Fai { records, name, start, end, .. } => {
            let recs: Vec<fasta::fai::Record> = records
                .iter()
                .map(|(n, len, off, lb, lw)| {
                    fasta::fai::Record::new(BString::from(n.clone()), *len, *off, NonZero::new(*lb).unwrap_or(NonZero::<u64>::MIN), NonZero::new(*lw).unwrap_or(NonZero::<u64>::MIN))
                })
                .collect();
            let index = fasta::fai::Index::from(recs);
            let region = Region::new(BString::from(name.clone()), interval(*start, *end));
            let _ = index.query(&region);
            let mut ir = fasta::io::IndexedReader::new(Cursor::new(data), index);
            let rec = ir.query(&region)?;
            Ok(rec.sequence().len())
        }
        Probe::BgzfRead { patches, reader, buf_len, seek, .. } => {
            let mut bytes = data.to_vec();
            for (o, b) in patches {
                for (i, x) in b.iter().enumerate() {
                    if let Some(d) = bytes.get_mut(o + i) {
                        *d = *x;
                    }
                }
            }
            // the index of the UNPATCHED file (what an indexed reader of a later-corrupted file holds)
            let pairs: Vec<(u64, u64)> = vcore::bgzf::walk_prefix(data)
                .map(|(w, _)| w.members.iter().zip(&w.starts).skip(1).map(|(m, s)| (m.offset, *s)).collect())
                .unwrap_or_default();
            let mut buf = vec![0u8; *buf_len];
            let mut total = 0usize;
            fn drain_reads(r: &mut dyn Read, buf: &mut [u8], total: &mut usize) -> io::Result<()> {
                for _ in 0..100_000 {
                    match r.read(buf) {
                        Ok(0) => return Ok(()),
                        Ok(n) => *total += n,
                        Err(e) if e.kind() == io::ErrorKind::Interrupted => {}
                        Err(e) => return Err(e),
                    }
                }
                Ok(())
            }
            match reader {
                2 => {
                    use bgzf::io::Seek as _;
                    let mut r = bgzf::io::MultithreadedReader::new(Cursor::new(bytes));
                    if let Some((c, _)) = seek {
                        r.seek_to_virtual_position(vp(c << 16))?;
                    }
                    drain_reads(&mut r, &mut buf, &mut total)?;
                }
                3 => {
                    let mut r = bgzf::io::IndexedReader::new(Cursor::new(bytes), bgzf::gzi::Index::from(pairs));
                    if let Some((_, u)) = seek {
                        r.seek(io::SeekFrom::Start(*u))?;
                    }
                    drain_reads(&mut r, &mut buf, &mut total)?;
                }
                _ => {
                    let mut r = bgzf::io::Reader::new(Cursor::new(bytes));
                    if let Some((c, _)) = seek {
                        r.seek(vp(c << 16))?;
                    }
                    drain_reads(&mut r, &mut buf, &mut total)?;
                    let _ = u64::from(r.virtual_position());
                }
            }
            Ok(total)
        }
        Probe::Crai { records, what, .. } => {
            let index: cram::crai::Index = records
                .iter()
                .map(|&(rid, start, span, off, lm, len)| cram::crai::Record::new(rid, Position::new(start), span, off, lm, len))
                .collect();
            let repo = match &side.reference_fasta {
                None => fasta::Repository::default(),
                Some(text) => {
                    let mut r = fasta::io::Reader::new(&text[..]);
                    let records: Vec<fasta::Record> = r.records().collect::<io::Result<_>>()?;
                    fasta::Repository::new(records)
                }
            };
            let mut r = cram::io::reader::Builder::default().set_reference_sequence_repository(repo).build_from_reader(Cursor::new(data));
            let header = r.read_header()?;
            match what {
                What::Region(name, s, e) => {
                    let region = Region::new(BString::from(name.clone()), interval(*s, *e));
                    let q = r.query(&header, &index, &region)?;
                    drain(q.records(), |rec| {
                        let _ = rec.sequence().len();
                    })
                }
                What::Unmapped => drain(r.query_unmapped(&header, &index)?, |rec| {
                    let _ = rec.sequence().len();
                }),
            }
        }
    }
}

/// What the generator knows about a valid data file.
#[derive(Clone, Debug, Default)]
pub struct DataInfo {
    pub name: String,
    pub len: u64,
    /// (compressed offset, inflated length) of every BGZF member
    pub blocks: Vec<(u64, u64)>,
    pub ref_names: Vec<Vec<u8>>,
    pub ref_lens: Vec<usize>,
    /// CRAM: container offsets
    pub containers: Vec<u64>,
}

fn arb_vpos(rng: &mut Rng, d: &DataInfo) -> u64 {
    let block = |rng: &mut Rng| -> (u64, u64) { if d.blocks.is_empty() { (0, 0) } else { *rng.pick(&d.blocks) } };
    match rng.below(12) {
        0 => 0,
        1 | 2 | 3 => {
            // a position that exists
            let (c, l) = block(rng);
            (c << 16) | rng.below(l.max(1))
        }
        4 | 5 => {
            // start of a block, in-block offset beyond the end of the block
            let (c, l) = block(rng);
            let u = (l + rng.below(3) + u64::from(rng.chance(1, 2)) * rng.below(65536 - l.min(65535))).min(65535);
            (c << 16) | u
        }
        6 => {
            // inside a block's compressed bytes
            let (c, _) = block(rng);
            ((c + 1 + rng.below(40)) << 16) | rng.below(100)
        }
        7 => (d.len << 16) | rng.below(3),
        8 => ((d.len + 1 + rng.skewed(1 << 20)) << 16) | rng.below(65536),
        9 => u64::MAX - rng.below(3),
        10 => (d.len.saturating_sub(28) << 16) | rng.below(3),
        _ => rng.next_u64() >> rng.below(40),
    }
}

fn arb_chunks(rng: &mut Rng, d: &DataInfo) -> Vec<(u64, u64)> {
    let n = match rng.below(5) {
        0 => 0,
        1 | 2 => 1,
        _ => rng.urange(2, 5),
    };
    (0..n)
        .map(|_| {
            let s = arb_vpos(rng, d);
            let e = match rng.below(4) {
                0 => s,
                1 => s.saturating_sub(rng.below(1 << 20)),
                _ => arb_vpos(rng, d).max(if rng.bool() { s } else { 0 }),
            };
            (s, e)
        })
        .collect()
}

fn arb_bin_ids(rng: &mut Rng, min_shift: u8, depth: u8) -> Vec<usize> {
    let nb = if depth <= 10 { ((1usize << (3 * (depth as usize + 1))) - 1) / 7 } else { 37450 };
    let n = match rng.below(4) {
        0 => 0,
        1 => 1,
        _ => rng.urange(2, 12),
    };
    let mut ids: Vec<usize> = if rng.chance(3, 5) { vec![0] } else { vec![] }; // bin 0 overlaps every interval
    ids.extend((0..n).map(|_| match rng.below(6) {
            0 => 0,
            1 => nb.saturating_sub(1),
            2 => nb,     // one past the last bin
            3 => nb + 1, // the metadata pseudo-bin id
            4 => usize::MAX >> rng.below(40),
            _ => {
                // a bin on the path of a small position (where the data is)
                let l = rng.below(depth as u64 + 1) as usize;
                let first = ((1usize << (3 * l)) - 1) / 7;
                let shift = (min_shift as usize + 3 * (depth as usize - l)).min(63);
                first + ((rng.below(200_000) as usize) >> shift)
            }
        }));
    let mut seen = std::collections::HashSet::new();
    ids.retain(|i| seen.insert(*i));
    ids
}

fn arb_name(rng: &mut Rng, d: &DataInfo) -> Vec<u8> {
    match rng.below(8) {
        0..=4 if !d.ref_names.is_empty() => rng.pick(&d.ref_names).clone(),
        5 => vec![],
        6 => {
            let n = rng.urange(1, 12);
            rng.bytes(n)
        }
        _ => b"chrUnknown".to_vec(),
    }
}

fn arb_what(rng: &mut Rng, d: &DataInfo, unmapped_ok: bool) -> What {
    if unmapped_ok && rng.chance(1, 6) {
        return What::Unmapped;
    }
    let max = d.ref_lens.iter().copied().max().unwrap_or(1000).max(10);
    let pos = |rng: &mut Rng| -> usize {
        match rng.below(8) {
            0 => 0,
            1 => 1,
            2 => max,
            3 => max + 1,
            4 => *rng.pick(&[1usize << 14, (1 << 29) - 1, 1 << 29, (1 << 29) + 1, (1usize << 31) - 1, 1 << 31, (1 << 32) + 5, usize::MAX, usize::MAX - 1, 1 << 44]),
            _ => 1 + rng.usize_below(max),
        }
    };
    let s = pos(rng);
    let e = if rng.chance(1, 5) { 0 } else { pos(rng).max(if rng.chance(4, 5) { s } else { 0 }) };
    What::Region(arb_name(rng, d), s, e)
}

pub fn arb_index(rng: &mut Rng, d: &DataInfo, linear: bool, with_header: bool, header_format: u8) -> IndexSpec {
    let (min_shift, depth) = match rng.below(10) {
        0..=5 => (14u8, 5u8),
        6 => (14, *rng.pick(&[0u8, 1, 6, 9, 10])),
        7 => (*rng.pick(&[0u8, 1, 13, 15, 30, 31, 32, 63, 64, 255]), 5),
        8 => (rng.below(40) as u8, rng.below(11) as u8),
        _ => (14, 5),
    };
    let nrefs = match rng.below(6) {
        0 => 0,
        1 => d.ref_names.len().saturating_sub(1),
        2 => d.ref_names.len() + 1,
        _ => d.ref_names.len(),
    };
    let refs = (0..nrefs)
        .map(|_| {
            let mut r = RefSpec::default();
            for id in arb_bin_ids(rng, min_shift, depth) {
                r.bins.push((id, arb_chunks(rng, d)));
                if !linear && rng.chance(4, 5) {
                    r.binned.push((id, arb_vpos(rng, d)));
                }
            }
            if linear {
                let n = match rng.below(4) {
                    0 => 0,
                    1 => 1,
                    _ => rng.urange(2, 20),
                };
                r.linear = (0..n).map(|_| arb_vpos(rng, d)).collect();
            }
            if rng.chance(1, 2) {
                r.metadata = Some((arb_vpos(rng, d), arb_vpos(rng, d), rng.skewed(u64::MAX - 1), rng.skewed(u64::MAX - 1)));
            }
            r
        })
        .collect();
    let header = if with_header {
        let mut names: Vec<Vec<u8>> = d.ref_names.clone();
        match rng.below(6) {
            0 => names.clear(),
            1 => {
                names.pop();
            }
            2 => {
                let n = rng.urange(0, 9);
                names.push(rng.bytes(n))
            }
            3 => names.reverse(),
            _ => {}
        }
        let mut seen = std::collections::HashSet::new();
        names.retain(|n| seen.insert(n.clone()));
        Some(HeaderSpec {
            format: if rng.chance(3, 4) { header_format } else { rng.below(4) as u8 },
            col_seq: if rng.chance(3, 4) { 1 } else { *rng.pick(&[0usize, 1, 2, 9, 100, usize::MAX >> 33]) },
            col_beg: if rng.chance(3, 4) { if header_format == 0 { 4 } else { 2 } } else { *rng.pick(&[0usize, 1, 2, 4, 9, 100, usize::MAX >> 33]) },
            col_end: if header_format == 0 && rng.chance(3, 4) { Some(5) } else { *rng.pick(&[None, Some(0usize), Some(3), Some(5), Some(100)]) },
            meta: if rng.chance(3, 4) { b'#' } else { rng.below(256) as u8 },
            skip: *rng.pick(&[0u32, 0, 0, 1, 5, 1000, i32::MAX as u32, u32::MAX]),
            names,
        })
    } else {
        None
    };
    IndexSpec {
        min_shift,
        depth,
        linear,
        header,
        refs,
        unplaced: if rng.chance(1, 2) { Some(*rng.pick(&[0u64, 1, 7, u32::MAX as u64 + 1, u64::MAX])) } else { None },
    }
}

/// The seeded probe addressed by `rng` against the data files described by `infos` (indexed by target).
pub fn seeded_probe(rng: &mut Rng, infos: &[Vec<DataInfo>], bytes_of: &dyn Fn(&str) -> Vec<u8>) -> Option<Probe> {
    if rng.chance(1, 6) {
        // BGZF read family: member fields x caller buffer length x reader
        let ds = infos.get(5)?;
        if ds.is_empty() {
            return None;
        }
        let d = rng.pick(ds);
        return seeded_bgzf_read(rng, d, &bytes_of(&d.name));
    }
    let target = match rng.below(20) {
        0..=3 => 0,
        4..=6 => 1,
        7..=9 => 2,
        10..=11 => 3,
        12 => 4,
        13..=14 => 5,
        15 => 6,
        16..=17 => 7,
        _ => 8,
    };
    let ds = infos.get(target)?;
    if ds.is_empty() {
        return None;
    }
    let d = rng.pick(ds);
    Some(match target {
        0..=4 => {
            let (linear, with_header, fmt) = match target {
                0 => (rng.chance(2, 3), false, 2),
                1 => (rng.chance(1, 4), rng.chance(1, 4), 3),
                2 => (rng.chance(3, 4), !rng.chance(1, 6), 3),
                3 => (rng.chance(1, 4), rng.chance(1, 4), 2),
                _ => (rng.chance(3, 4), !rng.chance(1, 6), 0),
            };
            Probe::Binning { target, data: d.name.clone(), spec: arb_index(rng, d, linear, with_header, fmt), what: arb_what(rng, d, matches!(target, 0 | 3)) }
        }
        5 => Probe::Seek { data: d.name.clone(), vpos: arb_vpos(rng, d) },
        6 => {
            let total: u64 = d.blocks.iter().map(|b| b.1).sum();
            let n = rng.usize_below(6);
            let entries = (0..n)
                .map(|_| {
                    let c = match rng.below(5) {
                        0 => rng.next_u64() >> rng.below(50),
                        1 => d.len + rng.below(100),
                        2 => rng.below(d.len.max(1)),
                        _ => d.blocks.get(rng.usize_below(d.blocks.len().max(1))).map(|b| b.0).unwrap_or(0),
                    };
                    let u = match rng.below(4) {
                        0 => rng.next_u64() >> rng.below(50),
                        1 => 0,
                        _ => rng.below(total.max(1) + 70000),
                    };
                    (c, u)
                })
                .collect();
            let pos = match rng.below(5) {
                0 => 0,
                1 => u64::MAX - rng.below(2),
                2 => total + rng.below(3),
                _ => rng.below(total.max(1) + 70000),
            };
            Probe::Gzi { data: d.name.clone(), entries, pos }
        }
        7 => {
            let big = |rng: &mut Rng| -> u64 {
                match rng.below(6) {
                    0 => 0,
                    1 => 1,
                    2 => u64::MAX - rng.below(2),
                    3 => rng.next_u64() >> rng.below(60),
                    _ => rng.below(d.len.max(1) + 200),
                }
            };
            let n = 1 + rng.usize_below(4);
            let records: Vec<_> = (0..n)
                .map(|i| {
                    let name = if i < d.ref_names.len() && rng.chance(4, 5) { d.ref_names[i].clone() } else { arb_name(rng, d) };
                    (name, big(rng), big(rng), if rng.chance(1, 2) { 60 + rng.below(30) } else { big(rng) }, if rng.chance(1, 2) { 61 + rng.below(30) } else { big(rng) })
                })
                .collect();
            let What::Region(name, start, end) = arb_what(rng, d, false) else { return None };
            let name = if rng.chance(3, 4) { records[rng.usize_below(records.len())].0.clone() } else { name };
            Probe::Fai { data: d.name.clone(), records, name, start, end }
        }
        _ => {
            let n = rng.usize_below(6);
            let off = |rng: &mut Rng| -> u64 {
                match rng.below(8) {
                    0 => 0,
                    1 => 26,
                    2 => d.len + rng.below(10),
                    3 => u64::MAX - rng.below(2),
                    4 => rng.next_u64() >> rng.below(60),
                    5 => rng.below(d.len.max(1)),
                    _ => d.containers.get(rng.usize_below(d.containers.len().max(1))).copied().unwrap_or(26),
                }
            };
            let records = (0..n)
                .map(|_| {
                    let rid = match rng.below(5) {
                        0 => None,
                        1 => Some(d.ref_names.len() + rng.usize_below(3)),
                        2 => Some(usize::MAX >> rng.below(40)),
                        _ => Some(rng.usize_below(d.ref_names.len().max(1))),
                    };
                    let start = *rng.pick(&[0usize, 1, 1, 50, 1000, usize::MAX >> 1, usize::MAX]);
                    let span = *rng.pick(&[0usize, 1, 100, 5000, usize::MAX, usize::MAX >> 1]);
                    (rid, start, span, off(rng), off(rng) >> rng.below(20), off(rng) >> rng.below(20))
                })
                .collect();
            Probe::Crai { data: d.name.clone(), records, what: arb_what(rng, d, true) }
        }
    })
}

#[allow(dead_code)]
fn _assert_traits<R: Read + Seek + BufRead>() {}

// ------------------------------------------------------------------------------------------------
// deterministic BGZF read family: member header / trailer fields x caller buffer lengths x readers

pub const BGZF_FIELDS: [&str; 4] = ["isize", "bsize", "xlen", "slen"];

/// (compressed offset, member length, payload length, uncompressed start) of the members that are mutated: first,
/// middle and last data member and the EOF member.
pub fn bgzf_members(bytes: &[u8]) -> Vec<(u64, u64, u64, u64)> {
    let Ok((w, _)) = vcore::bgzf::walk_prefix(bytes) else { return vec![] };
    let all: Vec<(u64, u64, u64, u64)> = w.members.iter().zip(&w.starts).map(|(m, s)| (m.offset, m.size, m.data.len() as u64, *s)).collect();
    let data: Vec<usize> = (0..all.len()).filter(|&i| all[i].2 > 0).collect();
    let mut pick: Vec<usize> = vec![];
    if let Some(&f) = data.first() {
        pick.push(f);
    }
    if data.len() > 2 {
        pick.push(data[data.len() / 2]);
    }
    if let Some(&l) = data.last() {
        pick.push(l);
    }
    if let Some(e) = (0..all.len()).rev().find(|&i| all[i].2 == 0) {
        pick.push(e);
    }
    pick.sort_unstable();
    pick.dedup();
    pick.into_iter().map(|i| all[i]).collect()
}

/// (field index, offset in the member, width, value) of the structured member mutations.
fn bgzf_field_mutations(size: u64, payload: u64) -> Vec<(usize, u64, usize, u64)> {
    let mut v = vec![];
    for x in [0u64, 1, payload.wrapping_sub(1) & 0xffff_ffff, payload + 1, 65279, 65280, 65281, 65494, 65495, 65496, 65497, 65535, 65536, 65537, 0x7fff_ffff, 0xffff_ffff] {
        v.push((0, size - 4, 4, x));
    }
    for x in [0u64, 1, 17, 25, 26, size.wrapping_sub(2) & 0xffff, size & 0xffff, 0xfffe, 0xffff] {
        v.push((1, 16, 2, x));
    }
    for x in [0u64, 5, 7, 8, 0xffff] {
        v.push((2, 10, 2, x));
    }
    for x in [0u64, 1, 3, 0xffff] {
        v.push((3, 14, 2, x));
    }
    v
}

pub fn det_bgzf_count(bytes: &[u8]) -> usize {
    bgzf_members(bytes).iter().map(|m| bgzf_field_mutations(m.1, m.2).len()).sum::<usize>() * BUF_LENS.len() * BGZF_READERS.len()
}

/// Probe `k` of the deterministic BGZF read enumeration of an item: (slot, probe, description).
pub fn det_bgzf_probe(name: &str, bytes: &[u8], k: usize) -> Option<(usize, Probe, String)> {
    let per = BUF_LENS.len() * BGZF_READERS.len();
    let (mut m, rest) = (k / per, k % per);
    let (bi, ri) = (rest / BGZF_READERS.len(), rest % BGZF_READERS.len());
    for (off, size, payload, ustart) in bgzf_members(bytes) {
        let muts = bgzf_field_mutations(size, payload);
        if m < muts.len() {
            let (fi, rel, width, value) = muts[m];
            let patch = value.to_le_bytes()[..width].to_vec();
            let seek = if ri == 1 || ri == 3 { Some((off, ustart)) } else { None };
            let p = Probe::BgzfRead { data: name.to_string(), patches: vec![((off + rel) as usize, patch)], reader: ri, buf_len: BUF_LENS[bi], seek };
            return Some((
                fi * BGZF_READERS.len() + ri,
                p,
                format!("member at {off} (length {size}, payload {payload}): {} <- {value:#x}, caller buffer {} bytes, {}", BGZF_FIELDS[fi], BUF_LENS[bi], BGZF_READERS[ri]),
            ));
        }
        m -= muts.len();
    }
    None
}

/// The seeded BGZF read probe addressed by `rng`.
pub fn seeded_bgzf_read(rng: &mut Rng, d: &DataInfo, bytes: &[u8]) -> Option<Probe> {
    let members: Vec<(u64, u64, u64, u64)> = vcore::bgzf::walk_prefix(bytes).ok()?.0.members.iter().map(|m| (m.offset, m.size, m.data.len() as u64, 0)).collect();
    if members.is_empty() {
        return None;
    }
    let n = 1 + rng.usize_below(2);
    let mut patches = vec![];
    let mut target = members[0];
    for _ in 0..n {
        let (off, size, payload, _) = *rng.pick(&members);
        target = (off, size, payload, 0);
        let muts = bgzf_field_mutations(size, payload);
        match rng.below(10) {
            0..=6 => {
                let (_, rel, width, value) = *rng.pick(&muts);
                patches.push(((off + rel) as usize, value.to_le_bytes()[..width].to_vec()));
            }
            7 => {
                // any header / trailer field, hostile random value
                let (rel, width) = *rng.pick(&[(2u64, 1usize), (3, 1), (10, 2), (12, 2), (14, 2), (16, 2), (size - 8, 4), (size - 4, 4)]);
                let v = rng.next_u64() >> rng.below(64);
                patches.push(((off + rel) as usize, v.to_le_bytes()[..width].to_vec()));
            }
            _ => {
                // a byte of the compressed data
                let rel = 18 + rng.below(size.saturating_sub(26).max(1));
                patches.push(((off + rel) as usize, vec![rng.below(256) as u8]));
            }
        }
    }
    let buf_len = if rng.chance(3, 4) { *rng.pick(&BUF_LENS) } else { 1 + rng.usize_below(140_000) };
    let reader = rng.usize_below(BGZF_READERS.len());
    let seek = if reader == 1 || reader == 3 || rng.chance(1, 6) {
        let (off, ..) = if rng.chance(1, 2) { target } else { *rng.pick(&members) };
        let u = d.blocks.iter().take_while(|b| b.0 < off).map(|b| b.1).sum();
        Some((off, u))
    } else {
        None
    };
    Some(Probe::BgzfRead { data: d.name.clone(), patches, reader, buf_len, seek })
}
