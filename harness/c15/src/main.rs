//! C15 — stub (to be implemented).

fn main() {
    eprintln!("c15: not implemented");
    std::process::exit(2);
}
