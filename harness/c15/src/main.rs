//! C15 — corrupt or hostile input is reported as an error, never a panic (abort, stack overflow, endless loop).
//!
//! See the `rule` text in `main` and `/verif/DESIGN.md` §6/§12 for what is explored. Every probe (one input handed
//! to one reader API / decoder / query) runs in a forked batch process under a panic hook, a CPU timer and an
//! allocation monitor (`forkrun`, `alloc`); a probe that kills its process is attributed to exactly that probe.

mod alloc;
mod codecs;
mod cramfmt;
mod dbgfmt;
mod forkrun;
mod ledger;
mod minimal;
mod mutate;
mod probe;
mod queries;
mod seeded;
mod sigs;
mod walkers;
mod world;

use std::sync::atomic::Ordering::Relaxed;

use corpus::Variant;
use serde_json::{Value, json};
use vcore::{CaseOut, Ctx, Report, Rng, guard, rng::fnv1a, run_cases};

use crate::{
    forkrun::{Limits, OC_NAMES, ProbeOut},
    mutate::{Layer, SUBST_NAMES},
    probe::{Probe, variant_name},
    world::World,
};

#[global_allocator]
static GLOBAL: alloc::Mon = alloc::Mon;

#[derive(Clone, Debug)]
enum Case {
    /// every item of the deterministic corpus, unmutated, every reader API: must read to END; measures the CPU
    /// time of the slowest valid input
    Baseline,
    /// stored witnesses of the known findings (`findings/C15-witness-*.json`)
    Witnesses,
    /// probes `from..to` of the deterministic enumeration of (item, layer)
    Det { item: usize, layer: Layer, from: usize, to: usize },
    /// probes `from..to` of the deterministic enumeration of a valid codec stream
    DetCodec { enc: usize, from: usize, to: usize },
    /// seeded structured mutations of corpus files: mutations `from..from+n` of the stream, every reader API each
    SeededRead { from: u64, n: usize },
    SeededCodec { from: u64, n: usize },
    SeededQuery { from: u64, n: usize },
    /// probes `from..to` of the deterministic BGZF read enumeration of a BGZF item (member header / trailer fields x
    /// caller buffer lengths around the direct-read thresholds x readers)
    DetBgzf { item: usize, from: usize, to: usize },
}

fn case_json(w: &World, c: &Case) -> Value {
    match c {
        Case::Baseline => json!({"case": "baseline"}),
        Case::Witnesses => json!({"case": "stored-witnesses"}),
        Case::Det { item, layer, from, to } => json!({"case": "det", "item": w.items[*item].item.name, "layer": layer.name(), "from": from, "to": to}),
        Case::DetCodec { enc, from, to } => json!({"case": "det-codec", "encoding": w.det_encodings[*enc].label, "from": from, "to": to}),
        Case::SeededRead { from, n } => json!({"case": "seeded-read", "from": from, "n": n}),
        Case::SeededCodec { from, n } => json!({"case": "seeded-codec", "from": from, "n": n}),
        Case::SeededQuery { from, n } => json!({"case": "seeded-query", "from": from, "n": n}),
        Case::DetBgzf { item, from, to } => json!({"case": "det-bgzf-read", "item": w.items[*item].item.name, "from": from, "to": to}),
    }
}

/// The readers a mutated file of this kind is handed to: every transcript variant, plus the Debug-formatting walk.
fn apis(kind: corpus::Kind) -> Vec<Option<Variant>> {
    let mut v: Vec<Option<Variant>> = kind.variants().iter().map(|v| Some(*v)).collect();
    if kind == corpus::Kind::Crai {
        // `read_index()` (not listed by the corpus because it failed on every multi-record index before fix e4aaf15)
        v.push(Some(Variant::Eager));
    }
    if dbgfmt::applies(kind) {
        v.push(None);
    }
    v
}

fn api_name(a: Option<Variant>) -> &'static str {
    a.map(variant_name).unwrap_or("debug-fmt")
}

fn read_api_probe(kind: corpus::Kind, api: Option<Variant>, bytes: Vec<u8>, side_item: &str) -> Probe {
    match api {
        Some(variant) => Probe::Read { kind, variant, bytes, side_item: side_item.to_string() },
        None => Probe::DebugFmt { kind, bytes, side_item: side_item.to_string() },
    }
}

const STREAM_READ: u64 = 0x5EED_0001;
const STREAM_CODEC: u64 = 0x5EED_0002;
const STREAM_QUERY: u64 = 0x5EED_0003;

fn gen_cases(ctx: &Ctx, w: &World) -> Vec<Case> {
    let mut cases = vec![Case::Baseline, Case::Witnesses];
    let only = ctx.param("only");
    if ctx.param("nodet").is_none() {
        for (i, it) in w.items.iter().enumerate() {
            if let Some(o) = only {
                if !it.item.name.contains(o) {
                    continue;
                }
            }
            for &layer in &it.layers {
                let n = w.det_probe_count(i, layer);
                let batch = w.det_batch_size(i, layer);
                let mut from = 0;
                while from < n {
                    let to = (from + batch).min(n);
                    cases.push(Case::Det { item: i, layer, from, to });
                    from = to;
                }
            }
        }
        for (i, it) in w.items.iter().enumerate() {
            if it.item.kind != corpus::Kind::Bgzf || only.map(|o| !it.item.name.contains(o)).unwrap_or(false) {
                continue;
            }
            let n = queries::det_bgzf_count(&it.item.bytes);
            let batch = (3_000_000 / (it.item.bytes.len() + 3000)).clamp(100, 2000);
            let mut from = 0;
            while from < n {
                let to = (from + batch).min(n);
                cases.push(Case::DetBgzf { item: i, from, to });
                from = to;
            }
        }
        if only.is_none() || only == Some("codec") {
            for (i, e) in w.det_encodings.iter().enumerate() {
                let n = e.bytes.len() * 7;
                let mut from = 0;
                while from < n {
                    let to = (from + 4000).min(n);
                    cases.push(Case::DetCodec { enc: i, from, to });
                    from = to;
                }
            }
        }
    }
    if only.is_none() && ctx.param("noseeded").is_none() {
        // `cases` = number of seeded mutated files (each goes to every reader API of its kind)
        let n_read = ctx.budget("cases", 40_000, 1_500_000);
        let n_codec = ctx.budget("codec_cases", 40_000, 1_000_000);
        let n_query = ctx.budget("query_cases", 24_000, 600_000);
        for (total, per, mk) in [
            (n_read, 150usize, (|from, n| Case::SeededRead { from, n }) as fn(u64, usize) -> Case),
            (n_codec, 3000, |from, n| Case::SeededCodec { from, n }),
            (n_query, 400, |from, n| Case::SeededQuery { from, n }),
        ] {
            let mut from = 0u64;
            while from < total {
                let n = per.min((total - from) as usize);
                cases.push(mk(from, n));
                from += n as u64;
            }
        }
    }
    cases
}

/// The seeded mutated file number `m`: (item index in the seeded corpus, mutation).
fn seeded_read(ctx: &Ctx, w: &World, m: u64) -> (usize, seeded::Mutated) {
    let mut rng = Rng::new(ctx.seed, STREAM_READ, m);
    // small items more often than large ones (cost), every kind equally often
    let kinds: Vec<corpus::Kind> = {
        let mut k: Vec<corpus::Kind> = w.seeded_items.iter().map(|p| p.item.kind).collect();
        k.sort();
        k.dedup();
        k
    };
    let kind = *rng.pick(&kinds);
    // half of the time a minimal item of the kind (uniform), otherwise a corpus item (small ones more often)
    let minimal: Vec<usize> =
        w.seeded_items.iter().enumerate().filter(|(_, p)| p.item.kind == kind && !p.item.bytes.is_empty() && p.item.name.contains("/min-")).map(|(i, _)| i).collect();
    if !minimal.is_empty() && rng.chance(1, 2) {
        let pick = *rng.pick(&minimal);
        let mu = seeded::mutate_item(&w.seeded_items[pick], &mut rng);
        return (pick, mu);
    }
    let of_kind: Vec<usize> =
        w.seeded_items.iter().enumerate().filter(|(_, p)| p.item.kind == kind && !p.item.bytes.is_empty() && !p.item.name.contains("/min-")).map(|(i, _)| i).collect();
    let weights: Vec<u64> = of_kind.iter().map(|&i| 1 + 200_000 / (w.seeded_items[i].item.bytes.len() as u64 + 1500)).collect();
    let total: u64 = weights.iter().sum();
    let mut x = rng.below(total.max(1));
    let mut pick = of_kind[0];
    for (k, &i) in of_kind.iter().enumerate() {
        if x < weights[k] {
            pick = i;
            break;
        }
        x -= weights[k];
    }
    let mu = seeded::mutate_item(&w.seeded_items[pick], &mut rng);
    (pick, mu)
}

/// CPU budget of a probe whose entry point (`<kind>:<api>`, `codec:..`, `query:..`) already hung `ledger::FULL`
/// times in this run. Checked at the end of the run against 200x the slowest valid input of the kind.
fn short_budget_s(entry: &str, quick: bool) -> f64 {
    let kind = entry.split(':').next().unwrap_or("");
    let slow_kind = matches!(kind, "vcf" | "vcfgz" | "bcf" | "bcfraw");
    match (quick, slow_kind) {
        (true, true) => 10.0,
        (true, false) => 8.0,
        (false, true) => 70.0,
        (false, false) => 30.0,
    }
}

fn panic_violation(p: &guard::PanicInfo, what: &str, wit: Value) -> (String, String, Value) {
    let sig = sigs::site_sig(p);
    let sig = if cfg!(debug_assertions) && !sigs::known_rel().contains(&format!("panic:{sig}")) { format!("profile=chk:panic:{sig}") } else { format!("panic:{sig}") };
    (sig, format!("panic `{}` at {}:{} — {what}", p.message.chars().take(300).collect::<String>(), p.file, p.line), wit)
}

fn run_case(ctx: &Ctx, w: &World, idx: u64, c: &Case) -> CaseOut {
    let mut o = CaseOut::new();
    let wall0 = std::time::Instant::now();
    let budget = ctx.param("cpu_budget_s").and_then(|s| s.parse().ok()).unwrap_or(if ctx.quick() { 30.0 } else { 90.0 });
    forkrun::PROBE_BUDGET_S.store(budget as u64, Relaxed);
    let quick = ctx.quick();
    let limits = Limits { cpu_budget_s: budget, short_budget_s: short_budget_s("", quick), rlimit_as: ctx.budget("rlimit_as_mib", 6144, 6144) << 20 };
    let errfile = ctx.work.join(format!("batch-{}-{idx}.stderr", std::process::id()));
    // one generic runner: probe k of the case -> (slot, Probe, description)
    let run_generic = |n: usize, slot_names: Vec<String>, prefix: String, make: &dyn Fn(usize) -> (usize, Probe, String)| -> (String, Vec<String>, forkrun::BatchOut) {
        let run_one = |k: usize| -> ProbeOut {
            // a panic of the generator itself is a harness defect: say so instead of dying
            let made = std::panic::catch_unwind(std::panic::AssertUnwindSafe(|| make(k)));
            let Ok((slot, p, what)) = made else {
                return ProbeOut { slot: 46, oc: forkrun::OC_FATAL, violation: Some(("harness:probe-generator-panicked".into(), format!("the generator of probe {k} panicked (harness defect, not a C15 finding)"), Value::Null)) };
            };
            // the run-wide hang ledger bounds what a defect that makes many probes hang can cost
            let entry = p.entry();
            match ledger::decide(&entry) {
                ledger::Decision::Skip => return ProbeOut { slot, oc: forkrun::OC_SKIPPED, violation: None },
                ledger::Decision::Short => {
                    let s = short_budget_s(&entry, quick);
                    if let Some(sh) = alloc::shared() {
                        sh.short_budget.store(1, Relaxed);
                    }
                    forkrun::PROBE_BUDGET_S.store(s as u64, Relaxed);
                    forkrun::set_timer(s);
                }
                ledger::Decision::Normal => forkrun::PROBE_BUDGET_S.store(budget as u64, Relaxed),
            }
            match p.run(w) {
                Ok(oc) => ProbeOut { slot, oc, violation: None },
                Err(pi) => ProbeOut { slot, oc: forkrun::OC_PANIC, violation: Some(panic_violation(&pi, &format!("{}; {what}", p.describe()), json!({"probe": p.to_json(20_000), "how": what}))) },
            }
        };
        let describe = |k: usize| match std::panic::catch_unwind(std::panic::AssertUnwindSafe(|| make(k))) {
            Ok((slot, p, what)) => (slot, p.entry(), format!("{}; {what}", p.describe()), json!({"probe": p.to_json(20_000), "how": what})),
            Err(_) => (46, "harness".to_string(), format!("generator of probe {k} panicked"), Value::Null),
        };
        (prefix, slot_names, forkrun::run_batch(n, &limits, &errfile, &run_one, &describe))
    };
    let (prefix, slot_names, batch): (String, Vec<String>, forkrun::BatchOut) = match c {
        Case::Baseline => {
            let n = w.items.len();
            let run_one = |k: usize| -> ProbeOut {
                let it = &w.items[k];
                let mut worst = forkrun::OC_END;
                let mut violation = None;
                for api in apis(it.item.kind) {
                    let p = read_api_probe(it.item.kind, api, it.item.bytes.clone(), &it.item.name);
                    let t0 = guard::thread_cpu_s();
                    let r = p.run(w);
                    let dt = ((guard::thread_cpu_s() - t0) * 1e6) as u64;
                    if let Some(sh) = alloc::shared() {
                        sh.max_valid_cpu_us.fetch_max(dt, Relaxed);
                        sh.max_valid_live_heap.fetch_max(alloc::peak_live(), Relaxed);
                        if let Some(ki) = corpus::Kind::ALL.iter().position(|x| *x == it.item.kind) {
                            sh.max_valid_by_kind[ki.min(alloc::KINDS - 1)].fetch_max(dt, Relaxed);
                        }
                        if api.is_none() {
                            // slowest Debug call on a valid record
                            let d = sh.max_debug_call_us.load(Relaxed);
                            sh.max_valid_debug_call_us.fetch_max(d, Relaxed);
                        }
                    }
                    match r {
                        Ok(oc) if oc == forkrun::OC_END => {}
                        Ok(oc) => {
                            worst = oc;
                            violation = Some((
                                format!("harness:valid-item-not-read-to-end:{}:{}", it.item.kind.name(), api_name(api)),
                                format!("the unmutated corpus item {} does not read to END ({}); a corpus/harness problem, not a C15 finding", it.item.name, OC_NAMES[oc]),
                                Value::Null,
                            ));
                        }
                        Err(pi) => {
                            worst = forkrun::OC_PANIC;
                            violation = Some(panic_violation(&pi, &format!("{} on the VALID corpus item {}", p.describe(), it.item.name), json!({"item": it.item.name})));
                        }
                    }
                }
                ProbeOut { slot: 0, oc: worst, violation }
            };
            let describe = |k: usize| (0usize, format!("{}:valid-input", w.items[k].item.kind.name()), format!("valid item {}", w.items[k].item.name), json!({"item": w.items[k].item.name}));
            ("valid".to_string(), vec!["all-apis".to_string()], forkrun::run_batch(n, &limits, &errfile, &run_one, &describe))
        }
        Case::Witnesses => {
            // slot 0 = the witness still fails with its stored signature, 1 = it fails differently, 2 = it no longer fails
            let n = w.witnesses.len();
            let run_one = |k: usize| -> ProbeOut {
                let (name, sig, p) = &w.witnesses[k];
                match p.run(w) {
                    Ok(oc) => ProbeOut { slot: 2, oc, violation: None },
                    Err(pi) => {
                        let v = panic_violation(&pi, &format!("{}; stored witness {name}", p.describe()), json!({"probe": p.to_json(20_000), "how": format!("stored witness {name}")}));
                        ProbeOut { slot: if &v.0 == sig { 0 } else { 1 }, oc: forkrun::OC_PANIC, violation: Some(v) }
                    }
                }
            };
            let describe = |k: usize| {
                let (name, sig, p) = &w.witnesses[k];
                // a witness of a hang / abort ends here: slot 0 if the stored signature says so
                (if sig.starts_with("panic:") || sig.starts_with("profile=chk:panic:") { 1 } else { 0 }, p.entry(), format!("{}; stored witness {name}", p.describe()), json!({"probe": p.to_json(20_000), "how": format!("stored witness {name}")}))
            };
            (
                "witness".to_string(),
                vec!["reproduces-stored-signature".into(), "fails-with-another-signature".into(), "no-longer-fails".into()],
                forkrun::run_batch(n, &limits, &errfile, &run_one, &describe),
            )
        }
        Case::Det { item, layer, from, to } => {
            let it = &w.items[*item];
            let apis = apis(it.item.kind);
            let nv = apis.len();
            let cache: std::cell::RefCell<(usize, Vec<u8>)> = std::cell::RefCell::new((usize::MAX, Vec::new()));
            let mut names = vec![];
            let struct_names: Vec<String> = cramfmt::STRUCT_VALUES.iter().zip(cramfmt::ENCODING_TEMPLATES).map(|(a, b)| format!("choice: {a} or encoding {b}")).collect();
            let struct_refs: Vec<&str> = struct_names.iter().map(String::as_str).collect();
            // one slot per type nibble (the matrix has 48 slots): which % 6
            let bcf_names: Vec<String> = mutate::BCF_TYPES.iter().map(|t| format!("descriptor: length {{0,1,2,15}} x type {t}")).collect();
            let bcf_refs: Vec<&str> = bcf_names.iter().map(String::as_str).collect();
            let value_names: &[&str] = match *layer {
                Layer::CramStruct => &struct_refs,
                Layer::BcfTyped => &bcf_refs,
                _ => &SUBST_NAMES,
            };
            for s in value_names {
                for a in &apis {
                    names.push(format!("{s}/{}", api_name(*a)));
                }
            }
            run_generic(to - from, names, format!("{}|{}", it.item.kind.name(), layer.name()), &|k| {
                let k = from + k;
                let (m, vi) = (k / nv, k % nv);
                let (pos, which) = w.det_mutation(*item, *layer, m);
                {
                    let mut c = cache.borrow_mut();
                    if c.0 != m {
                        c.1 = w.det_bytes(*item, *layer, pos, which);
                        c.0 = m;
                    }
                }
                let bytes = cache.borrow().1.clone();
                (
                    (if *layer == Layer::BcfTyped { which % mutate::BCF_TYPES.len() } else { which }) * nv + vi,
                    read_api_probe(it.item.kind, apis[vi], bytes, &it.item.name),
                    format!("input = item {} at layer {}, {}", it.item.name, layer.name(), w.det_describe(*item, *layer, pos, which)),
                )
            })
        }
        Case::DetCodec { enc, from, to } => {
            let e = &w.det_encodings[*enc];
            let names: Vec<String> = SUBST_NAMES.iter().map(|s| s.to_string()).collect();
            run_generic(to - from, names, format!("codec:{}|stream", codecs::CODECS[e.codec]), &|k| {
                let k = from + k;
                let (pos, which) = (k / 7, k % 7);
                let mut b = e.bytes.clone();
                if which == 6 {
                    b.truncate(pos);
                } else {
                    b[pos] = mutate::subst(b[pos], which);
                }
                (which, Probe::Codec { codec: e.codec, bytes: b, size: e.size }, format!("input = valid stream {} with byte {pos} {}", e.label, SUBST_NAMES[which]))
            })
        }
        Case::SeededRead { from, n } => {
            // probe k -> mutation from + k / MAXV, api (k % MAXV) (probes beyond the kind's APIs are skipped cheaply)
            const MAXV: usize = 4;
            let cache: std::cell::RefCell<(u64, usize, Option<seeded::Mutated>)> = std::cell::RefCell::new((u64::MAX, 0, None));
            let names: Vec<String> = seeded::CLASSES.iter().map(|s| s.to_string()).collect();
            run_generic(n * MAXV, names, "seeded-read".into(), &|k| {
                let m = from + (k / MAXV) as u64;
                let vi = k % MAXV;
                {
                    let mut c = cache.borrow_mut();
                    if c.0 != m {
                        let (i, mu) = seeded_read(ctx, w, m);
                        *c = (m, i, Some(mu));
                    }
                }
                let c = cache.borrow();
                let it = &w.seeded_items[c.1];
                let mu = c.2.as_ref().unwrap();
                let apis = apis(it.item.kind);
                if vi >= apis.len() {
                    return (47, Probe::Codec { codec: 8, bytes: vec![], size: 0 }, "padding (kind has fewer reader APIs)".into());
                }
                (
                    mu.class,
                    read_api_probe(it.item.kind, apis[vi], mu.bytes.clone(), &it.item.name),
                    format!("input = item {} (corpus of seed {}) mutated: {} [{}]", it.item.name, ctx.seed, mu.desc, seeded::CLASSES[mu.class]),
                )
            })
        }
        Case::SeededCodec { from, n } => {
            let mut names = vec![];
            for c in codecs::CODECS {
                for i in codecs::INPUT_CLASSES {
                    names.push(format!("{c}/{i}"));
                }
            }
            run_generic(*n, names, "seeded-codec".into(), &|k| {
                let mut rng = Rng::new(ctx.seed, STREAM_CODEC, from + k as u64);
                let p = codecs::seeded_probe(&mut rng);
                (p.codec * codecs::INPUT_CLASSES.len() + p.input_class, Probe::Codec { codec: p.codec, bytes: p.bytes, size: p.size }, p.desc)
            })
        }
        Case::SeededQuery { from, n } => {
            let names: Vec<String> = queries::TARGETS.iter().map(|s| s.to_string()).collect();
            run_generic(*n, names, "seeded-query".into(), &|k| {
                let mut rng = Rng::new(ctx.seed, STREAM_QUERY, from + k as u64);
                let bytes_of = |name: &str| w.items.iter().find(|p| p.item.name == name).map(|p| p.item.bytes.clone()).unwrap_or_default();
                match queries::seeded_probe(&mut rng, &w.data_infos, &bytes_of) {
                    Some(q) => (q.target(), Probe::Query(q), "constructed index / offsets against a valid data file".into()),
                    None => (47, Probe::Codec { codec: 8, bytes: vec![], size: 0 }, "padding (no data file for the target)".into()),
                }
            })
        }
        Case::DetBgzf { item, from, to } => {
            let it = &w.items[*item];
            let mut names = vec![];
            for f in queries::BGZF_FIELDS {
                for r in queries::BGZF_READERS {
                    names.push(format!("{f}/{r}"));
                }
            }
            run_generic(to - from, names, "bgzf-read|member-fields-x-buffer-lengths".into(), &|k| match queries::det_bgzf_probe(&it.item.name, &it.item.bytes, from + k) {
                Some((slot, p, d)) => (slot, Probe::Query(p), format!("input = item {}: {d}", it.item.name)),
                None => (47, Probe::Codec { codec: 8, bytes: vec![], size: 0 }, "padding".into()),
            })
        }
    };
    let _ = std::fs::remove_file(&errfile);
    let part = prefix.split('|').next().unwrap_or("?").to_string();
    fold_batch(&mut o, &prefix, &slot_names, batch);
    let ms = wall0.elapsed().as_millis() as u64;
    o.max("max_case_wall_ms", ms);
    o.count(&format!("sum_case_wall_ms[{}]", match c { Case::Det { .. } => "det".to_string(), Case::DetCodec { .. } => "det-codec".to_string(), Case::DetBgzf { .. } => "det-bgzf-read".to_string(), _ => part }), ms);
    o
}

fn fold_batch(o: &mut CaseOut, prefix: &str, slot_names: &[String], b: forkrun::BatchOut) {
    let mut total = 0;
    for (i, row) in b.matrix.iter().enumerate() {
        let rowsum: u64 = row.iter().sum();
        if rowsum == 0 || i == 47 {
            continue;
        }
        let sname = slot_names.get(i).map(String::as_str).unwrap_or("?");
        o.count(&format!("probes[{prefix}|{}]", sname.split('/').next().unwrap_or(sname)), rowsum);
        for (j, &n) in row.iter().enumerate() {
            if n > 0 {
                total += n;
                o.count(&format!("outcome[{}]", OC_NAMES[j]), n);
                o.count(&format!("outcome_by_part[{}|{}]", prefix.split('|').next().unwrap_or(prefix), OC_NAMES[j]), n);
                o.fps.push(fnv1a(format!("{prefix}|{sname}|{}", OC_NAMES[j]).as_bytes()));
            }
        }
    }
    let resource: u64 = b.matrix.iter().map(|r| r[forkrun::OC_RESOURCE]).sum();
    let skipped: u64 = b.matrix.iter().map(|r| r[forkrun::OC_SKIPPED]).sum();
    // probes that ended in a refused allocation, and probes that were not run, are not evaluations
    o.evaluations = total - resource - skipped;
    o.count("probes_skipped_after_repeated_hang", skipped);
    for (ki, us) in b.max_valid_by_kind.iter().enumerate() {
        if *us > 0 {
            if let Some(k) = corpus::Kind::ALL.get(ki) {
                o.max(&format!("max_valid_case_cpu_us_by_kind[{}]", k.name()), *us);
            }
        }
    }
    o.count("batch_process_forks", b.forks);
    o.count("allocations_observed_ge_observe_threshold", b.observed_big);
    o.count("allocations_refused_resource_limit", resource);
    o.count("allocations_refused_growth_of_large_buffer", b.growth_refused);
    o.count("allocations_refused_heap_held_by_one_probe_above_cap", b.live_cap_refused);
    o.max("max_probe_live_heap_bytes", b.max_probe_live_heap);
    o.max("max_valid_case_live_heap_bytes", b.max_valid_live_heap);
    o.max("max_allocation_request_observed", b.observed_max);
    o.max("max_probe_cpu_us", b.max_probe_cpu_us);
    o.max("max_valid_case_cpu_us", b.max_valid_cpu_us);
    o.max("max_valid_debug_call_us", b.max_valid_debug_call_us);
    if !b.slow.is_empty() {
        // appended by every case process, read back at the end of the run (`slowest_probes` in the evidence)
        if let Some(path) = SLOW_LOG.get() {
            if let Ok(mut f) = std::fs::OpenOptions::new().create(true).append(true).open(path) {
                use std::io::Write;
                for (us, d) in &b.slow {
                    let _ = f.write_all(format!("{}\n", json!([us, d.chars().take(400).collect::<String>()])).as_bytes());
                }
            }
        }
    }
    for (sig, desc, wit) in b.violations {
        o.fps.push(fnv1a(sig.as_bytes()));
        o.violation_with(sig, desc, wit);
    }
    for n in b.notes {
        o.inconclusive.push(n);
    }
    if let Some(r) = b.resource_limited.first() {
        o.sample = Some(json!({"resource_limited_example": r}));
    }
}

static SLOW_LOG: std::sync::OnceLock<std::path::PathBuf> = std::sync::OnceLock::new();

fn main() {
    // the multithreaded BGZF reader uses the global rayon pool, created lazily in each batch process
    if std::env::var("RAYON_NUM_THREADS").is_err() {
        unsafe { std::env::set_var("RAYON_NUM_THREADS", "2") };
    }
    let ctx = Ctx::from_args();
    let ctx = vcore::cases::replay_request(&ctx).map(|r| r.1).unwrap_or(ctx);
    sigs::install_hook();
    sigs::load_known(&ctx);
    if std::env::var("VMON_CHILD").is_err() && ctx.replay.is_none() {
        // the parent of a run starts with an empty hang ledger
        let _ = std::fs::remove_file(ctx.work.join("hang-ledger.bin"));
        let _ = std::fs::remove_file(ctx.work.join("slow-probes.log"));
    }
    let _ = SLOW_LOG.set(ctx.work.join("slow-probes.log"));
    if ctx.param("mode").is_none() {
        ledger::open(&ctx.work);
    }
    // load the symbol tables once per process: forked batch processes inherit the cache (a panic located in a
    // dependency is resolved through a captured backtrace)
    let _ = std::backtrace::Backtrace::force_capture().to_string();
    if let Some(v) = ctx.param("alloc_observe_mib").and_then(|s| s.parse::<usize>().ok()) {
        alloc::OBSERVE.store(v << 20, Relaxed);
    }
    if let Some(v) = ctx.param("alloc_refuse_mib").and_then(|s| s.parse::<usize>().ok()) {
        alloc::REFUSE.store(v << 20, Relaxed);
    }
    if let Some(v) = ctx.param("live_heap_mib").and_then(|s| s.parse::<usize>().ok()) {
        alloc::LIVE_CAP.store(v << 20, Relaxed);
    }
    let mut rep = Report::new(
        "probe = one input handed to one reader API (every corpus transcript variant with the deep accessor walk, plus Debug formatting of lazily read records), \
         codec / integer decoder, or index query. Deterministic part (independent of VERIF_SEED): every stored witness; for every file of the fixed corpus \
         (all 22 kinds) byte positions x {0x00,0xFF,^0x01,^0x80,+1,-1,truncate-here} on the outer bytes, on the inflated payload re-sealed into valid BGZF, and for \
         CRAM with CRC32s re-sealed on the file as written and on its raw-block form (positions: all of them while the estimated cost of an (item, layer) stays \
         below detbudget_s, else the first 600 bytes, +-40 around structural boundaries and a stride); the same for valid streams of every CRAM codec. Seeded part: \
         structured field / record / token / CRAM-model mutations of the VERIF_SEED corpus, arbitrary and mutated streams into every codec decoder, constructed \
         indexes and offset tables queried against valid files. distinct = distinct (part, kind, layer, mutation class, reader API, outcome class) cells plus \
         distinct violation signatures; non-trivial = all. A probe that ends in a refused allocation is not an evaluation.",
    );
    rep.assumptions.push(format!(
        "no expectation on Ok vs Err; a single allocation request >= {} MiB, the growth of a buffer that already holds >= {} MiB, or any request while the probe already holds {} MiB of heap (blocks of any size, allocated minus freed since the probe started), is refused and counted as a resource limit (inconclusive, never pass or fail: the property does not bound memory, and the CPU time that touching gigabytes costs depends on the memory the machine has free); hang = a probe that exceeds its CPU budget (ITIMER_PROF, user+system), budgets are checked against 200x the slowest valid input of the same run, the heap cap against 16x the largest heap a valid input held",
        alloc::REFUSE.load(Relaxed) >> 20,
        alloc::RUNAWAY_OLD.load(Relaxed) >> 20,
        alloc::LIVE_CAP.load(Relaxed) >> 20
    ));
    rep.assumptions.push("panics raised inside harness code by a value a noodles accessor returned (e.g. collect() on an iterator whose size_hint is absurd) are attributed to the accessor".into());
    if ctx.param("mode") == Some("genfixtures") {
        // writes the minimal CRAM fixtures (block order of the CRAM writer differs from process to process, so the
        // deterministic part uses stored bytes); keeps a candidate only if it reads back to END
        let dir = std::path::Path::new(ctx.param("dir").expect("dir="));
        for (name, model) in minimal::cram_fixture_models() {
            match minimal::cram_fresh(&model) {
                Some(bytes) => {
                    let side = corpus::Side { reference_fasta: Some(b">s\nACGTACGTAC\n".to_vec()), ..Default::default() };
                    let ok = corpus::Kind::Cram.variants().iter().all(|v| matches!(probe::read_probe(corpus::Kind::Cram, *v, &bytes, &side), Ok(oc) if oc == forkrun::OC_END));
                    println!("{name}: {} bytes, reads to END: {ok}", bytes.len());
                    std::fs::write(dir.join(format!("{name}.cram")), if ok { &bytes[..] } else { &[][..] }).unwrap();
                }
                None => println!("{name}: the CRAM writer rejected the model"),
            }
        }
        std::process::exit(0);
    }
    if ctx.param("mode") == Some("codec-scan") {
        // diagnosis: the seeded codec probes `from..from+n` of this seed, one line each (index, CPU time, outcome,
        // description), each in its own forked process under the run's allocation monitor; `codec=` filters,
        // `min_ms=` prints only probes at least that slow, `dump=<dir>` stores the bytes of the printed ones
        let from: u64 = ctx.param("from").and_then(|s| s.parse().ok()).unwrap_or(0);
        let n: u64 = ctx.param("n").and_then(|s| s.parse().ok()).unwrap_or(3000);
        let min_ms: f64 = ctx.param("min_ms").and_then(|s| s.parse().ok()).unwrap_or(0.0);
        let budget: f64 = ctx.param("cpu_budget_s").and_then(|s| s.parse().ok()).unwrap_or(30.0);
        let limits = Limits { cpu_budget_s: budget, short_budget_s: 3.0, rlimit_as: 6144 << 20 };
        let errfile = ctx.work.join(format!("scan-{}.stderr", std::process::id()));
        for m in from..from + n {
            let mut rng = Rng::new(ctx.seed, STREAM_CODEC, m);
            let p = codecs::seeded_probe(&mut rng);
            if ctx.param("codec").map(|c| c != codecs::CODECS[p.codec]).unwrap_or(false) {
                continue;
            }
            let run_one = |_k: usize| -> ProbeOut {
                let _armed = alloc::Armed::new();
                match guard::catch(|| codecs::decode(p.codec, &p.bytes, p.size)) {
                    Ok(Ok(_)) => ProbeOut { slot: 0, oc: forkrun::OC_END, violation: None },
                    Ok(Err(_)) => ProbeOut { slot: 0, oc: forkrun::OC_ERR_OTHER, violation: None },
                    Err(pi) => ProbeOut { slot: 0, oc: forkrun::OC_PANIC, violation: Some((format!("panic:{}", pi.sig), String::new(), Value::Null)) },
                }
            };
            let describe = |_k: usize| (0usize, format!("codec:{}", codecs::CODECS[p.codec]), p.desc.clone(), Value::Null);
            let wall = std::time::Instant::now();
            let b = forkrun::run_batch(1, &limits, &errfile, &run_one, &describe);
            let wall_ms = wall.elapsed().as_secs_f64() * 1e3;
            let ms = b.max_probe_cpu_us as f64 / 1e3;
            if ms.max(wall_ms) < min_ms {
                continue;
            }
            let oc = if let Some((sig, _, _)) = b.violations.first() {
                sig.clone()
            } else if let Some(r) = b.resource_limited.first() {
                format!("resource-limit ({})", r.rsplit(": ").next().unwrap_or(""))
            } else {
                OC_NAMES[(0..OC_NAMES.len()).find(|&j| b.matrix[0][j] > 0).unwrap_or(forkrun::OC_ERR_OTHER)].to_string()
            };
            println!("{m}\tcpu {ms:.3} ms\twall {wall_ms:.1} ms\t{} B\tfnv={:016x}\t{oc}\t{}", p.bytes.len(), fnv1a(&p.bytes), p.desc);
            if let Some(d) = ctx.param("dump") {
                let _ = std::fs::write(std::path::Path::new(d).join(format!("codec-{m}.bin")), &p.bytes);
            }
        }
        let _ = std::fs::remove_file(&errfile);
        std::process::exit(0);
    }
    let w = World::build(&ctx);
    if ctx.param("mode") == Some("list") {
        w.list();
        std::process::exit(0);
    }
    if ctx.param("mode") == Some("one") {
        // diagnosis: one probe in-process, no panic guard, no fork
        let name = ctx.param("item").expect("item=");
        let layer = Layer::from_name(ctx.param("layer").unwrap_or("outer")).expect("layer");
        let pos: usize = ctx.param("pos").expect("pos=").parse().unwrap();
        let which = SUBST_NAMES.iter().position(|s| Some(*s) == ctx.param("subst")).expect("subst=");
        let variant = probe::variant_from(ctx.param("variant").unwrap_or("primary"));
        let it = w.items.iter().find(|i| i.item.name == name).expect("item not in the deterministic corpus");
        let bytes = it.mutated(layer, pos, which);
        if let Some(p) = ctx.param("dump") {
            std::fs::write(p, &bytes).unwrap();
        }
        alloc::DIAG_PANIC.store(1, Relaxed);
        alloc::map_shared();
        let _ = std::panic::take_hook();
        let _armed = alloc::Armed::new();
        let t = corpus::transcript_read_variant(it.item.kind, variant, &bytes[..], &it.item.side, true, corpus::DEFAULT_CAP);
        for e in t.iter().rev().take(4).rev() {
            println!("{}", &e[..e.len().min(300)]);
        }
        println!("last error: {:?}", corpus::last_error_message());
        std::process::exit(0);
    }
    if ctx.param("mode") == Some("probe") {
        // diagnosis: a stored probe (witness / replay file) in-process without the panic guard
        let v = vcore::report::read_json(std::path::Path::new(ctx.param("file").expect("file=")));
        let pj = if v["probe"].is_object() { &v["probe"] } else if v["witness"]["probe"].is_object() { &v["witness"]["probe"] } else { &v };
        let p = Probe::from_json(pj).expect("probe json");
        println!("{}", p.describe());
        if ctx.param("catch").is_some() {
            // under the full monitor (forked, CPU timer, allocation limits), exactly as in a run
            let limits = Limits { cpu_budget_s: 20.0, short_budget_s: 3.0, rlimit_as: 6144 << 20 };
            let errfile = ctx.work.join(format!("probe-{}.stderr", std::process::id()));
            let run_one = |_k: usize| -> ProbeOut {
                match p.run(&w) {
                    Ok(oc) => ProbeOut { slot: 0, oc, violation: None },
                    Err(pi) => ProbeOut { slot: 0, oc: forkrun::OC_PANIC, violation: Some(panic_violation(&pi, &p.describe(), Value::Null)) },
                }
            };
            let describe = |_k: usize| (0usize, p.entry(), p.describe(), Value::Null);
            let b = forkrun::run_batch(1, &limits, &errfile, &run_one, &describe);
            let _ = std::fs::remove_file(&errfile);
            if let Some((sig, _, _)) = b.violations.first() {
                println!("{sig}");
            } else if let Some(r) = b.resource_limited.first() {
                println!("outcome: resource-limit ({r})");
            } else {
                let oc = (0..OC_NAMES.len()).find(|&j| b.matrix[0][j] > 0).unwrap_or(forkrun::OC_ERR_OTHER);
                println!("outcome: {}", OC_NAMES[oc]);
            }
        } else {
            alloc::DIAG_PANIC.store(1, Relaxed);
            alloc::map_shared();
            let _ = std::panic::take_hook();
            let r = p.run(&w);
            println!("outcome: {:?}", r.map(|oc| OC_NAMES[oc]).map_err(|p| p.sig));
        }
        std::process::exit(0);
    }
    let cases = gen_cases(&ctx, &w);
    let f = |i: u64| -> CaseOut { run_case(&ctx, &w, i, &cases[i as usize]) };
    run_cases(&ctx, &mut rep, cases.len() as u64, 900.0, &f, &|i| case_json(&w, &cases[i as usize]));
    rep.extra.insert("cases".into(), json!(cases.len()));
    rep.extra.insert("deterministic_corpus_items".into(), json!(w.items.len()));
    rep.extra.insert("stored_witnesses".into(), json!(w.witnesses.len()));
    let budget = ctx.param("cpu_budget_s").and_then(|s| s.parse().ok()).unwrap_or(if ctx.quick() { 30.0 } else { 90.0 });
    let max_valid_ms = rep.counters.get("max_valid_case_cpu_us").copied().unwrap_or(0) as f64 / 1000.0;
    let max_dbg_ms = rep.counters.get("max_valid_debug_call_us").copied().unwrap_or(0) as f64 / 1000.0;
    rep.extra.insert("max_valid_case_cpu_ms".into(), json!(max_valid_ms));
    rep.extra.insert("cpu_budget_per_probe_s".into(), json!(budget));
    rep.extra.insert("cpu_budget_over_slowest_valid_case".into(), json!(if max_valid_ms > 0.0 { budget * 1000.0 / max_valid_ms } else { 0.0 }));
    rep.extra.insert("max_valid_debug_call_ms".into(), json!(max_dbg_ms));
    rep.extra.insert("debug_call_budget_s".into(), json!(w.debug_budget_s));
    {
        // probes that returned after at least 1/100 of the CPU budget, slowest first
        let mut slow: Vec<(u64, String)> = std::fs::read_to_string(ctx.work.join("slow-probes.log"))
            .unwrap_or_default()
            .lines()
            .filter_map(|l| serde_json::from_str::<Value>(l).ok())
            .map(|v| (v[0].as_u64().unwrap_or(0), v[1].as_str().unwrap_or("").to_string()))
            .collect();
        slow.sort_by(|a, b| b.0.cmp(&a.0));
        rep.extra.insert("probes_returned_after_a_100th_of_the_cpu_budget".into(), json!(slow.len()));
        rep.extra.insert("slowest_probes".into(), json!(slow.iter().take(5).map(|(us, d)| json!({"cpu_ms": *us as f64 / 1000.0, "probe": d})).collect::<Vec<_>>()));
    }
    let max_valid_heap = rep.counters.get("max_valid_case_live_heap_bytes").copied().unwrap_or(0);
    rep.extra.insert("live_heap_cap_per_probe_bytes".into(), json!(alloc::LIVE_CAP.load(Relaxed)));
    rep.extra.insert("live_heap_cap_over_largest_valid_case".into(), json!(if max_valid_heap > 0 { alloc::LIVE_CAP.load(Relaxed) as f64 / max_valid_heap as f64 } else { 0.0 }));
    if ctx.replay.is_none() {
        if (alloc::LIVE_CAP.load(Relaxed) as u64) < 16 * max_valid_heap {
            rep.floors_unmet.push(format!("heap cap per probe {} MiB is less than 16x the largest heap a valid input held ({max_valid_heap} bytes)", alloc::LIVE_CAP.load(Relaxed) >> 20));
        }
        if max_valid_ms > 0.0 && budget * 1000.0 < 200.0 * max_valid_ms {
            rep.floors_unmet.push(format!("CPU budget {budget} s is less than 200x the slowest valid case ({max_valid_ms:.1} ms)"));
        }
        if max_dbg_ms > 0.0 && w.debug_budget_s * 1000.0 < 200.0 * max_dbg_ms {
            rep.floors_unmet.push(format!("Debug-call budget {} s is less than 200x the slowest valid Debug call ({max_dbg_ms:.2} ms)", w.debug_budget_s));
        }
        if ctx.param("only").is_none() && ctx.param("nodet").is_none() {
            rep.floor("evaluations", rep.evaluations, 100_000);
            rep.floor("valid items read to END", rep.counters.get("outcome_by_part[valid|end]").copied().unwrap_or(0), w.items.len() as u64);
        }
        // what the hang ledger did: per entry point hangs / probes run under the short budget / probes skipped
        let mut entries: Vec<String> = corpus::Kind::ALL.iter().map(|k| k.name().to_string()).collect();
        entries.extend(codecs::CODECS.iter().map(|c| format!("codec:{c}")));
        entries.extend(queries::TARGETS.iter().map(|t| format!("query:{t}")));
        for e in &entries {
            let (hangs, short, skipped) = ledger::stats(e);
            if hangs > 0 {
                rep.count(&format!("hangs_under_the_probe_budget[{e}]"), hangs);
                rep.count(&format!("probes_run_under_short_budget_after_repeated_hang[{e}]"), short);
                rep.count(&format!("probes_skipped_after_repeated_hang[{e}]"), skipped);
                let sb = short_budget_s(e, ctx.quick());
                let kind = e.split(':').next().unwrap_or("");
                let valid_ms = rep.counters.get(&format!("max_valid_case_cpu_us_by_kind[{kind}]")).copied().unwrap_or(0) as f64 / 1000.0;
                if short > 0 && valid_ms > 0.0 && sb * 1000.0 < 200.0 * valid_ms {
                    rep.inconclusive.push(format!("short budget {sb} s of {e} is less than 200x the slowest valid {kind} input ({valid_ms:.1} ms): probes that ended under it are not conclusive"));
                }
                if skipped > 0 {
                    rep.inconclusive.push(format!("{skipped} probes of {e} were not run because the entry point had hung {hangs} times in this run (not counted as evaluations)"));
                }
            }
        }
        let refused = rep.counters.get("allocations_refused_resource_limit").copied().unwrap_or(0);
        if refused > 0 {
            rep.inconclusive.push(format!(
                "{refused} probes ended in a refused allocation (single request >= {} MiB, growth of a buffer >= {} MiB, more than {} MiB of heap held by one probe, or RLIMIT_AS): resource limit, not counted as evaluations",
                alloc::REFUSE.load(Relaxed) >> 20,
                alloc::RUNAWAY_OLD.load(Relaxed) >> 20,
                alloc::LIVE_CAP.load(Relaxed) >> 20
            ));
        }
    }
    rep.finish(&ctx);
}
