//! C15 — corrupt or hostile input is reported as an error, never a panic (abort, stack overflow, endless loop).
//!
//! See the `rule` text in `main` and `/verif/DESIGN.md` §6/§12 for what is explored. Every probe (one mutated
//! input handed to one reader API) runs in a forked batch process under a panic hook, a CPU timer and an
//! allocation monitor (`forkrun`, `alloc`).

mod alloc;
mod cramfmt;
mod forkrun;
mod mutate;
mod sigs;
mod world;

use std::sync::atomic::Ordering::Relaxed;

use corpus::{Kind, Variant};
use serde_json::{Value, json};
use vcore::{CaseOut, Ctx, Report, guard, rng::fnv1a, run_cases};

use crate::{
    forkrun::{Limits, OC_NAMES, ProbeOut},
    mutate::{Layer, SUBST_NAMES},
    world::World,
};

#[global_allocator]
static GLOBAL: alloc::Mon = alloc::Mon;

#[derive(Clone, Debug)]
enum Case {
    /// every item of the deterministic corpus, unmutated, every reader API: must read to END; measures the CPU
    /// time of the slowest valid input
    Baseline,
    /// probes `from..to` of the deterministic enumeration of (item, layer)
    Det { item: usize, layer: Layer, from: usize, to: usize },
}

fn case_json(w: &World, c: &Case) -> Value {
    match c {
        Case::Baseline => json!({"case": "baseline"}),
        Case::Det { item, layer, from, to } => {
            json!({"case": "det", "item": w.items[*item].item.name, "layer": layer.name(), "from": from, "to": to})
        }
    }
}

pub fn variant_name(v: Variant) -> &'static str {
    match v {
        Variant::Primary => "primary",
        Variant::Eager => "eager",
        Variant::Indexer => "indexer",
    }
}

/// Classifies the end of a transcript.
pub fn outcome_of_transcript(t: &[String]) -> usize {
    match t.last().map(String::as_str) {
        Some("END") => forkrun::OC_END,
        Some("ERR:InvalidData") => forkrun::OC_ERR_INVALID_DATA,
        Some("ERR:UnexpectedEof") => forkrun::OC_ERR_EOF,
        Some("ERR:InvalidInput") => forkrun::OC_ERR_INVALID_INPUT,
        _ => forkrun::OC_ERR_OTHER,
    }
}

/// One reader run under the panic monitor.
pub fn read_probe(kind: Kind, variant: Variant, bytes: &[u8], side: &corpus::Side) -> Result<usize, guard::PanicInfo> {
    guard::catch(|| {
        let t = corpus::transcript_read_variant(kind, variant, bytes, side, true, corpus::DEFAULT_CAP);
        outcome_of_transcript(&t)
    })
}

fn gen_cases(ctx: &Ctx, w: &World) -> Vec<Case> {
    let mut cases = vec![Case::Baseline];
    let only = ctx.param("only");
    for (i, it) in w.items.iter().enumerate() {
        if let Some(o) = only {
            if !it.item.name.contains(o) {
                continue;
            }
        }
        for &layer in &it.layers {
            let n = w.det_probe_count(i, layer);
            let batch = w.det_batch_size(i, layer);
            let mut from = 0;
            while from < n {
                let to = (from + batch).min(n);
                cases.push(Case::Det { item: i, layer, from, to });
                from = to;
            }
        }
    }
    cases
}

fn run_case(ctx: &Ctx, w: &World, idx: u64, c: &Case) -> CaseOut {
    let mut o = CaseOut::new();
    let limits = Limits {
        cpu_budget_s: ctx.param("cpu_budget_s").and_then(|s| s.parse().ok()).unwrap_or(if ctx.quick() { 20.0 } else { 60.0 }),
        rlimit_as: ctx.budget("rlimit_as_mib", 6144, 6144) << 20,
    };
    let errfile = ctx.work.join(format!("batch-{}-{idx}.stderr", std::process::id()));
    let (prefix, slot_names, batch): (String, Vec<String>, forkrun::BatchOut) = match c {
        Case::Baseline => {
            let n = w.items.len();
            let run_one = |k: usize| -> ProbeOut {
                let it = &w.items[k];
                let mut worst = forkrun::OC_END;
                let mut violation = None;
                for &v in it.item.kind.variants() {
                    let t0 = guard::thread_cpu_s();
                    let r = read_probe(it.item.kind, v, &it.item.bytes, &it.item.side);
                    let dt = ((guard::thread_cpu_s() - t0) * 1e6) as u64;
                    if let Some(sh) = alloc::shared() {
                        sh.max_valid_cpu_us.fetch_max(dt, Relaxed);
                    }
                    match r {
                        Ok(oc) if oc == forkrun::OC_END => {}
                        Ok(oc) => {
                            worst = oc;
                            violation = Some((
                                format!("harness:valid-item-not-read-to-end:{}:{}", it.item.kind.name(), variant_name(v)),
                                format!("the unmutated corpus item {} does not read to END ({}); this is a corpus/harness problem, not a C15 finding", it.item.name, OC_NAMES[oc]),
                                Value::Null,
                            ));
                        }
                        Err(p) => {
                            worst = forkrun::OC_PANIC;
                            violation = Some((
                                format!("panic:{}", sigs::site_sig(&p)),
                                format!("reader panicked on the VALID corpus item {} ({}): {} at {}:{}", it.item.name, variant_name(v), p.message, p.file, p.line),
                                json!({"item": it.item.name}),
                            ));
                        }
                    }
                }
                ProbeOut { slot: 0, oc: worst, violation }
            };
            let describe = |k: usize| (0usize, format!("{}:valid-input", w.items[k].item.kind.name()), json!({"item": w.items[k].item.name}));
            ("valid".to_string(), vec!["all-variants".to_string()], forkrun::run_batch(n, &limits, &errfile, &run_one, &describe))
        }
        Case::Det { item, layer, from, to } => {
            let it = &w.items[*item];
            let variants = it.item.kind.variants();
            let nv = variants.len();
            let cache: std::cell::RefCell<(usize, Vec<u8>)> = std::cell::RefCell::new((usize::MAX, Vec::new()));
            let run_one = |k: usize| -> ProbeOut {
                let k = from + k;
                let (m, vi) = (k / nv, k % nv);
                let (pos, which) = w.det_mutation(*item, *layer, m);
                {
                    let mut c = cache.borrow_mut();
                    if c.0 != m {
                        c.1 = w.det_bytes(*item, *layer, pos, which);
                        c.0 = m;
                    }
                }
                let c = cache.borrow();
                let slot = which * nv + vi;
                match read_probe(it.item.kind, variants[vi], &c.1, &it.item.side) {
                    Ok(oc) => ProbeOut { slot, oc, violation: None },
                    Err(p) => ProbeOut {
                        slot,
                        oc: forkrun::OC_PANIC,
                        violation: Some((
                            format!("panic:{}", sigs::site_sig(&p)),
                            format!(
                                "{} reader ({}) panicked: {} at {}:{} — input = item {} at layer {}, byte {} {} (file of {} bytes)",
                                it.item.kind.name(), variant_name(variants[vi]), p.message, p.file, p.line, it.item.name, layer.name(), pos, SUBST_NAMES[which], c.1.len()
                            ),
                            json!({"item": it.item.name, "layer": layer.name(), "pos": pos, "subst": SUBST_NAMES[which], "variant": variant_name(variants[vi]),
                                   "bytes_hex": if c.1.len() <= 6000 { Value::String(vcore::report::hex(&c.1)) } else { Value::Null }}),
                        )),
                    },
                }
            };
            let describe = |k: usize| {
                let k = from + k;
                let (m, vi) = (k / nv, k % nv);
                let (pos, which) = w.det_mutation(*item, *layer, m);
                (
                    which * nv + vi,
                    format!("{}:{}", it.item.kind.name(), variant_name(variants[vi])),
                    json!({"item": it.item.name, "layer": layer.name(), "pos": pos, "subst": SUBST_NAMES[which], "variant": variant_name(variants[vi])}),
                )
            };
            let mut names = vec![];
            for s in SUBST_NAMES {
                for v in variants {
                    names.push(format!("{s}/{}", variant_name(*v)));
                }
            }
            (format!("{}|{}", it.item.kind.name(), layer.name()), names, forkrun::run_batch(to - from, &limits, &errfile, &run_one, &describe))
        }
    };
    let _ = std::fs::remove_file(&errfile);
    fold_batch(&mut o, &prefix, &slot_names, batch);
    o
}

fn fold_batch(o: &mut CaseOut, prefix: &str, slot_names: &[String], b: forkrun::BatchOut) {
    let mut total = 0;
    for (i, row) in b.matrix.iter().enumerate() {
        let rowsum: u64 = row.iter().sum();
        if rowsum == 0 {
            continue;
        }
        let sname = slot_names.get(i).map(String::as_str).unwrap_or("?");
        o.count(&format!("probes[{prefix}|{}]", sname.split('/').next().unwrap_or(sname)), rowsum);
        for (j, &n) in row.iter().enumerate() {
            if n > 0 {
                total += n;
                o.count(&format!("outcome[{}]", OC_NAMES[j]), n);
                o.count(&format!("outcome_by_kind[{}|{}]", prefix.split('|').next().unwrap_or(prefix), OC_NAMES[j]), n);
                o.fps.push(fnv1a(format!("{prefix}|{sname}|{}", OC_NAMES[j]).as_bytes()));
            }
        }
    }
    let resource: u64 = b.matrix.iter().map(|r| r[forkrun::OC_RESOURCE]).sum();
    // probes that ended in a refused allocation are not evaluations
    o.evaluations = total - resource;
    o.count("batch_process_forks", b.forks);
    o.count("allocations_observed_ge_observe_threshold", b.observed_big);
    o.count("allocations_refused_resource_limit", resource);
    o.max("max_allocation_request_observed", b.observed_max);
    o.max("max_probe_cpu_us", b.max_probe_cpu_us);
    o.max("max_valid_case_cpu_us", b.max_valid_cpu_us);
    for (sig, desc, wit) in b.violations {
        o.fps.push(fnv1a(sig.as_bytes()));
        o.violation_with(sig, desc, wit);
    }
    for n in b.notes {
        o.inconclusive.push(n);
    }
    if let Some(r) = b.resource_limited.first() {
        if resource > 0 {
            o.count("resource_limited_examples", 0);
            let _ = r;
        }
    }
}

fn main() {
    let ctx = Ctx::from_args();
    let ctx = vcore::cases::replay_request(&ctx).map(|r| r.1).unwrap_or(ctx);
    sigs::install_hook();
    if let Some(v) = ctx.param("alloc_observe_mib").and_then(|s| s.parse::<usize>().ok()) {
        alloc::OBSERVE.store(v << 20, Relaxed);
    }
    if let Some(v) = ctx.param("alloc_refuse_mib").and_then(|s| s.parse::<usize>().ok()) {
        alloc::REFUSE.store(v << 20, Relaxed);
    }
    let mut rep = Report::new("(rule text filled in below)");
    let w = World::build(&ctx);
    if ctx.param("mode") == Some("list") {
        w.list();
        std::process::exit(0);
    }
    if ctx.param("mode") == Some("one") {
        // diagnosis: one probe in-process, no panic guard, no fork
        let name = ctx.param("item").expect("item=");
        let layer = Layer::from_name(ctx.param("layer").unwrap_or("outer")).expect("layer");
        let pos: usize = ctx.param("pos").expect("pos=").parse().unwrap();
        let which = SUBST_NAMES.iter().position(|s| Some(*s) == ctx.param("subst")).expect("subst=");
        let variant = match ctx.param("variant") {
            Some("eager") => Variant::Eager,
            Some("indexer") => Variant::Indexer,
            _ => Variant::Primary,
        };
        let it = w.items.iter().find(|i| i.item.name == name).expect("item not in the deterministic corpus");
        let bytes = it.mutated(layer, pos, which);
        if let Some(p) = ctx.param("dump") {
            std::fs::write(p, &bytes).unwrap();
        }
        alloc::DIAG_PANIC.store(1, Relaxed);
        alloc::map_shared();
        let _ = std::panic::take_hook();
        let t = corpus::transcript_read_variant(it.item.kind, variant, &bytes[..], &it.item.side, true, corpus::DEFAULT_CAP);
        for e in t.iter().rev().take(4).rev() {
            println!("{}", &e[..e.len().min(300)]);
        }
        println!("last error: {:?}", corpus::last_error_message());
        std::process::exit(0);
    }
    let cases = gen_cases(&ctx, &w);
    let f = |i: u64| -> CaseOut { run_case(&ctx, &w, i, &cases[i as usize]) };
    run_cases(&ctx, &mut rep, cases.len() as u64, 600.0, &f, &|i| case_json(&w, &cases[i as usize]));
    rep.extra.insert("cases".into(), json!(cases.len()));
    rep.finish(&ctx);
}
