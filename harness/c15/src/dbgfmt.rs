//! `Debug` formatting of every lazily read record into a sink that only counts bytes. A `Debug` implementation that
//! drains an iterator which never ends (e.g. one that keeps yielding the same parse error) then spins without
//! allocating, and the CPU timer decides: each `Debug` call of one record runs under its own, smaller budget
//! (`debug_budget_s`, still ≥ 200× the slowest such call on a valid record, which the baseline case measures).
//! The corpus drivers format into a growing `String`, so there the same defect ends in a refused allocation
//! (resource limit, inconclusive) long before any CPU budget.

use std::{
    fmt::{self, Write as _},
    io,
    sync::atomic::Ordering::Relaxed,
};

use corpus::{Kind, Side};
use noodles_bam as bam;
use noodles_bcf as bcf;
use noodles_bed as bed;
use noodles_bgzf as bgzf;
use noodles_fastq as fastq;
use noodles_gff as gff;
use noodles_gtf as gtf;
use noodles_sam as sam;
use noodles_vcf as vcf;

use crate::forkrun;

pub fn applies(kind: Kind) -> bool {
    matches!(
        kind,
        Kind::Sam | Kind::SamGz | Kind::Bam | Kind::BamRaw | Kind::Vcf | Kind::VcfGz | Kind::Bcf | Kind::BcfRaw | Kind::Gff | Kind::Gtf | Kind::Bed | Kind::Fastq
    )
}

struct Count(u64);

impl fmt::Write for Count {
    fn write_str(&mut self, s: &str) -> fmt::Result {
        self.0 += s.len() as u64;
        Ok(())
    }
}

struct Budget {
    debug_s: f64,
    sink: Count,
}

impl Budget {
    fn fmt<T: fmt::Debug>(&mut self, x: &T) {
        // the timer of the probe is replaced by the budget of this one call and re-armed afterwards
        let t0 = vcore::guard::thread_cpu_s();
        let sh = crate::alloc::shared();
        if let Some(sh) = sh {
            sh.in_debug_call.store(1, Relaxed);
        }
        forkrun::set_timer(self.debug_s);
        let _ = write!(self.sink, "{x:?}");
        forkrun::set_timer(forkrun::PROBE_BUDGET_S.load(Relaxed) as f64);
        if let Some(sh) = sh {
            sh.in_debug_call.store(0, Relaxed);
        }
        let dt = ((vcore::guard::thread_cpu_s() - t0) * 1e6) as u64;
        if let Some(sh) = crate::alloc::shared() {
            sh.max_debug_call_us.fetch_max(dt, Relaxed);
        }
    }
}

fn end(r: io::Result<()>) -> usize {
    match r {
        Ok(()) => forkrun::OC_END,
        Err(e) => match e.kind() {
            io::ErrorKind::InvalidData => forkrun::OC_ERR_INVALID_DATA,
            io::ErrorKind::UnexpectedEof => forkrun::OC_ERR_EOF,
            io::ErrorKind::InvalidInput => forkrun::OC_ERR_INVALID_INPUT,
            _ => forkrun::OC_ERR_OTHER,
        },
    }
}

pub fn run(kind: Kind, bytes: &[u8], side: &Side, debug_s: f64) -> usize {
    let mut b = Budget { debug_s, sink: Count(0) };
    let r = (|| -> io::Result<()> {
        match kind {
            Kind::Sam | Kind::SamGz => {
                let src: Box<dyn io::BufRead> = if kind == Kind::Sam { Box::new(bytes) } else { Box::new(bgzf::io::Reader::new(bytes)) };
                let mut r = sam::io::Reader::new(src);
                r.read_header()?;
                let mut rec = sam::Record::default();
                while r.read_record(&mut rec)? != 0 {
                    b.fmt(&rec);
                }
            }
            Kind::Bam | Kind::BamRaw => {
                let src: Box<dyn io::Read> = if kind == Kind::BamRaw { Box::new(bytes) } else { Box::new(bgzf::io::Reader::new(bytes)) };
                let mut r = bam::io::Reader::from(src);
                r.read_header()?;
                let mut rec = bam::Record::default();
                while r.read_record(&mut rec)? != 0 {
                    b.fmt(&rec);
                }
            }
            Kind::Vcf | Kind::VcfGz => {
                let src: Box<dyn io::BufRead> = if kind == Kind::Vcf { Box::new(bytes) } else { Box::new(bgzf::io::Reader::new(bytes)) };
                let mut r = vcf::io::Reader::new(src);
                r.read_header()?;
                let mut rec = vcf::Record::default();
                while r.read_record(&mut rec)? != 0 {
                    b.fmt(&rec);
                }
            }
            Kind::Bcf | Kind::BcfRaw => {
                let src: Box<dyn io::Read> = if kind == Kind::BcfRaw { Box::new(bytes) } else { Box::new(bgzf::io::Reader::new(bytes)) };
                let mut r = bcf::io::Reader::from(src);
                r.read_header()?;
                let mut rec = bcf::Record::default();
                while r.read_record(&mut rec)? != 0 {
                    b.fmt(&rec);
                }
            }
            Kind::Gff => {
                let mut r = gff::io::Reader::new(bytes);
                let mut line = gff::Line::default();
                while r.read_line(&mut line)? != 0 {
                    b.fmt(&line);
                    if let Some(Ok(rec)) = line.as_record() {
                        b.fmt(&rec);
                    }
                }
            }
            Kind::Gtf => {
                let mut r = gtf::io::Reader::new(bytes);
                let mut line = gtf::Line::default();
                while r.read_line(&mut line)? != 0 {
                    if let Some(Ok(rec)) = line.as_record() {
                        b.fmt(&rec);
                    }
                }
            }
            Kind::Bed => {
                macro_rules! go {
                    ($n:literal) => {{
                        let mut r = bed::io::Reader::<$n, _>::new(bytes);
                        let mut rec = bed::Record::<$n>::default();
                        while r.read_record(&mut rec)? != 0 {
                            b.fmt(&rec);
                        }
                    }};
                }
                match side.bed_n {
                    4 => go!(4),
                    5 => go!(5),
                    6 => go!(6),
                    _ => go!(3),
                }
            }
            Kind::Fastq => {
                let mut r = fastq::io::Reader::new(bytes);
                let mut rec = fastq::Record::default();
                while r.read_record(&mut rec)? != 0 {
                    b.fmt(&rec);
                }
            }
            _ => {}
        }
        Ok(())
    })();
    end(r)
}
