//! A self-contained, serialisable probe: what a stored witness (`findings/C15-witness-*.json`) and the witness of a
//! violation consist of.

use corpus::{Kind, Variant};
use serde_json::{Value, json};
use vcore::{
    guard::{self, PanicInfo},
    report::{hex, unhex},
};

use crate::{codecs, forkrun, queries, world::World};

#[derive(Clone, Debug)]
pub enum Probe {
    /// bytes handed to a reader; `side_item` names the corpus item whose `Side` (CRAM reference, BED width) is used
    Read { kind: Kind, variant: Variant, bytes: Vec<u8>, side_item: String },
    /// `Debug` of every lazily read record into a counting sink (see `dbgfmt`)
    DebugFmt { kind: Kind, bytes: Vec<u8>, side_item: String },
    Codec { codec: usize, bytes: Vec<u8>, size: usize },
    Query(queries::Probe),
}

pub fn variant_name(v: Variant) -> &'static str {
    match v {
        Variant::Primary => "primary",
        Variant::Eager => "eager",
        Variant::Indexer => "indexer",
    }
}

pub fn variant_from(s: &str) -> Variant {
    match s {
        "eager" => Variant::Eager,
        "indexer" => Variant::Indexer,
        _ => Variant::Primary,
    }
}

fn io_outcome<T>(r: &std::io::Result<T>) -> usize {
    match r {
        Ok(_) => forkrun::OC_END,
        Err(e) => match e.kind() {
            std::io::ErrorKind::InvalidData => forkrun::OC_ERR_INVALID_DATA,
            std::io::ErrorKind::UnexpectedEof => forkrun::OC_ERR_EOF,
            std::io::ErrorKind::InvalidInput => forkrun::OC_ERR_INVALID_INPUT,
            _ => forkrun::OC_ERR_OTHER,
        },
    }
}

/// Classifies the end of a transcript.
pub fn outcome_of_transcript(t: &[String]) -> usize {
    match t.last().map(String::as_str) {
        Some("END") => forkrun::OC_END,
        Some("ERR:InvalidData") => forkrun::OC_ERR_INVALID_DATA,
        Some("ERR:UnexpectedEof") => forkrun::OC_ERR_EOF,
        Some("ERR:InvalidInput") => forkrun::OC_ERR_INVALID_INPUT,
        _ => forkrun::OC_ERR_OTHER,
    }
}

/// One reader run under the panic monitor.
pub fn read_probe(kind: Kind, variant: Variant, bytes: &[u8], side: &corpus::Side) -> Result<usize, PanicInfo> {
    guard::catch(|| {
        let t = corpus::transcript_read_variant(kind, variant, bytes, side, true, corpus::DEFAULT_CAP);
        outcome_of_transcript(&t)
    })
}

/// Run-length form of a byte string: literal hex strings and `[byte, count]` pairs for runs of at least 64 equal
/// bytes (inputs that provoke deep recursion consist of one long run; plain hex would make every witness huge).
fn rle(b: &[u8]) -> Value {
    let mut out: Vec<Value> = vec![];
    let mut lit: Vec<u8> = vec![];
    let mut i = 0;
    while i < b.len() {
        let mut j = i;
        while j < b.len() && b[j] == b[i] {
            j += 1;
        }
        if j - i >= 64 {
            if !lit.is_empty() {
                out.push(Value::String(hex(&lit)));
                lit.clear();
            }
            out.push(json!([b[i], j - i]));
        } else {
            lit.extend_from_slice(&b[i..j]);
        }
        i = j;
    }
    if !lit.is_empty() {
        out.push(Value::String(hex(&lit)));
    }
    Value::Array(out)
}

fn unrle(v: &Value) -> Option<Vec<u8>> {
    let mut out = vec![];
    for e in v.as_array()? {
        match e {
            Value::String(s) => out.extend(unhex(s)),
            Value::Array(a) => out.extend(std::iter::repeat_n(a.first()?.as_u64()? as u8, a.get(1)?.as_u64()? as usize)),
            _ => return None,
        }
    }
    Some(out)
}

/// Bytes of a stored probe: `bytes_hex` or `bytes_rle`.
fn stored_bytes(v: &Value) -> Option<Vec<u8>> {
    match v["bytes_hex"].as_str() {
        Some(s) => Some(unhex(s)),
        None => unrle(&v["bytes_rle"]),
    }
}

impl Probe {
    /// The reader / decoder / query entry this probe drives (part of hang / abort signatures).
    pub fn entry(&self) -> String {
        match self {
            Probe::Read { kind, variant, .. } => format!("{}:{}", kind.name(), variant_name(*variant)),
            Probe::DebugFmt { kind, .. } => format!("{}:debug-fmt", kind.name()),
            Probe::Codec { codec, .. } => format!("codec:{}", codecs::CODECS[*codec]),
            Probe::Query(q) => format!("query:{}", queries::TARGETS[q.target()]),
        }
    }

    pub fn describe(&self) -> String {
        match self {
            Probe::Read { kind, variant, bytes, .. } => format!("{} reader ({}) on {} bytes", kind.name(), variant_name(*variant), bytes.len()),
            Probe::DebugFmt { kind, bytes, .. } => format!("Debug formatting of the lazily read {} records of {} bytes", kind.name(), bytes.len()),
            Probe::Codec { codec, bytes, size } => format!("{} decoder on {} bytes (size argument {size})", codecs::CODECS[*codec], bytes.len()),
            Probe::Query(q) => q.describe(),
        }
    }

    pub fn to_json(&self, max_hex: usize) -> Value {
        let hx = |b: &Vec<u8>| if b.len() <= max_hex { Value::String(hex(b)) } else { Value::Null };
        let rl = |b: &Vec<u8>| {
            if b.len() <= max_hex {
                return Value::Null;
            }
            let r = rle(b);
            if r.to_string().len() <= 2 * max_hex { r } else { Value::Null }
        };
        match self {
            Probe::Read { kind, variant, bytes, side_item } => {
                json!({"probe": "read", "kind": kind.name(), "variant": variant_name(*variant), "side_item": side_item, "len": bytes.len(), "bytes_hex": hx(bytes), "bytes_rle": rl(bytes)})
            }
            Probe::DebugFmt { kind, bytes, side_item } => {
                json!({"probe": "debugfmt", "kind": kind.name(), "side_item": side_item, "len": bytes.len(), "bytes_hex": hx(bytes), "bytes_rle": rl(bytes)})
            }
            Probe::Codec { codec, bytes, size } => json!({"probe": "codec", "codec": codecs::CODECS[*codec], "size": size, "len": bytes.len(), "bytes_hex": hx(bytes)}),
            Probe::Query(q) => q.to_json(),
        }
    }

    pub fn from_json(v: &Value) -> Option<Probe> {
        match v["probe"].as_str()? {
            "read" => Some(Probe::Read {
                kind: Kind::from_name(v["kind"].as_str()?)?,
                variant: variant_from(v["variant"].as_str().unwrap_or("primary")),
                bytes: stored_bytes(v)?,
                side_item: v["side_item"].as_str().unwrap_or("").to_string(),
            }),
            "debugfmt" => Some(Probe::DebugFmt {
                kind: Kind::from_name(v["kind"].as_str()?)?,
                bytes: stored_bytes(v)?,
                side_item: v["side_item"].as_str().unwrap_or("").to_string(),
            }),
            "codec" => Some(Probe::Codec {
                codec: codecs::CODECS.iter().position(|c| Some(*c) == v["codec"].as_str())?,
                bytes: unhex(v["bytes_hex"].as_str()?),
                size: v["size"].as_u64()? as usize,
            }),
            _ => queries::Probe::from_json(v).map(Probe::Query),
        }
    }

    /// Runs the probe under the panic monitor: outcome class or the panic.
    pub fn run(&self, w: &World) -> Result<usize, PanicInfo> {
        let side;
        let data;
        // everything the probe needs is prepared before the allocation limits are armed
        match self {
            Probe::Read { kind, side_item, .. } | Probe::DebugFmt { kind, side_item, .. } => {
                side = w.side_of(side_item, *kind);
                data = Vec::new();
            }
            Probe::Query(q) => (data, side) = w.data_of(q),
            Probe::Codec { .. } => {
                side = corpus::Side::default();
                data = Vec::new();
            }
        }
        let _armed = crate::alloc::Armed::new();
        match self {
            Probe::Read { kind, variant, bytes, .. } => read_probe(*kind, *variant, bytes, &side),
            Probe::DebugFmt { kind, bytes, .. } => guard::catch(|| crate::dbgfmt::run(*kind, bytes, &side, w.debug_budget_s)),
            Probe::Codec { codec, bytes, size } => guard::catch(|| io_outcome(&codecs::decode(*codec, bytes, (*size).min(codecs::MAX_SIZE)))),
            Probe::Query(q) => guard::catch(|| io_outcome(&queries::run(q, &data, &side))),
        }
    }
}
