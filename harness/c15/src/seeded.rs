//! Seeded part, reader families: structured multi-byte mutations of length / count / id fields, splice /
//! duplicate / delete / swap of records, lines, BGZF members and CRAM blocks / containers, random byte bursts, text
//! token mutations. Every mutation is a pure function of an `Rng`, so a probe is addressable as
//! `(VERIF_SEED, family, case, probe)`.

use corpus::Kind;
use vcore::Rng;

use crate::{
    cramfmt::{self, Cram},
    mutate,
    walkers::{self, Layout},
    world::Prepared,
};

/// Mutation classes = slots of the outcome matrix of the seeded reader families.
pub const CLASSES: [&str; 46] = [
    "field:zero",
    "field:one",
    "field:umax(-1)",
    "field:umax-1(-2)",
    "field:smax",
    "field:smin(negative)",
    "field:plus1",
    "field:minus1",
    "field:random",
    "field:swap-two",
    "record:delete",
    "record:duplicate",
    "record:swap",
    "record:splice",
    "burst:overwrite",
    "burst:insert",
    "burst:delete",
    "text:number",
    "text:token-empty",
    "text:token-delete",
    "text:token-duplicate",
    "text:token-swap",
    "text:special-char",
    "text:long-token",
    "text:join-lines",
    "cram:container-field",
    "cram:block-field",
    "cram:itf8-splice",
    "cram:block-burst",
    "cram:block-delete",
    "cram:block-duplicate",
    "cram:block-swap",
    "cram:container-delete",
    "cram:container-duplicate",
    "cram:container-swap",
    "cram:method-retag",
    "bgzf:member-field",
    "bgzf:member-shuffle",
    "stacked(2-3 mutations)",
    "truncate+garbage",
    "record:long-run-inserted(length-fixed)",
    "last-record:field(+1,-1,x2)",
    "text:last-line-number(+1,-1,x2)",
    "cram:last-container(+1,-1,x2)",
    "cram:header-parameter(encoding maps, slice header)",
    "cram:block-content-id(encoding, slice header, block header)",
];

fn class_index(name: &str) -> usize {
    CLASSES.iter().position(|c| *c == name).unwrap_or(CLASSES.len() - 1)
}

pub struct Mutated {
    pub bytes: Vec<u8>,
    pub class: usize,
    pub desc: String,
}

fn read_le(b: &[u8], off: usize, w: usize) -> u64 {
    let mut v = 0u64;
    for i in (0..w).rev() {
        v = (v << 8) | *b.get(off + i).unwrap_or(&0) as u64;
    }
    v
}

fn write_le(b: &mut [u8], off: usize, w: usize, v: u64) {
    for i in 0..w {
        if let Some(x) = b.get_mut(off + i) {
            *x = (v >> (8 * i)) as u8;
        }
    }
}

/// A hostile value for a field of `w` bytes that currently holds `cur`.
fn special(rng: &mut Rng, w: usize, cur: u64) -> (u64, &'static str) {
    let bits = 8 * w as u32;
    let umax = if bits >= 64 { u64::MAX } else { (1u64 << bits) - 1 };
    let smax = umax >> 1;
    match rng.below(9) {
        0 => (0, "field:zero"),
        1 => (1, "field:one"),
        2 => (umax, "field:umax(-1)"),
        3 => (umax - 1, "field:umax-1(-2)"),
        4 => (smax, "field:smax"),
        5 => (smax + 1, "field:smin(negative)"),
        6 => (cur.wrapping_add(1) & umax, "field:plus1"),
        7 => (cur.wrapping_sub(1) & umax, "field:minus1"),
        _ => {
            let v = match rng.below(4) {
                0 => rng.next_u64(),
                1 => cur.wrapping_mul(2),
                2 => cur / 2,
                _ => rng.skewed(umax.min(u64::MAX - 1)),
            };
            (v & umax, "field:random")
        }
    }
}

fn rng_small(rng: &mut Rng) -> i32 {
    rng.below(200) as i32
}

fn special_i32(rng: &mut Rng, cur: i32) -> (i32, &'static str) {
    let (v, c) = special(rng, 4, cur as u32 as u64);
    (v as u32 as i32, c)
}

fn burst(rng: &mut Rng, b: &mut Vec<u8>) -> &'static str {
    let n = 1 + rng.skewed(24) as usize;
    let at = if b.is_empty() { 0 } else { rng.usize_below(b.len() + 1) };
    match rng.below(3) {
        0 => {
            for i in 0..n {
                if let Some(x) = b.get_mut(at + i) {
                    *x = rng.below(256) as u8;
                }
            }
            "burst:overwrite"
        }
        1 => {
            let ins = rng.bytes(n);
            b.splice(at..at, ins);
            "burst:insert"
        }
        _ => {
            let e = (at + n).min(b.len());
            b.drain(at.min(e)..e);
            "burst:delete"
        }
    }
}

/// One structured mutation of a binary stream with a field / record layout.
fn binary_once(rng: &mut Rng, b: &mut Vec<u8>, l: &Layout) -> (&'static str, String) {
    let nf = l.fields.len();
    let nr = l.records.len();
    let pick = rng.below(100);
    if nr > 0 && nf > 0 && rng.chance(1, 40) {
        // a long run of one byte inside a record whose length prefix is adjusted (BAM block_size, BCF l_shared /
        // l_indiv): deep nesting / recursion / quadratic behaviour in a decoder shows up as a stack overflow or a hang
        let (s, e) = l.records[rng.usize_below(nr)];
        let inside: Vec<_> = l.fields.iter().filter(|f| f.off > s + 8 && f.off < e).collect();
        let prefix_is_bam = l.fields.iter().any(|f| f.off == s && f.name == "bam.block_size");
        let prefix_is_bcf = l.fields.iter().any(|f| f.off == s && f.name == "bcf.l_shared");
        if !inside.is_empty() && (prefix_is_bam || prefix_is_bcf) {
            let at = rng.pick(&inside).off;
            let n = *rng.pick(&[3000usize, 40_000, 300_000]);
            let byte = *rng.pick(&[0xf1u8, 0xf7, 0xf2, 0xff, 0x00, b'B', b'Z', 0x11, 0x80]);
            let cur_shared = read_le(b, s, 4);
            let which = if prefix_is_bcf && at >= s + 8 + cur_shared as usize { s + 4 } else { s };
            let cur = read_le(b, which, 4);
            write_le(b, which, 4, cur + n as u64);
            b.splice(at..at, std::iter::repeat_n(byte, n));
            return ("record:long-run-inserted(length-fixed)", format!("{n} x {byte:#04x} inserted at {at}, length prefix @{which} {cur} -> {}", cur + n as u64));
        }
    }
    if nf > 0 && rng.chance(1, 6) {
        // count +1 / -1, length +1 / -1, x2 on a field of the LAST record (nothing behind it absorbs the error)
        let last_start = l.records.last().map(|r| r.0).unwrap_or(0);
        let mut cands: Vec<_> = l.fields.iter().filter(|f| f.off >= last_start).collect();
        if cands.is_empty() {
            cands = l.fields.iter().rev().take(3).collect();
        }
        let f = **rng.pick(&cands);
        let cur = read_le(b, f.off, f.width);
        let bits = 8 * f.width as u32;
        let umax = if bits >= 64 { u64::MAX } else { (1u64 << bits) - 1 };
        let v = match rng.below(3) {
            0 => cur.wrapping_add(1),
            1 => cur.wrapping_sub(1),
            _ => cur.wrapping_mul(2),
        } & umax;
        write_le(b, f.off, f.width, v);
        return ("last-record:field(+1,-1,x2)", format!("{}@{} {cur:#x} -> {v:#x} (last record starts at {last_start})", f.name, f.off));
    }
    if nf > 0 && pick < 62 {
        let f = l.fields[rng.usize_below(nf)];
        if pick < 6 && nf > 1 {
            // swap the values of two fields of the same width
            let same: Vec<_> = l.fields.iter().filter(|g| g.width == f.width && g.off != f.off).collect();
            if !same.is_empty() {
                let g = **rng.pick(&same);
                let (a, c) = (read_le(b, f.off, f.width), read_le(b, g.off, g.width));
                write_le(b, f.off, f.width, c);
                write_le(b, g.off, g.width, a);
                return ("field:swap-two", format!("swap {}@{} <-> {}@{}", f.name, f.off, g.name, g.off));
            }
        }
        let cur = read_le(b, f.off, f.width);
        if (f.name.ends_with("aux_type") || f.name.ends_with("aux_subtype")) && rng.chance(2, 3) {
            // another VALID type letter: the value behind it is then read with the wrong width
            let v = *rng.pick(b"AcCsSiIfZHB") as u64;
            write_le(b, f.off, 1, v);
            return ("field:random", format!("{}@{} {:?} -> {:?}", f.name, f.off, cur as u8 as char, v as u8 as char));
        }
        let (v, class) = special(rng, f.width, cur);
        write_le(b, f.off, f.width, v);
        return (class, format!("{}@{} {cur:#x} -> {v:#x}", f.name, f.off));
    }
    if nr > 0 && pick < 84 {
        let (s, e) = l.records[rng.usize_below(nr)];
        let (s2, e2) = l.records[rng.usize_below(nr)];
        return match rng.below(4) {
            0 => {
                b.drain(s..e.min(b.len()));
                ("record:delete", format!("delete [{s},{e})"))
            }
            1 => {
                let rec = b[s..e.min(b.len())].to_vec();
                let at = s2.min(b.len());
                b.splice(at..at, rec);
                ("record:duplicate", format!("copy [{s},{e}) to {s2}"))
            }
            2 => {
                if s2 >= e || s >= e2 {
                    let (a, c) = if s < s2 { ((s, e), (s2, e2)) } else { ((s2, e2), (s, e)) };
                    let first = b[a.0..a.1].to_vec();
                    let second = b[c.0..c.1].to_vec();
                    let mid = b[a.1..c.0].to_vec();
                    let mut out = b[..a.0].to_vec();
                    out.extend(second);
                    out.extend(mid);
                    out.extend(first);
                    out.extend_from_slice(&b[c.1..]);
                    *b = out;
                }
                ("record:swap", format!("swap [{s},{e}) and [{s2},{e2})"))
            }
            _ => {
                // first part of one record followed by the last part of another (length prefix untouched)
                let cut1 = s + rng.usize_below((e - s).max(1));
                let cut2 = s2 + rng.usize_below((e2 - s2).max(1));
                let mut out = b[..cut1.min(b.len())].to_vec();
                out.extend_from_slice(&b[cut2.min(b.len())..]);
                *b = out;
                ("record:splice", format!("bytes [..{cut1}) + [{cut2}..)"))
            }
        };
    }
    let c = burst(rng, b);
    (c, "random byte burst".to_string())
}

const NUMBERS: &[&str] = &[
    "0", "1", "-1", "2147483647", "2147483648", "-2147483648", "-2147483649", "4294967295", "4294967296", "536870912", "536870911", "9223372036854775807",
    "9223372036854775808", "18446744073709551615", "18446744073709551616", "99999999999999999999999999", "1e400", "-1e400", "nan", "inf", "-inf", "0x10", "+5", "00000000000000000007", "1.5", ".",
    "65535", "65536", "255", "256",
];

const SPECIAL_CHARS: &[&[u8]] = &[
    b"\t", b"\0", b"\xff", b"\x80", b"%", b"%zz", b"%0", b";", b"=", b",", b":", b"\"", b"\\", b"\r", b"\n", b" ", b"#", b"@", b"*", b"|", b"/", b".", b"<", b">", b"[", b"]", b"+", b"-", b"\xc3", b"\xe2\x82",
    // valid multi-byte UTF-8 (byte offset != character count): U+00DF, U+00E9, U+20AC, U+1F600
    b"\xc3\x9f", b"\xc3\xa9", b"\xe2\x82\xac", b"\xf0\x9f\x98\x80", b"\xc3\x9f", b"\xc3\x9f\xc3\x9f",
    // a carriage return that is NOT part of the line terminator, followed by an empty field
    b"\r\t", b"\r\t", b"\t\r",
];

/// Token boundaries of a line: split at TAB, and below that at `;:,=| ` (sub-tokens).
fn tokens(line: &[u8]) -> Vec<(usize, usize)> {
    let mut v = vec![];
    let mut s = 0;
    for (i, &c) in line.iter().enumerate() {
        if matches!(c, b'\t' | b';' | b':' | b',' | b'=' | b'|' | b' ' | b'\n' | b'\r') {
            if i > s {
                v.push((s, i));
            }
            s = i + 1;
        }
    }
    if s < line.len() {
        v.push((s, line.len()));
    }
    v
}

fn columns(line: &[u8]) -> Vec<(usize, usize)> {
    let mut v = vec![];
    let mut s = 0;
    let end = line.iter().rposition(|&c| c != b'\n' && c != b'\r').map(|p| p + 1).unwrap_or(0);
    for (i, &c) in line[..end].iter().enumerate() {
        if c == b'\t' {
            v.push((s, i));
            s = i + 1;
        }
    }
    v.push((s, end));
    v
}

/// One mutation of a text file.
fn text_once(rng: &mut Rng, b: &mut Vec<u8>) -> (&'static str, String) {
    let l = walkers::lines(b);
    if l.records.is_empty() {
        let c = burst(rng, b);
        return (c, "burst on empty text".into());
    }
    if rng.chance(1, 8) {
        // a number of the LAST line +1 / -1 / x2
        let (ls, le) = *l.records.last().unwrap();
        let line = b[ls..le].to_vec();
        let nums: Vec<(usize, usize)> = tokens(&line).into_iter().filter(|&(s, e)| e - s <= 18 && line[s..e].iter().all(|c| c.is_ascii_digit())).collect();
        if !nums.is_empty() {
            let (s, e) = *rng.pick(&nums);
            let cur: u64 = std::str::from_utf8(&line[s..e]).ok().and_then(|t| t.parse().ok()).unwrap_or(0);
            let v = match rng.below(3) {
                0 => cur + 1,
                1 => cur.saturating_sub(1),
                _ => cur * 2,
            };
            let mut nl = line[..s].to_vec();
            nl.extend_from_slice(v.to_string().as_bytes());
            nl.extend_from_slice(&line[e..]);
            b.splice(ls..le, nl);
            return ("text:last-line-number(+1,-1,x2)", format!("last line: {cur} -> {v}"));
        }
    }
    let pick = rng.below(100);
    // bias towards the first record lines and the last header lines: pick either uniformly or near the header end
    let li = if rng.chance(1, 3) {
        let first_data = l.records.iter().position(|&(s, _)| !matches!(b[s], b'#' | b'@')).unwrap_or(0);
        (first_data + rng.usize_below(4)).min(l.records.len() - 1).saturating_sub(rng.usize_below(2))
    } else {
        rng.usize_below(l.records.len())
    };
    let (ls, le) = l.records[li];
    if pick < 16 {
        let (s2, e2) = l.records[rng.usize_below(l.records.len())];
        return match rng.below(3) {
            0 => {
                b.drain(ls..le);
                ("record:delete", format!("delete line {li}"))
            }
            1 => {
                let rec = b[ls..le].to_vec();
                b.splice(s2..s2, rec);
                ("record:duplicate", format!("copy line {li} to offset {s2}"))
            }
            _ => {
                let cut1 = ls + rng.usize_below((le - ls).max(1));
                let cut2 = s2 + rng.usize_below((e2 - s2).max(1));
                let mut out = b[..cut1].to_vec();
                out.extend_from_slice(&b[cut2..]);
                *b = out;
                ("record:splice", format!("bytes [..{cut1}) + [{cut2}..)"))
            }
        };
    }
    if pick < 22 {
        // remove the line terminator
        let mut e = le;
        while e > ls && matches!(b[e - 1], b'\n' | b'\r') {
            e -= 1;
        }
        b.drain(e..le);
        return ("text:join-lines", format!("line {li} joined with the next"));
    }
    if pick < 30 {
        let c = burst(rng, b);
        return (c, "random byte burst".into());
    }
    let line = b[ls..le].to_vec();
    let use_cols = rng.chance(1, 3);
    let toks = if use_cols { columns(&line) } else { tokens(&line) };
    if toks.is_empty() {
        let c = burst(rng, b);
        return (c, "burst (line without tokens)".into());
    }
    let ti = rng.usize_below(toks.len());
    let (ts, te) = toks[ti];
    let (class, repl): (&'static str, Vec<u8>) = match rng.below(100) {
        0..=39 => ("text:number", rng.pick(NUMBERS).as_bytes().to_vec()),
        40..=47 => ("text:token-empty", vec![]),
        48..=53 => {
            // delete the token together with its delimiter
            let mut nl = line.clone();
            let e = (te + 1).min(nl.len().saturating_sub(1)).max(te);
            nl.drain(ts..e);
            b.splice(ls..le, nl);
            return ("text:token-delete", format!("line {li} token {ti} deleted"));
        }
        54..=59 => {
            let mut t = line[ts..te].to_vec();
            t.push(if use_cols { b'\t' } else { *rng.pick(b";:,=") });
            t.extend_from_slice(&line[ts..te]);
            ("text:token-duplicate", t)
        }
        60..=67 => {
            let tj = rng.usize_below(toks.len());
            let (s2, e2) = toks[tj];
            if tj == ti {
                ("text:token-empty", vec![])
            } else {
                let (a, c) = if ts < s2 { ((ts, te), (s2, e2)) } else { ((s2, e2), (ts, te)) };
                let mut nl = line[..a.0].to_vec();
                nl.extend_from_slice(&line[c.0..c.1]);
                nl.extend_from_slice(&line[a.1..c.0]);
                nl.extend_from_slice(&line[a.0..a.1]);
                nl.extend_from_slice(&line[c.1..]);
                b.splice(ls..le, nl);
                return ("text:token-swap", format!("line {li} tokens {ti} and {tj} swapped"));
            }
        }
        68..=91 => {
            let sc = *rng.pick(SPECIAL_CHARS);
            let mut t = line[ts..te].to_vec();
            let at = rng.usize_below(t.len() + 1);
            if rng.bool() && at < t.len() {
                t.splice(at..at + 1, sc.iter().copied());
            } else {
                t.splice(at..at, sc.iter().copied());
            }
            ("text:special-char", t)
        }
        _ => {
            let unit: Vec<u8> = if te > ts { line[ts..te].to_vec() } else { b"A".to_vec() };
            let reps = *rng.pick(&[300usize, 5000, 70000]) / unit.len().max(1) + 1;
            let mut t = Vec::new();
            for _ in 0..reps {
                t.extend_from_slice(&unit);
            }
            ("text:long-token", t)
        }
    };
    let mut nl = line[..ts].to_vec();
    nl.extend_from_slice(&repl);
    nl.extend_from_slice(&line[te..]);
    b.splice(ls..le, nl);
    (class, format!("line {li} token {ti} <- {} bytes", repl.len()))
}

/// One mutation of a CRAM model.
fn cram_once(rng: &mut Rng, c: &mut Cram) -> (&'static str, String) {
    if c.containers.is_empty() {
        return ("cram:container-field", "no containers".into());
    }
    let nc = c.containers.len();
    if nc > 2 && rng.chance(1, 4) {
        // one integer parameter of the compression header (preservation / data series / tag encoding maps), of a
        // slice header or a block header's content id, on the parsed model: everything enclosing is re-serialised
        let data: Vec<usize> = (1..nc).filter(|&i| !c.containers[i].landmark_blocks.is_empty()).collect();
        if !data.is_empty() {
            let ci = *rng.pick(&data);
            let targets = cramfmt::container_targets(c, ci);
            let ids: Vec<_> = targets.iter().filter(|t| t.1).collect();
            let pick_id = !ids.is_empty() && rng.chance(1, 2);
            if !targets.is_empty() {
                let (t, is_id) = if pick_id { **rng.pick(&ids) } else { *rng.pick(&targets) };
                let d = if rng.chance(3, 4) {
                    let which = rng.usize_below(cramfmt::STRUCT_VALUES.len());
                    format!("{} [{}]", cramfmt::apply_target(c, ci, t, which, None), cramfmt::STRUCT_VALUES[which])
                } else {
                    let base = rng_small(rng);
                    let (v, _) = special_i32(rng, base);
                    cramfmt::apply_target(c, ci, t, 0, Some(v))
                };
                return (if is_id { "cram:block-content-id(encoding, slice header, block header)" } else { "cram:header-parameter(encoding maps, slice header)" }, d);
            }
        }
    }
    if nc > 2 && rng.chance(1, 8) {
        // +1 / -1 / x2 on a count or length of the LAST data container (the one in front of the EOF container)
        let ct = &mut c.containers[nc - 2];
        let step = |rng: &mut Rng, cur: i32| -> i32 {
            match rng.below(3) {
                0 => cur.wrapping_add(1),
                1 => cur.wrapping_sub(1),
                _ => cur.wrapping_mul(2),
            }
        };
        let nb = ct.blocks.len();
        let desc = match rng.below(6) {
            0 => {
                let v = step(rng, ct.n_records);
                let d = format!("last data container n_records {} -> {v}", ct.n_records);
                ct.n_records = v;
                d
            }
            1 => {
                let v = step(rng, ct.n_blocks);
                let d = format!("last data container n_blocks {} -> {v}", ct.n_blocks);
                ct.n_blocks = v;
                d
            }
            2 => {
                let v = step(rng, ct.span);
                let d = format!("last data container span {} -> {v}", ct.span);
                ct.span = v;
                d
            }
            3 if nb > 0 => {
                let bl = &mut ct.blocks[nb - 1];
                let v = step(rng, bl.raw_size);
                let d = format!("last block raw size {} -> {v}", bl.raw_size);
                bl.raw_size = v;
                d
            }
            4 if nb > 0 => {
                let bl = &mut ct.blocks[nb - 1];
                let v = step(rng, bl.data.len() as i32);
                let d = format!("last block stored size {} -> {v}", bl.data.len());
                bl.size_override = Some(v);
                d
            }
            _ if nb > 0 => {
                // an ITF8 of the last slice header (or of the compression header when there is no landmark)
                let bi = ct.landmark_blocks.last().copied().unwrap_or(0).min(nb - 1);
                let bl = &mut ct.blocks[bi];
                let mut offs = vec![];
                let mut p = 0;
                while p < bl.data.len() && offs.len() < 4000 {
                    offs.push(p);
                    match cramfmt::read_itf8(&bl.data, p) {
                        Some((_, n)) => p += n,
                        None => break,
                    }
                }
                if offs.is_empty() {
                    "empty header block".to_string()
                } else {
                    let at = *rng.pick(&offs);
                    let (cur, n) = cramfmt::read_itf8(&bl.data, at).unwrap_or((0, 1));
                    let v = step(rng, cur);
                    let mut enc = Vec::new();
                    cramfmt::write_itf8(&mut enc, v);
                    let e = (at + n).min(bl.data.len());
                    bl.data.splice(at..e, enc);
                    if bl.method == 0 {
                        bl.raw_size = bl.data.len() as i32;
                    }
                    format!("block {bi} (type {}) ITF8 at {at}: {cur} -> {v}", bl.ctype)
                }
            }
            _ => "container without blocks".to_string(),
        };
        return ("cram:last-container(+1,-1,x2)", desc);
    }
    // data containers are more interesting than the header / EOF container
    let ci = if nc > 2 && rng.chance(3, 4) { 1 + rng.usize_below(nc - 2) } else { rng.usize_below(nc) };
    let pick = rng.below(100);
    if pick < 16 {
        let ct = &mut c.containers[ci];
        let which = rng.below(10);
        let desc;
        let class;
        match which {
            0 => {
                let (v, cl) = special_i32(rng, ct.ref_id);
                desc = format!("container {ci} ref_id {} -> {v}", ct.ref_id);
                ct.ref_id = v;
                class = cl;
            }
            1 => {
                let (v, cl) = special_i32(rng, ct.start);
                desc = format!("container {ci} start {} -> {v}", ct.start);
                ct.start = v;
                class = cl;
            }
            2 => {
                let (v, cl) = special_i32(rng, ct.span);
                desc = format!("container {ci} span {} -> {v}", ct.span);
                ct.span = v;
                class = cl;
            }
            3 => {
                let (v, cl) = special_i32(rng, ct.n_records);
                desc = format!("container {ci} n_records {} -> {v}", ct.n_records);
                ct.n_records = v;
                class = cl;
            }
            4 => {
                let (v, cl) = special(rng, 8, ct.counter as u64);
                desc = format!("container {ci} record counter {} -> {}", ct.counter, v as i64);
                ct.counter = v as i64;
                class = cl;
            }
            5 => {
                let (v, cl) = special(rng, 8, ct.bases as u64);
                desc = format!("container {ci} bases {} -> {}", ct.bases, v as i64);
                ct.bases = v as i64;
                class = cl;
            }
            6 => {
                let (v, cl) = special_i32(rng, ct.n_blocks);
                desc = format!("container {ci} n_blocks {} -> {v}", ct.n_blocks);
                ct.n_blocks = v;
                class = cl;
            }
            7 => {
                // landmarks: value, count
                let mut lms: Vec<i32> = ct.landmarks_override.clone().unwrap_or_else(|| {
                    let mut off = 0i32;
                    let mut offs = vec![];
                    for bl in &ct.blocks {
                        offs.push(off);
                        let mut tmp = Vec::new();
                        cramfmt::serialise_block(&mut tmp, bl);
                        off += tmp.len() as i32;
                    }
                    ct.landmark_blocks.iter().map(|&i| offs.get(i).copied().unwrap_or(off)).collect()
                });
                let cl;
                match rng.below(4) {
                    0 if !lms.is_empty() => {
                        let i = rng.usize_below(lms.len());
                        let (v, c2) = special_i32(rng, lms[i]);
                        lms[i] = v;
                        cl = c2;
                    }
                    1 => {
                        lms.push(rng.skewed(100000) as i32);
                        cl = "field:plus1";
                    }
                    2 => {
                        lms.pop();
                        cl = "field:minus1";
                    }
                    _ => {
                        lms.reverse();
                        cl = "field:swap-two";
                    }
                }
                desc = format!("container {ci} landmarks -> {lms:?}");
                ct.landmarks_override = Some(lms);
                class = cl;
            }
            _ => {
                let cur = {
                    let mut n = 0usize;
                    for bl in &ct.blocks {
                        let mut tmp = Vec::new();
                        cramfmt::serialise_block(&mut tmp, bl);
                        n += tmp.len();
                    }
                    n as i32
                };
                let (v, cl) = special_i32(rng, cur);
                desc = format!("container {ci} length {cur} -> {v}");
                ct.length_override = Some(v);
                class = cl;
            }
        }
        let _ = class;
        return ("cram:container-field", desc);
    }
    if pick < 24 {
        return match rng.below(3) {
            0 => {
                c.containers.remove(ci);
                ("cram:container-delete", format!("container {ci} deleted"))
            }
            1 => {
                let ct = c.containers[ci].clone();
                let at = rng.usize_below(nc + 1);
                c.containers.insert(at, ct);
                ("cram:container-duplicate", format!("container {ci} copied to {at}"))
            }
            _ => {
                let cj = rng.usize_below(nc);
                c.containers.swap(ci, cj);
                ("cram:container-swap", format!("containers {ci} and {cj} swapped"))
            }
        };
    }
    let ct = &mut c.containers[ci];
    if ct.blocks.is_empty() {
        return ("cram:block-field", "container without blocks".into());
    }
    let nb = ct.blocks.len();
    // compression header (first block) and slice headers (landmark blocks) more often
    let bi = match rng.below(10) {
        0..=2 => 0,
        3..=5 if !ct.landmark_blocks.is_empty() => *rng.pick(&ct.landmark_blocks),
        6 if !ct.landmark_blocks.is_empty() => (*rng.pick(&ct.landmark_blocks) + 1).min(nb - 1), // core block
        _ => rng.usize_below(nb),
    };
    if pick < 40 {
        let bl = &mut ct.blocks[bi];
        let desc;
        match rng.below(6) {
            0 => {
                let v = *rng.pick(&[0u8, 1, 2, 3, 4, 5, 6, 7, 8, 9, 255]);
                desc = format!("container {ci} block {bi} method {} -> {v}", bl.method);
                bl.method = v;
                return ("cram:method-retag", desc);
            }
            1 => {
                let v = *rng.pick(&[0u8, 1, 2, 3, 4, 5, 6, 255]);
                desc = format!("container {ci} block {bi} content type {} -> {v}", bl.ctype);
                bl.ctype = v;
            }
            2 => {
                let (v, _) = special_i32(rng, bl.cid);
                desc = format!("container {ci} block {bi} content id {} -> {v}", bl.cid);
                bl.cid = v;
            }
            3 | 4 => {
                let (v, _) = special_i32(rng, bl.raw_size);
                desc = format!("container {ci} block {bi} raw size {} -> {v}", bl.raw_size);
                bl.raw_size = v;
            }
            _ => {
                let (v, _) = special_i32(rng, bl.data.len() as i32);
                desc = format!("container {ci} block {bi} stored size {} -> {v}", bl.data.len());
                bl.size_override = Some(v);
            }
        }
        return ("cram:block-field", desc);
    }
    if pick < 72 {
        // replace whatever ITF8 starts at a random offset of the block by a hostile ITF8 value
        let bl = &mut ct.blocks[bi];
        if bl.data.is_empty() {
            return ("cram:itf8-splice", "empty block".into());
        }
        // walk ITF8s from the start so that the offset is (usually) a real field boundary of a header block
        let mut offs = vec![];
        let mut p = 0;
        while p < bl.data.len() && offs.len() < 4000 {
            offs.push(p);
            match cramfmt::read_itf8(&bl.data, p) {
                Some((_, n)) => p += n,
                None => break,
            }
        }
        let at = if rng.chance(4, 5) { *rng.pick(&offs) } else { rng.usize_below(bl.data.len()) };
        let (cur, n) = cramfmt::read_itf8(&bl.data, at).unwrap_or((0, 1));
        let (v, _) = special_i32(rng, cur);
        let mut enc = Vec::new();
        cramfmt::write_itf8(&mut enc, v);
        let e = (at + n).min(bl.data.len());
        bl.data.splice(at..e, enc);
        if bl.method == 0 && rng.chance(3, 4) {
            bl.raw_size = bl.data.len() as i32;
        }
        return ("cram:itf8-splice", format!("container {ci} block {bi} (type {}) ITF8 at {at}: {cur} -> {v}", bl.ctype));
    }
    if pick < 86 {
        let bl = &mut ct.blocks[bi];
        let _ = burst(rng, &mut bl.data);
        if bl.method == 0 && rng.chance(3, 4) {
            bl.raw_size = bl.data.len() as i32;
        }
        return ("cram:block-burst", format!("container {ci} block {bi} (type {}) random byte burst", bl.ctype));
    }
    match rng.below(3) {
        0 => {
            ct.blocks.remove(bi);
            ("cram:block-delete", format!("container {ci} block {bi} deleted"))
        }
        1 => {
            let bl = ct.blocks[bi].clone();
            let at = rng.usize_below(nb + 1);
            ct.blocks.insert(at, bl);
            ("cram:block-duplicate", format!("container {ci} block {bi} copied to {at}"))
        }
        _ => {
            let bj = rng.usize_below(nb);
            ct.blocks.swap(bi, bj);
            ("cram:block-swap", format!("container {ci} blocks {bi} and {bj} swapped"))
        }
    }
}

fn gunzip(b: &[u8]) -> Option<Vec<u8>> {
    if b.len() < 18 || b[0] != 0x1f || b[1] != 0x8b || b[3] != 0 {
        return None;
    }
    miniz_oxide::inflate::decompress_to_vec(&b[10..b.len() - 8]).ok()
}

fn gzip(data: &[u8]) -> Vec<u8> {
    let mut out = vec![0x1f, 0x8b, 8, 0, 0, 0, 0, 0, 0, 0xff];
    out.extend(miniz_oxide::deflate::compress_to_vec(data, 6));
    out.extend_from_slice(&vcore::bgzf::crc32(data).to_le_bytes());
    out.extend_from_slice(&(data.len() as u32).to_le_bytes());
    out
}

fn is_text(kind: Kind) -> bool {
    matches!(kind, Kind::Sam | Kind::Vcf | Kind::Fasta | Kind::Fastq | Kind::Gff | Kind::Gtf | Kind::Bed | Kind::Fai | Kind::FastqFai)
}

fn payload_layout(kind: Kind, b: &[u8]) -> Layout {
    match kind {
        Kind::Bam | Kind::BamRaw => walkers::bam(b),
        Kind::Bcf | Kind::BcfRaw => walkers::bcf(b),
        Kind::Bai => walkers::bai(b),
        Kind::Csi => walkers::csi_like(b, false),
        Kind::Tbi => walkers::csi_like(b, true),
        Kind::Gzi => walkers::gzi(b),
        _ => Layout::default(),
    }
}

/// The seeded mutation of `it` addressed by `rng`.
pub fn mutate_item(it: &Prepared, rng: &mut Rng) -> Mutated {
    let kind = it.item.kind;
    let stack = if rng.chance(1, 5) { 2 + rng.usize_below(2) } else { 1 };
    let mut classes: Vec<&'static str> = vec![];
    let mut descs: Vec<String> = vec![];
    let bytes: Vec<u8>;
    if kind == Kind::Cram {
        // model level (raw or original blocks) or byte bursts on the CRC-resealed file
        let use_raw = it.cram_raw.is_some() && rng.chance(3, 4);
        let src: &[u8] = if use_raw { it.cram_raw.as_ref().unwrap() } else { &it.item.bytes };
        match cramfmt::parse(src) {
            Some(mut model) if !rng.chance(1, 8) => {
                for _ in 0..stack {
                    let (c, d) = cram_once(rng, &mut model);
                    classes.push(c);
                    descs.push(d);
                }
                bytes = cramfmt::serialise(&model);
                descs.push(if use_raw { "on the raw-block form".into() } else { "on the file as written".into() });
            }
            _ => {
                let mut v = src.to_vec();
                for _ in 0..stack {
                    classes.push(burst(rng, &mut v));
                }
                cramfmt::reseal_in_place(&mut v);
                descs.push("byte burst, CRCs resealed".into());
                bytes = v;
            }
        }
    } else if kind == Kind::Crai {
        match gunzip(&it.item.bytes) {
            Some(mut text) => {
                for _ in 0..stack {
                    let (c, d) = text_once(rng, &mut text);
                    classes.push(c);
                    descs.push(d);
                }
                bytes = gzip(&text);
            }
            None => {
                let mut v = it.item.bytes.clone();
                classes.push(burst(rng, &mut v));
                bytes = v;
            }
        }
    } else if is_text(kind) {
        let mut v = it.item.bytes.clone();
        for _ in 0..stack {
            let (c, d) = text_once(rng, &mut v);
            classes.push(c);
            descs.push(d);
        }
        bytes = v;
    } else if kind.is_bgzf_wrapped() && kind != Kind::Bgzf && it.resealer.is_some() && rng.chance(4, 5) {
        let mut p = it.resealer.as_ref().unwrap().payload.clone();
        if matches!(kind, Kind::SamGz | Kind::VcfGz) {
            for _ in 0..stack {
                let (c, d) = text_once(rng, &mut p);
                classes.push(c);
                descs.push(d);
            }
        } else {
            for _ in 0..stack {
                // the layout is re-walked after each mutation (offsets move)
                let l = payload_layout(kind, &p);
                let (c, d) = binary_once(rng, &mut p, &l);
                classes.push(c);
                descs.push(d);
            }
        }
        if rng.chance(1, 25) {
            // cut the stream and append garbage
            let at = rng.usize_below(p.len() + 1);
            p.truncate(at);
            let n = rng.usize_below(40);
            p.extend(rng.bytes(n));
            classes.push("truncate+garbage");
        }
        let block_len = *rng.pick(&[65280usize, 65280, 65280, 16384, 4093, 512, 77, (p.len() / 3).max(1)]);
        descs.push(format!("inflated stream, re-sealed in blocks of {block_len}"));
        bytes = mutate::reseal(&p, block_len);
    } else if kind.is_bgzf_wrapped() {
        // BGZF level
        let mut v = it.item.bytes.clone();
        for _ in 0..stack {
            let l = walkers::bgzf(&v);
            let (c, d) = binary_once(rng, &mut v, &l);
            classes.push(match c {
                "record:delete" | "record:duplicate" | "record:swap" | "record:splice" => "bgzf:member-shuffle",
                c if c.starts_with("field:") => "bgzf:member-field",
                c => c,
            });
            descs.push(d);
        }
        bytes = v;
    } else {
        let mut v = it.item.bytes.clone();
        for _ in 0..stack {
            let l = payload_layout(kind, &v);
            let (c, d) = binary_once(rng, &mut v, &l);
            classes.push(c);
            descs.push(d);
        }
        bytes = v;
    }
    let class = if classes.len() == 1 { class_index(classes[0]) } else { class_index("stacked(2-3 mutations)") };
    Mutated { bytes, class, desc: descs.join("; ") }
}
