//! Panic signatures. `vcore::guard` gives `<file>|<source line>|<message, digits normalised>`; messages that embed
//! pieces of the input (quoted strings, byte lists, `Err` payloads) are reduced further here so that one call
//! site has one signature whatever the input was.

use std::sync::Once;

use vcore::guard::{self, PanicInfo};

/// Reduces a (digit-normalised) panic message to its class.
pub fn message_class(norm: &str) -> String {
    let mut s = String::new();
    // 1. drop the contents of double-quoted strings
    let mut in_q = false;
    let mut prev = '\0';
    for ch in norm.chars() {
        if ch == '"' && prev != '\\' {
            in_q = !in_q;
            s.push('"');
        } else if !in_q {
            s.push(ch);
        }
        prev = ch;
    }
    // 2. byte lists `[#, #, #]` -> `[#..]`
    loop {
        let Some(i) = s.find("[#, #") else { break };
        let Some(j) = s[i..].find(']') else { break };
        s.replace_range(i..i + j + 1, "[#..]");
    }
    // 3. `Err` payloads of unwrap/expect: keep the error type / kind, not the text
    if let Some(i) = s.find("Custom { kind: ") {
        let rest = &s[i + 15..];
        let kind: String = rest.chars().take_while(|c| c.is_alphanumeric()).collect();
        s.truncate(i);
        s.push_str(&format!("Custom({kind})"));
    }
    // 4. char literals
    let mut out = String::new();
    let cs: Vec<char> = s.chars().collect();
    let mut i = 0;
    while i < cs.len() {
        if cs[i] == '\'' && i + 2 < cs.len() && cs[i + 2] == '\'' {
            out.push_str("'_'");
            i += 3;
        } else {
            out.push(cs[i]);
            i += 1;
        }
    }
    if out.len() > 120 {
        let mut cut = 120;
        while !out.is_char_boundary(cut) {
            cut -= 1;
        }
        out.truncate(cut);
    }
    out
}

/// The call-site signature used by C15: `<file>|<source line>|<message class>[ via <dep file>]`.
pub fn site_sig(p: &PanicInfo) -> String {
    let norm = guard::normalise_message(&p.message);
    match p.sig.rfind(&norm) {
        Some(i) if !norm.is_empty() => {
            let head = &p.sig[..i];
            let tail = &p.sig[i + norm.len()..];
            format!("{head}{}{tail}", message_class(&norm))
        }
        _ => p.sig.clone(),
    }
}

/// `file:line: message` as written to the shared page by the hook wrapper → `<rel file>|<message class>`.
pub fn site_of_panic_text(t: &str) -> String {
    let (loc, msg) = t.split_once(": ").unwrap_or((t, ""));
    let file = loc.rsplitn(2, ':').nth(1).unwrap_or(loc);
    let file = match file.find("/repo/") {
        Some(i) => &file[i + 6..],
        None => file,
    };
    format!("{file}|{}", message_class(&guard::normalise_message(msg)))
}

static WRAP: Once = Once::new();

/// Installs vcore's hook and wraps it: every panic additionally leaves `file:line: message` in the shared page
/// (survives an abort of the process) and bumps the per-probe panic counter.
pub fn install_hook() {
    guard::install();
    WRAP.call_once(|| {
        let prev = std::panic::take_hook();
        std::panic::set_hook(Box::new(move |info| {
            if let Some(sh) = crate::alloc::shared() {
                sh.panics_in_probe.fetch_add(1, std::sync::atomic::Ordering::Relaxed);
                let msg = if let Some(s) = info.payload().downcast_ref::<&str>() {
                    (*s).to_string()
                } else if let Some(s) = info.payload().downcast_ref::<String>() {
                    s.clone()
                } else {
                    String::from("<non-string payload>")
                };
                let loc = info.location().map(|l| format!("{}:{}", l.file(), l.line())).unwrap_or_default();
                sh.set_panic_text(&format!("{loc}: {msg}"));
                if let Ok(path) = std::env::var("C15_BT") {
                    use std::io::Write;
                    if let Ok(mut f) = std::fs::OpenOptions::new().create(true).append(true).open(path) {
                        let _ = writeln!(f, "=== {loc}: {msg}\n{}", std::backtrace::Backtrace::force_capture());
                    }
                }
            }
            prev(info);
        }));
    });
}
