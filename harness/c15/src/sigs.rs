//! Panic signatures. `vcore::guard` gives `<file>|<source line>|<message, digits normalised>`; messages that embed
//! pieces of the input (quoted strings, byte lists, `Err` payloads) are reduced further here so that one call
//! site has one signature whatever the input was.

use std::sync::Once;

use vcore::guard::{self, PanicInfo};

/// Reduces a (digit-normalised) panic message to its class.
pub fn message_class(norm: &str) -> String {
    let mut s = String::new();
    // 1. drop the contents of double-quoted strings
    let mut in_q = false;
    let mut prev = '\0';
    for ch in norm.chars() {
        if ch == '"' && prev != '\\' {
            in_q = !in_q;
            s.push('"');
        } else if !in_q {
            s.push(ch);
        }
        prev = ch;
    }
    // 2. byte lists `[#, #, #]` -> `[#..]`
    loop {
        let Some(i) = s.find("[#, #") else { break };
        let Some(j) = s[i..].find(']') else { break };
        s.replace_range(i..i + j + 1, "[#..]");
    }
    // 3. `Err` payloads of unwrap/expect: keep the error type (and the io::ErrorKind), not its contents
    if let Some(i) = s.find("on an `Err` value: ") {
        let j = i + "on an `Err` value: ".len();
        let rest = s[j..].to_string();
        let payload = if let Some(k) = rest.find("kind: ") {
            let kind: String = rest[k + 6..].chars().take_while(|c| c.is_alphanumeric()).collect();
            format!("io::Error({kind})")
        } else if rest.starts_with("Kind(") {
            let kind: String = rest[5..].chars().take_while(|c| c.is_alphanumeric()).collect();
            format!("io::Error({kind})")
        } else {
            rest.chars().take_while(|c| c.is_alphanumeric() || matches!(c, '_' | ':' | '#')).collect()
        };
        s.truncate(j);
        s.push_str(&payload);
    }
    // todo!() / unimplemented!() with a Debug rendering of the offending value; str slicing errors quote the string
    for key in ["not yet implemented", "not implemented", "is not a char boundary", "is out of bounds of"] {
        if let Some(i) = s.find(key) {
            s.truncate(i + key.len());
        }
    }
    // 4. char literals
    let mut out = String::new();
    let cs: Vec<char> = s.chars().collect();
    let mut i = 0;
    while i < cs.len() {
        if cs[i] == '\'' && i + 2 < cs.len() && cs[i + 2] == '\'' {
            out.push_str("'_'");
            i += 3;
        } else {
            out.push(cs[i]);
            i += 1;
        }
    }
    if out.len() > 120 {
        let mut cut = 120;
        while !out.is_char_boundary(cut) {
            cut -= 1;
        }
        out.truncate(cut);
    }
    out
}

thread_local! {
    /// first harness frame of the last panic whose location was outside /repo: (file, line)
    static HARNESS_FRAME: std::cell::RefCell<Option<(String, u32)>> = const { std::cell::RefCell::new(None) };
}

static KNOWN_REL: std::sync::OnceLock<std::collections::HashSet<String>> = std::sync::OnceLock::new();

/// Signatures listed in `findings/C15.known` (used by the `chk` build to tell panics that also exist in the
/// shipped profile from those that only exist with overflow checks / debug assertions).
pub fn known_rel() -> &'static std::collections::HashSet<String> {
    KNOWN_REL.get_or_init(Default::default)
}

pub fn load_known(ctx: &vcore::Ctx) {
    let root = ctx.replays.parent().map(|p| p.to_path_buf()).unwrap_or_default();
    let mut set = std::collections::HashSet::new();
    if let Ok(s) = std::fs::read_to_string(root.join("findings/C15.known")) {
        for line in s.lines() {
            if let Some(rest) = line.strip_prefix("known: property=C15 sig=") {
                set.insert(rest.split(" :: ").next().unwrap_or(rest).to_string());
            }
        }
    }
    let _ = KNOWN_REL.set(set);
}

fn source_line(file: &str, line: u32) -> String {
    std::fs::read_to_string(file).ok().and_then(|s| s.lines().nth(line.saturating_sub(1) as usize).map(|l| l.trim().to_string())).unwrap_or_default()
}

/// The call-site signature used by C15: `<file>|<source line>|<message class>[ via <dep file>]`.
pub fn site_sig(p: &PanicInfo) -> String {
    let norm = guard::normalise_message(&p.message);
    if !p.file.contains("/repo/noodles") {
        // no noodles frame on the stack trace that vcore could resolve: the panic was raised in harness code by a
        // value a noodles accessor handed out; name the harness line that used the accessor
        if let Some((f, l)) = HARNESS_FRAME.with(|h| h.borrow().clone()) {
            let rel = f.rsplit("harness/").next().unwrap_or(&f).to_string();
            return format!("via-harness:{rel}|{}|{}", source_line(&f, l), message_class(&norm));
        }
    }
    match p.sig.rfind(&norm) {
        Some(i) if !norm.is_empty() => {
            let head = &p.sig[..i];
            let tail = &p.sig[i + norm.len()..];
            format!("{head}{}{tail}", message_class(&norm))
        }
        _ => p.sig.clone(),
    }
}

/// `file:line: message` as written to the shared page by the hook wrapper → `<rel file>|<message class>`.
pub fn site_of_panic_text(t: &str) -> String {
    let (loc, msg) = t.split_once(": ").unwrap_or((t, ""));
    let file = loc.rsplitn(2, ':').nth(1).unwrap_or(loc);
    let file = match file.find("/repo/") {
        Some(i) => &file[i + 6..],
        None => file,
    };
    format!("{file}|{}", message_class(&guard::normalise_message(msg)))
}

static WRAP: Once = Once::new();

/// Installs vcore's hook and wraps it: every panic additionally leaves `file:line: message` in the shared page
/// (survives an abort of the process) and bumps the per-probe panic counter.
pub fn install_hook() {
    guard::install();
    WRAP.call_once(|| {
        let prev = std::panic::take_hook();
        std::panic::set_hook(Box::new(move |info| {
            let outside = info.location().map(|l| !l.file().contains("/repo/noodles")).unwrap_or(true);
            if outside {
                let bt = std::backtrace::Backtrace::force_capture().to_string();
                let mut found = None;
                if !bt.contains("/repo/noodles") {
                    for l in bt.lines() {
                        let l = l.trim();
                        if let Some(rest) = l.strip_prefix("at ") {
                            if (rest.contains("harness/corpus/") || rest.contains("harness/c15/")) && !rest.contains("c15/src/sigs.rs") {
                                let mut it = rest.rsplitn(3, ':');
                                let _col = it.next();
                                let line = it.next().and_then(|s| s.parse().ok());
                                if let (Some(f), Some(n)) = (it.next(), line) {
                                    found = Some((f.to_string(), n));
                                    break;
                                }
                            }
                        }
                    }
                }
                HARNESS_FRAME.with(|h| *h.borrow_mut() = found);
            } else {
                HARNESS_FRAME.with(|h| *h.borrow_mut() = None);
            }
            if let Some(sh) = crate::alloc::shared() {
                sh.panics_in_probe.fetch_add(1, std::sync::atomic::Ordering::Relaxed);
                let msg = if let Some(s) = info.payload().downcast_ref::<&str>() {
                    (*s).to_string()
                } else if let Some(s) = info.payload().downcast_ref::<String>() {
                    s.clone()
                } else {
                    String::from("<non-string payload>")
                };
                let loc = info.location().map(|l| format!("{}:{}", l.file(), l.line())).unwrap_or_default();
                sh.set_panic_text(&format!("{loc}: {msg}"));
                if let Ok(path) = std::env::var("C15_BT") {
                    use std::io::Write;
                    if let Ok(mut f) = std::fs::OpenOptions::new().create(true).append(true).open(path) {
                        let _ = writeln!(f, "=== {loc}: {msg}\n{}", std::backtrace::Backtrace::force_capture());
                    }
                }
            }
            prev(info);
        }));
    });
}
