//! CRAM block codec decoders and integer decoders, reached directly through `noodles_cram::verif` (hook H2).

use std::io;

use noodles_cram::verif::{codecs as c, num};
use vcore::{Rng, guard, payload};

pub const CODECS: [&str; 11] = ["rans4x8", "ransnx16", "aac", "fqzcomp", "tok", "gzip", "bzip2", "lzma", "itf8", "ltf8", "uint7"];
pub const INPUT_CLASSES: [&str; 3] = ["random-bytes", "mutated-valid-encoding", "valid-encoding-hostile-size"];

/// Largest output size handed to a decoder that takes one (bounds the cost of a probe, not the input space of
/// the stream: sizes inside the stream are whatever the bytes say).
pub const MAX_SIZE: usize = 1 << 17;

pub fn decode(codec: usize, src: &[u8], size: usize) -> io::Result<usize> {
    match codec {
        0 => c::rans_4x8::decode(src).map(|v| v.len()),
        1 => c::rans_nx16::decode(src, size).map(|v| v.len()),
        2 => c::aac::decode(src, size).map(|v| v.len()),
        3 => c::fqzcomp::decode(src).map(|v| v.len()),
        4 => c::name_tokenizer::decode(src).map(|v| v.len()),
        5 => {
            let mut dst = vec![0; size];
            c::gzip::decode(src, &mut dst).map(|_| size)
        }
        6 => {
            let mut dst = vec![0; size];
            c::bzip2::decode(src, &mut dst).map(|_| size)
        }
        7 => {
            let mut dst = vec![0; size];
            c::lzma::decode(src, &mut dst).map(|_| size)
        }
        8 => {
            // a stream of ITF8 values until the bytes run out
            let mut r = src;
            let mut n = 0;
            while !r.is_empty() {
                num::read_itf8(&mut r)?;
                n += 1;
            }
            Ok(n)
        }
        9 => {
            let mut r = src;
            let mut n = 0;
            while !r.is_empty() {
                num::read_ltf8(&mut r)?;
                n += 1;
            }
            Ok(n)
        }
        _ => {
            let mut r = src;
            let mut n = 0;
            while !r.is_empty() {
                num::read_uint7(&mut r)?;
                n += 1;
            }
            Ok(n)
        }
    }
}

#[derive(Clone, Debug)]
pub struct Encoding {
    pub codec: usize,
    pub label: String,
    pub bytes: Vec<u8>,
    /// size argument of the decoder (= length of the encoded payload)
    pub size: usize,
}

fn encode(codec: usize, flags: u8, data: &[u8], lens: &[usize]) -> Option<Vec<u8>> {
    // encoders have known defects of their own (C08): a panic or an error here just means "no seed"
    guard::catch(|| -> io::Result<Vec<u8>> {
        match codec {
            0 => c::rans_4x8::encode(if flags & 1 == 0 { c::rans_4x8::Order::Zero } else { c::rans_4x8::Order::One }, data),
            1 => c::rans_nx16::encode(c::rans_nx16::Flags::from_bits_truncate(flags), data),
            2 => c::aac::encode(c::aac::Flags::from_bits_truncate(flags), data),
            3 => c::fqzcomp::encode(lens, data),
            4 => c::name_tokenizer::encode(data),
            5 => c::gzip::encode(6, data),
            6 => c::bzip2::encode(1, data),
            7 => c::lzma::encode(1, data),
            _ => Err(io::Error::other("no encoder")),
        }
    })
    .ok()
    .and_then(|r| r.ok())
}

fn names_payload(rng: &mut Rng, n: usize) -> Vec<u8> {
    let mut v = Vec::new();
    for i in 0..n {
        let s = match rng.below(3) {
            0 => format!("read{}:{}:{}", i, rng.below(100), rng.below(5000)),
            1 => format!("q{:04}/1", rng.below(3000)),
            _ => format!("A00{}:{}:HXX:{}:{}:{}", rng.below(9), rng.below(400), rng.below(8), rng.below(30000), rng.below(30000)),
        };
        v.extend_from_slice(s.as_bytes());
        v.push(0);
    }
    v
}

/// A valid encoding addressed by `rng` (payload class, length, flags). `None` if the encoder refuses / fails.
pub fn valid_encoding(codec: usize, rng: &mut Rng, max_len: usize) -> Option<Encoding> {
    if codec >= 8 {
        // integer streams: a few values through the writers
        let mut out = Vec::new();
        let n = 1 + rng.usize_below(6);
        for _ in 0..n {
            match codec {
                8 => num::write_itf8(&mut out, rng.next_u32() as i32 >> rng.below(32)).ok()?,
                9 => num::write_ltf8(&mut out, rng.next_u64() as i64 >> rng.below(64)).ok()?,
                _ => num::write_uint7(&mut out, rng.next_u32() >> rng.below(32)).ok()?,
            }
        }
        return Some(Encoding { codec, label: format!("{}:{n}values", CODECS[codec]), bytes: out, size: n });
    }
    let len = match rng.below(4) {
        0 => rng.usize_below(8),
        1 => rng.urange(8, 64.min(max_len.max(9))),
        _ => rng.urange(1, max_len.max(2)),
    };
    let class = *rng.pick(payload::CLASSES);
    let (data, lens): (Vec<u8>, Vec<usize>) = match codec {
        4 => (names_payload(rng, 1 + len / 12), vec![]),
        3 => {
            // quality strings of a few records
            let n = 1 + rng.usize_below(4);
            let each = (len / n).max(1);
            let d: Vec<u8> = (0..n * each).map(|_| rng.below(42) as u8).collect();
            (d, vec![each; n])
        }
        _ => (payload::make(class, len, rng), vec![]),
    };
    let flags: u8 = match codec {
        0 => rng.below(2) as u8,
        1 => {
            // ORDER N32 STRIPE NO_SIZE CAT RLE PACK in any combination (RESERVED stays clear)
            (rng.below(256) as u8) & !0x02
        }
        2 => (rng.below(256) as u8) & !0x02,
        _ => 0,
    };
    let bytes = encode(codec, flags, &data, &lens)?;
    Some(Encoding { codec, label: format!("{}:flags={flags:#04x}:{class}:{}B", CODECS[codec], data.len()), bytes, size: data.len() })
}

/// The deterministic set: for every codec a few valid encodings of short payloads under every flag that matters.
pub fn det_encodings() -> Vec<Encoding> {
    let mut v = Vec::new();
    let mut rng = Rng::new(0xC15, 0xC0DEC, 0);
    let text = payload::make("text", 40, &mut rng);
    let dna = payload::make("dna", 70, &mut rng);
    let runs = payload::make("runs", 60, &mut rng);
    let mut push = |codec: usize, flags: u8, data: &[u8], lens: &[usize], what: &str| {
        if let Some(bytes) = encode(codec, flags, data, lens) {
            v.push(Encoding { codec, label: format!("{}:flags={flags:#04x}:{what}:{}B", CODECS[codec], data.len()), bytes, size: data.len() });
        }
    };
    for flags in [0u8, 1] {
        push(0, flags, &text, &[], "text");
        push(0, flags, &dna, &[], "dna");
    }
    for flags in [0x00u8, 0x01, 0x04, 0x05, 0x08, 0x09, 0x10, 0x20, 0x40, 0x41, 0x80, 0x81, 0xc0, 0xc1, 0x48, 0x8c] {
        push(1, flags, &dna, &[], "dna");
        push(1, flags, &runs, &[], "runs");
    }
    for flags in [0x00u8, 0x01, 0x04, 0x08, 0x09, 0x10, 0x20, 0x40, 0x41, 0x80, 0x81, 0xc0, 0xc1, 0x48] {
        push(2, flags, &dna, &[], "dna");
        push(2, flags, &runs, &[], "runs");
    }
    let quals: Vec<u8> = (0..60).map(|i| 20 + (i * 7 % 20) as u8).collect();
    push(3, 0, &quals, &[20, 20, 20], "3x20quals");
    push(3, 0, &quals[..33], &[33], "1x33quals");
    let names = names_payload(&mut rng, 5);
    push(4, 0, &names, &[], "5names");
    push(4, 0, b"r1\0r2\0r10\0", &[], "3names");
    push(5, 0, &text, &[], "text");
    push(6, 0, &text, &[], "text");
    push(7, 0, &text, &[], "text");
    // integer codings: every length form
    let mut itf = Vec::new();
    for x in [0i32, 0x7f, 0x80, 0x3fff, 0x4000, 0x1f_ffff, 0x20_0000, 0x0fff_ffff, 0x1000_0000, -1] {
        let _ = num::write_itf8(&mut itf, x);
    }
    v.push(Encoding { codec: 8, label: "itf8:all-length-forms".into(), bytes: itf, size: 10 });
    let mut ltf = Vec::new();
    for s in [0u32, 7, 14, 21, 28, 35, 42, 49, 56, 63] {
        let _ = num::write_ltf8(&mut ltf, (1i64 << s) | 1);
    }
    let _ = num::write_ltf8(&mut ltf, -1);
    v.push(Encoding { codec: 9, label: "ltf8:all-length-forms".into(), bytes: ltf, size: 11 });
    let mut u7 = Vec::new();
    for x in [0u32, 0x7f, 0x80, 0x3fff, 0x4000, 0x1f_ffff, 0x20_0000, 0x0fff_ffff, 0x1000_0000, u32::MAX] {
        let _ = num::write_uint7(&mut u7, x);
    }
    v.push(Encoding { codec: 10, label: "uint7:all-length-forms".into(), bytes: u7, size: 10 });
    v
}

pub struct CodecProbe {
    pub codec: usize,
    pub input_class: usize,
    pub bytes: Vec<u8>,
    pub size: usize,
    pub desc: String,
}

fn hostile_size(rng: &mut Rng, len: usize) -> usize {
    match rng.below(10) {
        0 => 0,
        1 => 1,
        2 => len.saturating_sub(1),
        3 => len + 1,
        4 => 2 * len + 3,
        5 => {
            if rng.chance(1, 8) {
                65536
            } else {
                4096
            }
        }
        6 => {
            if rng.chance(1, 8) {
                MAX_SIZE
            } else {
                1000
            }
        }
        7 => rng.usize_below(4096),
        _ => len,
    }
}

/// The seeded probe addressed by `rng`.
fn uint7(out: &mut Vec<u8>, mut n: usize) {
    let mut tmp = vec![(n & 0x7f) as u8];
    n >>= 7;
    while n > 0 {
        tmp.push((n & 0x7f) as u8 | 0x80);
        n >>= 7;
    }
    tmp.reverse();
    out.extend(tmp);
}

/// `depth` nested single-chunk STRIPE levels around a tiny CAT stream (rANS Nx16 and the arithmetic coder share
/// the framing): decoders that recurse once per level without a bound overflow the stack.
pub fn nested_stripes(depth: usize) -> Vec<u8> {
    let mut s = vec![0x20u8, 0x01, 0x41];
    for _ in 0..depth {
        let mut t = vec![0x08u8, 0x01, 0x01];
        uint7(&mut t, s.len());
        t.extend_from_slice(&s);
        s = t;
    }
    s
}

pub fn seeded_probe(rng: &mut Rng) -> CodecProbe {
    let codec = rng.usize_below(CODECS.len());
    if (codec == 1 || codec == 2) && rng.chance(1, 400) {
        let depth = *rng.pick(&[3usize, 40, 3000, 30_000]);
        return CodecProbe { codec, input_class: 0, desc: format!("{}: {depth} nested STRIPE levels around a 1-byte CAT stream", CODECS[codec]), bytes: nested_stripes(depth), size: 1 };
    }
    let mode = rng.below(10);
    if mode < 3 {
        // arbitrary bytes; the first bytes are biased towards valid flag / order / size values
        let n = match rng.below(4) {
            0 => rng.usize_below(6),
            1 => rng.urange(6, 40),
            _ => rng.urange(1, 300),
        };
        let mut b = rng.bytes(n);
        if !b.is_empty() && rng.chance(2, 3) {
            b[0] = match codec {
                0 => rng.below(2) as u8,
                1 | 2 => rng.below(256) as u8,
                _ => b[0],
            };
            // small declared sizes keep the decoder busy with the rest of the stream instead of failing at once
            for x in b.iter_mut().skip(1).take(8) {
                if rng.chance(1, 2) {
                    *x = rng.below(40) as u8;
                }
            }
        }
        let base = rng.usize_below(200);
        let size = hostile_size(rng, base);
        return CodecProbe { codec, input_class: 0, desc: format!("{}: {n} arbitrary bytes, size argument {size}", CODECS[codec]), bytes: b, size };
    }
    match valid_encoding(codec, rng, 400) {
        None => {
            let n = rng.usize_below(64);
            let b = rng.bytes(n);
            CodecProbe { codec, input_class: 0, desc: format!("{}: arbitrary bytes (encoder gave no seed)", CODECS[codec]), bytes: b, size: 64 }
        }
        Some(e) => {
            if mode < 4 {
                let size = hostile_size(rng, e.size);
                CodecProbe { codec, input_class: 2, desc: format!("{} decoded with size argument {size} instead of {}", e.label, e.size), bytes: e.bytes, size }
            } else {
                let mut b = e.bytes.clone();
                let k = 1 + rng.usize_below(3);
                let mut what = vec![];
                for _ in 0..k {
                    if b.is_empty() {
                        break;
                    }
                    // early bytes (flags, sizes, tables) more often than the entropy-coded tail
                    let at = if rng.chance(1, 2) { rng.usize_below(b.len().min(24)) } else { rng.usize_below(b.len()) };
                    match rng.below(8) {
                        0 => {
                            b.truncate(at);
                            what.push(format!("truncate@{at}"));
                        }
                        1 => {
                            b.insert(at, rng.below(256) as u8);
                            what.push(format!("insert@{at}"));
                        }
                        2 => {
                            b.remove(at);
                            what.push(format!("delete@{at}"));
                        }
                        3 => {
                            b[at] = *rng.pick(&[0u8, 0xff, 0x80, 0x7f, 1]);
                            what.push(format!("set@{at}"));
                        }
                        4 => {
                            b[at] ^= 1 << rng.below(8);
                            what.push(format!("bitflip@{at}"));
                        }
                        _ => {
                            b[at] = rng.below(256) as u8;
                            what.push(format!("random@{at}"));
                        }
                    }
                }
                let size = if rng.chance(1, 4) { hostile_size(rng, e.size) } else { e.size };
                CodecProbe { codec, input_class: 1, desc: format!("{} mutated ({}) size argument {size}", e.label, what.join(",")), bytes: b, size }
            }
        }
    }
}
