//! Batch supervisor: a batch of probes runs in a forked process; a probe that kills that process (abort, stack
//! overflow, refused allocation, CPU budget) is attributed to exactly that probe and the batch is resumed behind
//! it in a fresh process, so one fatal input does not hide the inputs after it.
//!
//! * progress, outcome counters and allocation observations live in a shared page (`alloc::Shared`);
//! * violations are streamed through a pipe as JSON lines the moment they are found;
//! * the CPU budget of one probe is enforced with `ITIMER_PROF` (user + system time of the batch process, which has
//!   a single thread): default action of SIGPROF = termination, which the supervisor sees as the wait status;
//!   memory is bounded per probe by the allocation monitor (`alloc`: single request, growth of a large buffer, heap
//!   held at one time), so that the CPU a probe is charged does not depend on how much memory the machine has free;
//! * stderr of the batch process goes to a private file whose tail classifies an abort (stack overflow, panic
//!   while panicking, allocation failure).

use std::{
    io::{Read, Write},
    os::fd::FromRawFd,
    path::Path,
    sync::atomic::Ordering::Relaxed,
};

use serde_json::{Value, json};

use crate::alloc::{self, OUTCOMES, SLOTS, Shared};

/// Outcome classes (columns of the matrix).
pub const OC_END: usize = 0;
pub const OC_ERR_INVALID_DATA: usize = 1;
pub const OC_ERR_EOF: usize = 2;
pub const OC_ERR_INVALID_INPUT: usize = 3;
pub const OC_ERR_OTHER: usize = 4;
pub const OC_PANIC: usize = 5;
pub const OC_FATAL: usize = 6; // abort / stack overflow / hang / runaway (recorded by the supervisor)
pub const OC_RESOURCE: usize = 7; // refused allocation (inconclusive)
pub const OC_SKIPPED: usize = 8; // not run: the entry point hung repeatedly before in this run (see `ledger`)
pub const OC_NAMES: [&str; OUTCOMES] =
    ["end", "err:InvalidData", "err:UnexpectedEof", "err:InvalidInput", "err:other", "panic", "fatal", "resource-limit", "skipped-after-repeated-hang"];

pub struct ProbeOut {
    pub slot: usize,
    pub oc: usize,
    /// (signature, description, witness)
    pub violation: Option<(String, String, Value)>,
}

#[derive(Default)]
pub struct BatchOut {
    pub matrix: Vec<[u64; OUTCOMES]>,
    /// (signature, description, witness) — first occurrence of each signature in the batch
    pub violations: Vec<(String, String, Value)>,
    pub resource_limited: Vec<String>,
    pub observed_big: u64,
    pub observed_max: u64,
    pub max_probe_cpu_us: u64,
    pub max_valid_cpu_us: u64,
    pub max_valid_debug_call_us: u64,
    pub max_valid_by_kind: Vec<u64>,
    pub growth_refused: u64,
    pub live_cap_refused: u64,
    pub max_probe_live_heap: u64,
    pub max_valid_live_heap: u64,
    pub forks: u64,
    pub notes: Vec<String>,
    /// probes that returned after at least 1/100 of the CPU budget: (CPU µs, description)
    pub slow: Vec<(u64, String)>,
}

pub struct Limits {
    pub cpu_budget_s: f64,
    /// only for messages: the short budget a probe of this batch may have run under
    pub short_budget_s: f64,
    pub rlimit_as: u64,
}

/// CPU budget of a probe in whole seconds (for code that replaces the timer temporarily and has to re-arm it).
pub static PROBE_BUDGET_S: std::sync::atomic::AtomicU64 = std::sync::atomic::AtomicU64::new(20);

pub fn set_timer(seconds: f64) {
    let tv = libc::timeval { tv_sec: seconds.floor() as libc::time_t, tv_usec: ((seconds.fract()) * 1e6) as libc::suseconds_t };
    let it = libc::itimerval { it_interval: libc::timeval { tv_sec: 0, tv_usec: 0 }, it_value: tv };
    unsafe {
        libc::setitimer(libc::ITIMER_PROF, &it, std::ptr::null_mut());
    }
}

fn read_tail(path: &Path, max: usize) -> String {
    let mut s = Vec::new();
    if let Ok(mut f) = std::fs::File::open(path) {
        let _ = f.read_to_end(&mut s);
    }
    let start = s.len().saturating_sub(max);
    String::from_utf8_lossy(&s[start..]).replace('\n', " / ")
}

/// Runs probes `0..n`. `run_one(k)` is only ever called in a forked process; `describe(k)` (called in the
/// supervisor) gives `(slot, entry point, description, witness)` of probe `k` for a fatal outcome.
pub fn run_batch(
    n: usize,
    limits: &Limits,
    errfile: &Path,
    run_one: &dyn Fn(usize) -> ProbeOut,
    describe: &dyn Fn(usize) -> (usize, String, String, Value),
) -> BatchOut {
    let sh: &'static Shared = alloc::map_shared();
    sh.reset_batch();
    let mut out = BatchOut { matrix: vec![[0; OUTCOMES]; SLOTS], ..Default::default() };
    let mut start = 0usize;
    let mut seen_sigs: Vec<String> = Vec::new();
    while start < n {
        sh.phase.store(0, Relaxed);
        sh.progress.store(start as u64, Relaxed);
        sh.reset_probe();
        let mut fds = [0i32; 2];
        if unsafe { libc::pipe(fds.as_mut_ptr()) } != 0 {
            out.notes.push("pipe() failed".into());
            break;
        }
        let _ = std::io::stdout().flush();
        out.forks += 1;
        let pid = unsafe { libc::fork() };
        if pid < 0 {
            out.notes.push("fork() failed".into());
            break;
        }
        if pid == 0 {
            // ---- batch process
            unsafe {
                libc::close(fds[0]);
                libc::prctl(libc::PR_SET_PDEATHSIG, libc::SIGKILL);
                let lim = libc::rlimit { rlim_cur: limits.rlimit_as, rlim_max: limits.rlimit_as };
                libc::setrlimit(libc::RLIMIT_AS, &lim);
                let core = libc::rlimit { rlim_cur: 0, rlim_max: 0 };
                libc::setrlimit(libc::RLIMIT_CORE, &core);
                if let Ok(c) = std::ffi::CString::new(errfile.to_string_lossy().as_bytes()) {
                    let fd = libc::open(c.as_ptr(), libc::O_WRONLY | libc::O_CREAT | libc::O_TRUNC, 0o644);
                    if fd >= 0 {
                        libc::dup2(fd, 2);
                        libc::close(fd);
                    }
                }
            }
            let mut pipe = unsafe { std::fs::File::from_raw_fd(fds[1]) };
            let mut local_seen: Vec<String> = seen_sigs.clone();
            sh.phase.store(1, Relaxed);
            for k in start..n {
                sh.progress.store(k as u64, Relaxed);
                sh.reset_probe();
                set_timer(limits.cpu_budget_s);
                let t0 = vcore::guard::thread_cpu_s();
                let r = run_one(k);
                let dt = ((vcore::guard::thread_cpu_s() - t0) * 1e6) as u64;
                sh.max_probe_cpu_us.fetch_max(dt, Relaxed);
                if dt as f64 >= limits.cpu_budget_s * 1e6 / 100.0 {
                    let _ = pipe.write_all(format!("[\"@slow\",{k},{dt}]\n").as_bytes());
                }
                sh.matrix[r.slot.min(SLOTS - 1)][r.oc.min(OUTCOMES - 1)].fetch_add(1, Relaxed);
                if let Some((sig, desc, wit)) = r.violation {
                    if !local_seen.contains(&sig) {
                        local_seen.push(sig.clone());
                        let line = serde_json::to_string(&json!([sig, desc, wit])).unwrap();
                        let _ = pipe.write_all(line.as_bytes());
                        let _ = pipe.write_all(b"\n");
                    }
                }
            }
            set_timer(0.0);
            sh.phase.store(2, Relaxed);
            let _ = pipe.flush();
            drop(pipe);
            unsafe { libc::_exit(0) }
        }
        // ---- supervisor
        unsafe { libc::close(fds[1]) };
        let mut rd = unsafe { std::fs::File::from_raw_fd(fds[0]) };
        let mut buf = Vec::new();
        let _ = rd.read_to_end(&mut buf);
        drop(rd);
        let mut status = 0i32;
        loop {
            let r = unsafe { libc::waitpid(pid, &mut status, 0) };
            if r == pid || (r < 0 && std::io::Error::last_os_error().kind() != std::io::ErrorKind::Interrupted) {
                break;
            }
        }
        for line in String::from_utf8_lossy(&buf).lines() {
            if let Ok(v) = serde_json::from_str::<Value>(line) {
                let sig = v[0].as_str().unwrap_or("?").to_string();
                if sig == "@slow" {
                    if out.slow.len() < 8 {
                        out.slow.push((v[2].as_u64().unwrap_or(0), describe(v[1].as_u64().unwrap_or(0) as usize).2));
                    }
                    continue;
                }
                if !seen_sigs.contains(&sig) {
                    seen_sigs.push(sig.clone());
                    out.violations.push((sig, v[1].as_str().unwrap_or("").to_string(), v[2].clone()));
                }
            }
        }
        let exited_ok = libc::WIFEXITED(status) && libc::WEXITSTATUS(status) == 0 && sh.phase.load(Relaxed) == 2;
        if exited_ok {
            break;
        }
        // the batch process died: attribute to the probe in progress
        let k = sh.progress.load(Relaxed) as usize;
        let phase = sh.phase.load(Relaxed);
        let how = if libc::WIFSIGNALED(status) { format!("signal {}", libc::WTERMSIG(status)) } else { format!("exit code {}", libc::WEXITSTATUS(status)) };
        let tail = read_tail(errfile, 600);
        if phase == 0 {
            out.notes.push(format!("batch process died during set-up ({how}); stderr: {tail}"));
            break;
        }
        let (slot, what, long, wit) = describe(k);
        let slot = slot.min(SLOTS - 1);
        let rk = sh.refused_kind.load(Relaxed);
        let rsize = sh.refused_size.load(Relaxed);
        let rold = sh.refused_old.load(Relaxed);
        let ptext = sh.panic_text();
        let sigprof = libc::WIFSIGNALED(status) && libc::WTERMSIG(status) == libc::SIGPROF;
        if sigprof {
            out.matrix[slot][OC_FATAL] += 1;
            let in_debug = sh.in_debug_call.load(Relaxed) != 0;
            let short = sh.short_budget.load(Relaxed) != 0;
            if !in_debug {
                // expensive hang: enter it into the run-wide ledger that bounds the total cost of hangs
                crate::ledger::record_hang(&what);
            }
            let sig = format!("hang:{what}");
            if !seen_sigs.contains(&sig) {
                seen_sigs.push(sig.clone());
                let b = if in_debug {
                    "its Debug-call CPU budget (debug_budget_s)".to_string()
                } else if short {
                    format!("{} s CPU (short budget: this entry point hung at least {} times before in this run)", limits.short_budget_s, crate::ledger::FULL)
                } else {
                    format!("{} s CPU", limits.cpu_budget_s)
                };
                out.violations.push((sig, format!("probe burned more than {b} without returning (SIGPROF): {long}"), wit));
            }
        } else if rk != 0 {
            // the property does not bound memory: a refused request is a resource limit, whatever asked for it
            out.matrix[slot][OC_RESOURCE] += 1;
            if rk == 2 {
                out.growth_refused += 1;
            }
            if rk == 4 {
                out.live_cap_refused += 1;
            }
            if out.resource_limited.len() < 3 {
                let why = match rk {
                    1 => "single request above the limit".to_string(),
                    2 => format!("growth of a buffer that already held {rold} bytes"),
                    4 => format!("the probe already held {} MiB of heap, the most one probe may hold at a time", crate::alloc::LIVE_CAP.load(Relaxed) >> 20),
                    _ => "the system allocator returned null (RLIMIT_AS)".to_string(),
                };
                out.resource_limited.push(format!("{long}: allocation request of {rsize} bytes refused ({why}), process ended with {how}"));
            }
        } else if libc::WIFSIGNALED(status) && libc::WTERMSIG(status) == libc::SIGKILL {
            // no panic, abort, stack overflow or fault ends a process with SIGKILL: the kernel's out-of-memory
            // killer (or an operator) did; no verdict on the probe
            out.matrix[slot][OC_RESOURCE] += 1;
            out.notes.push(format!("the batch process was ended by SIGKILL from outside while running this probe (out-of-memory killer or operator; no verdict): {long}"));
        } else {
            out.matrix[slot][OC_FATAL] += 1;
            let class = if tail.contains("overflowed its stack") {
                "stack-overflow"
            } else if tail.contains("panic in a destructor") || tail.contains("panicked while") || tail.contains("cannot unwind") || tail.contains("panic in a function that cannot unwind") {
                "panic-while-panicking"
            } else if libc::WIFSIGNALED(status) && libc::WTERMSIG(status) == libc::SIGSEGV {
                "sigsegv"
            } else if libc::WIFSIGNALED(status) && libc::WTERMSIG(status) == libc::SIGABRT {
                "abort"
            } else {
                "died"
            };
            let site = if ptext.is_empty() { String::new() } else { format!(":after-panic:{}", crate::sigs::site_of_panic_text(&ptext)) };
            let sig = format!("{class}:{what}{site}");
            if !seen_sigs.contains(&sig) {
                seen_sigs.push(sig.clone());
                out.violations.push((sig, format!("the process died ({how}) while running this probe: {long}; last panic: [{ptext}]; stderr: {tail}"), wit));
            }
        }
        start = k + 1;
        if start >= n {
            break;
        }
    }
    for (i, row) in sh.matrix.iter().enumerate() {
        for (j, c) in row.iter().enumerate() {
            out.matrix[i][j] += c.load(Relaxed);
        }
    }
    out.observed_big = sh.observed_big.load(Relaxed);
    out.observed_max = sh.observed_max.load(Relaxed);
    out.max_probe_cpu_us = sh.max_probe_cpu_us.load(Relaxed);
    out.max_valid_cpu_us = sh.max_valid_cpu_us.load(Relaxed);
    out.max_valid_debug_call_us = sh.max_valid_debug_call_us.load(Relaxed);
    out.max_probe_live_heap = sh.max_probe_live_heap.load(Relaxed);
    out.max_valid_live_heap = sh.max_valid_live_heap.load(Relaxed);
    out.max_valid_by_kind = sh.max_valid_by_kind.iter().map(|a| a.load(Relaxed)).collect();
    out
}
