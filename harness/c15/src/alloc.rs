//! Allocation monitor and the page shared between a batch process and the process that supervises it.
//!
//! `Mon` wraps the system allocator. A single request of at least `OBSERVE` bytes is counted (observation), a
//! single request of at least `REFUSE` bytes is refused (null → `handle_alloc_error` → abort of the batch
//! process), and so is a `realloc` that grows a block which already holds at least `RUNAWAY_OLD` bytes: that is
//! geometric growth of a buffer that was actually filled, i.e. unbounded output from a bounded (≤ a few 100 kB)
//! input. The heap a probe holds at one time (bytes allocated minus bytes freed since the probe was armed, any
//! block size) is bounded by `LIVE_CAP` in the same way: a count field that makes a decoder build millions of
//! small blocks is a memory request like any other, and what touching gigabytes costs in CPU time depends on how
//! much memory the machine has free at that moment (page reclaim is charged to the faulting process), so it must
//! not reach the CPU-budget monitor. The reason of a refusal is written to the shared page *before* null is returned, so the supervisor can
//! tell "length field asked for more memory than the monitor grants" (resource limit: inconclusive, the property
//! does not bound memory) from "runaway growth" (never terminates: violation) from any other abort.

use std::{
    alloc::{GlobalAlloc, Layout, System},
    sync::atomic::{AtomicPtr, AtomicU64, AtomicUsize, Ordering::Relaxed},
};

pub const SLOTS: usize = 48;
pub const OUTCOMES: usize = 9;
pub const KINDS: usize = 24;

/// Lives in a `MAP_SHARED | MAP_ANONYMOUS` mapping created by the supervisor before `fork`.
#[repr(C)]
pub struct Shared {
    /// 0 = batch process is setting up, 1 = running probes, 2 = finished normally
    pub phase: AtomicU64,
    /// index of the probe in progress
    pub progress: AtomicU64,
    /// size of the refused request (0 = none refused)
    pub refused_size: AtomicU64,
    /// 1 = single request ≥ REFUSE, 2 = runaway realloc, 3 = the system allocator returned null (RLIMIT_AS),
    /// 4 = the heap held by the probe would exceed LIVE_CAP
    pub refused_kind: AtomicU64,
    /// size of the block that was to be grown (runaway realloc)
    pub refused_old: AtomicU64,
    pub observed_big: AtomicU64,
    pub observed_max: AtomicU64,
    /// outcome matrix of the batch: [slot][outcome class]
    pub matrix: [[AtomicU64; OUTCOMES]; SLOTS],
    /// CPU time of the slowest probe of the batch (µs) and of the slowest valid (unmutated) input
    pub max_probe_cpu_us: AtomicU64,
    pub max_valid_cpu_us: AtomicU64,
    /// slowest single `Debug` call of the batch / on a valid record (µs)
    pub max_debug_call_us: AtomicU64,
    pub max_valid_debug_call_us: AtomicU64,
    /// slowest valid input per kind (index in `corpus::Kind::ALL`), µs
    pub max_valid_by_kind: [AtomicU64; KINDS],
    /// 1 while a `Debug` call runs under its own (small) budget; 1 in `short_budget` while the probe in progress
    /// runs under the short budget of an entry that hung repeatedly
    pub in_debug_call: AtomicU64,
    pub short_budget: AtomicU64,
    /// number of panic-hook invocations during the probe in progress
    pub panics_in_probe: AtomicU64,
    /// `file:line: message` of the last panic (for aborts that follow a panic)
    pub panic_len: AtomicU64,
    pub panic_text: [std::sync::atomic::AtomicU8; 768],
    /// largest heap a probe of the batch held at one time (bytes above what was live when it was armed), over the
    /// probes that returned, and the same over valid (unmutated) inputs
    pub max_probe_live_heap: AtomicU64,
    pub max_valid_live_heap: AtomicU64,
}

pub static SHARED: AtomicPtr<Shared> = AtomicPtr::new(std::ptr::null_mut());
pub static OBSERVE: AtomicUsize = AtomicUsize::new(16 << 20);
pub static REFUSE: AtomicUsize = AtomicUsize::new(64 << 20);
pub static RUNAWAY_OLD: AtomicUsize = AtomicUsize::new(16 << 20);
/// Most heap one probe may hold at a time, in bytes above what was live when it was armed.
pub static LIVE_CAP: AtomicUsize = AtomicUsize::new(256 << 20);
/// Bytes currently allocated through `Mon` by this process (counted whether armed or not, so that blocks freed
/// during a probe balance), its value when the probe in progress was armed, and the peak above that value.
static LIVE: AtomicUsize = AtomicUsize::new(0);
static BASE: AtomicUsize = AtomicUsize::new(0);
static PEAK: AtomicUsize = AtomicUsize::new(0);

/// Heap held above the armed baseline (blocks that predate the probe may be freed during it: never below 0).
#[inline]
fn held() -> usize {
    (LIVE.load(Relaxed).wrapping_sub(BASE.load(Relaxed)) as isize).max(0) as usize
}

#[inline]
fn grew(by: usize) {
    LIVE.fetch_add(by, Relaxed);
    if ARMED.load(Relaxed) != 0 {
        PEAK.fetch_max(held(), Relaxed);
    }
}

/// Peak heap of the probe that was armed last (bytes above its baseline).
pub fn peak_live() -> u64 {
    PEAK.load(Relaxed) as u64
}

pub fn shared() -> Option<&'static Shared> {
    let p = SHARED.load(Relaxed);
    if p.is_null() { None } else { Some(unsafe { &*p }) }
}

pub struct Mon;

fn marker(kind: u64, size: usize, old: usize) {
    // no allocation in here
    let mut buf = [0u8; 96];
    let mut n = 0;
    let mut put = |s: &[u8]| {
        for &b in s {
            if n < buf.len() {
                buf[n] = b;
                n += 1;
            }
        }
    };
    put(b"C15-ALLOC-REFUSED kind=");
    put(&[b'0' + kind as u8]);
    put(b" size=");
    let mut digits = [0u8; 20];
    let mut k = 0;
    let mut v = size;
    loop {
        digits[k] = b'0' + (v % 10) as u8;
        k += 1;
        v /= 10;
        if v == 0 {
            break;
        }
    }
    while k > 0 {
        k -= 1;
        put(&[digits[k]]);
    }
    put(b"\n");
    let _ = old;
    unsafe {
        libc::write(2, buf.as_ptr() as *const libc::c_void, n);
    }
}

/// The limits apply only while a probe runs (set by `Armed`); the harness' own set-up (e.g. the LZMA encoder that
/// produces a seed allocates a 64 MiB dictionary) is not subject to them.
pub static ARMED: AtomicU64 = AtomicU64::new(0);

pub struct Armed;

impl Armed {
    pub fn new() -> Armed {
        BASE.store(LIVE.load(Relaxed), Relaxed);
        PEAK.store(0, Relaxed);
        ARMED.store(1, Relaxed);
        Armed
    }
}

impl Drop for Armed {
    fn drop(&mut self) {
        ARMED.store(0, Relaxed);
        if let Some(s) = shared() {
            s.max_probe_live_heap.fetch_max(PEAK.load(Relaxed) as u64, Relaxed);
        }
    }
}

#[inline]
fn refuse(size: usize, old: usize, is_realloc: bool) -> bool {
    if ARMED.load(Relaxed) == 0 {
        return false;
    }
    let grow = if is_realloc { size.saturating_sub(old) } else { size };
    let over_cap = held().saturating_add(grow) > LIVE_CAP.load(Relaxed);
    if !over_cap && size < OBSERVE.load(Relaxed) && !(is_realloc && old >= RUNAWAY_OLD.load(Relaxed)) {
        return false;
    }
    let sh = shared();
    if size >= OBSERVE.load(Relaxed) {
        if let Some(s) = sh {
            s.observed_big.fetch_add(1, Relaxed);
            s.observed_max.fetch_max(size as u64, Relaxed);
        }
    }
    let kind = if is_realloc && old >= RUNAWAY_OLD.load(Relaxed) && size > old {
        2
    } else if size >= REFUSE.load(Relaxed) {
        1
    } else if over_cap {
        4
    } else {
        return false;
    };
    if let Some(s) = sh {
        // the first refusal of a probe is the one that is reported (the abort path may ask again)
        if s.refused_kind.load(Relaxed) == 0 {
            s.refused_size.store(size as u64, Relaxed);
            s.refused_old.store(old as u64, Relaxed);
            s.refused_kind.store(kind, Relaxed);
        }
    }
    marker(kind, size, old);
    if DIAG_PANIC.load(Relaxed) != 0 {
        // diagnosis only (mode=one): unwind with a backtrace instead of aborting
        DIAG_PANIC.store(0, Relaxed);
        panic!("C15 diagnosis: allocation of {size} bytes refused (kind {kind}, old block {old} bytes)");
    }
    true
}

pub static DIAG_PANIC: AtomicU64 = AtomicU64::new(0);

#[inline]
fn sys_null(p: *mut u8, size: usize) -> *mut u8 {
    if p.is_null() && size > 0 {
        if let Some(s) = shared() {
            if s.refused_kind.load(Relaxed) == 0 {
                s.refused_size.store(size as u64, Relaxed);
                s.refused_kind.store(3, Relaxed);
            }
        }
        marker(3, size, 0);
    }
    p
}

unsafe impl GlobalAlloc for Mon {
    unsafe fn alloc(&self, l: Layout) -> *mut u8 {
        if refuse(l.size(), 0, false) {
            return std::ptr::null_mut();
        }
        let p = sys_null(unsafe { System.alloc(l) }, l.size());
        if !p.is_null() {
            grew(l.size());
        }
        p
    }

    unsafe fn alloc_zeroed(&self, l: Layout) -> *mut u8 {
        if refuse(l.size(), 0, false) {
            return std::ptr::null_mut();
        }
        let p = sys_null(unsafe { System.alloc_zeroed(l) }, l.size());
        if !p.is_null() {
            grew(l.size());
        }
        p
    }

    unsafe fn realloc(&self, ptr: *mut u8, l: Layout, new_size: usize) -> *mut u8 {
        if refuse(new_size, l.size(), true) {
            return std::ptr::null_mut();
        }
        let p = sys_null(unsafe { System.realloc(ptr, l, new_size) }, new_size);
        if !p.is_null() {
            if new_size >= l.size() {
                grew(new_size - l.size());
            } else {
                LIVE.fetch_sub(l.size() - new_size, Relaxed);
            }
        }
        p
    }

    unsafe fn dealloc(&self, ptr: *mut u8, l: Layout) {
        LIVE.fetch_sub(l.size(), Relaxed);
        unsafe { System.dealloc(ptr, l) }
    }
}

/// Creates the shared page (once per process) and publishes it.
pub fn map_shared() -> &'static Shared {
    if let Some(s) = shared() {
        return s;
    }
    let len = std::mem::size_of::<Shared>().next_multiple_of(4096);
    let p = unsafe {
        libc::mmap(
            std::ptr::null_mut(),
            len,
            libc::PROT_READ | libc::PROT_WRITE,
            libc::MAP_SHARED | libc::MAP_ANONYMOUS,
            -1,
            0,
        )
    };
    assert!(p != libc::MAP_FAILED, "mmap of the shared page failed");
    SHARED.store(p as *mut Shared, Relaxed);
    shared().unwrap()
}

impl Shared {
    pub fn reset_probe(&self) {
        self.refused_size.store(0, Relaxed);
        self.refused_kind.store(0, Relaxed);
        self.refused_old.store(0, Relaxed);
        self.panics_in_probe.store(0, Relaxed);
        self.panic_len.store(0, Relaxed);
        self.in_debug_call.store(0, Relaxed);
        self.short_budget.store(0, Relaxed);
    }

    pub fn reset_batch(&self) {
        self.phase.store(0, Relaxed);
        self.progress.store(0, Relaxed);
        self.reset_probe();
        self.observed_big.store(0, Relaxed);
        self.observed_max.store(0, Relaxed);
        self.max_probe_cpu_us.store(0, Relaxed);
        self.max_valid_cpu_us.store(0, Relaxed);
        self.max_debug_call_us.store(0, Relaxed);
        self.max_valid_debug_call_us.store(0, Relaxed);
        self.max_probe_live_heap.store(0, Relaxed);
        self.max_valid_live_heap.store(0, Relaxed);
        for k in &self.max_valid_by_kind {
            k.store(0, Relaxed);
        }
        for r in &self.matrix {
            for c in r {
                c.store(0, Relaxed);
            }
        }
    }

    pub fn set_panic_text(&self, s: &str) {
        let b = s.as_bytes();
        let n = b.len().min(self.panic_text.len());
        for (i, &x) in b[..n].iter().enumerate() {
            self.panic_text[i].store(x, Relaxed);
        }
        self.panic_len.store(n as u64, Relaxed);
    }

    pub fn panic_text(&self) -> String {
        let n = (self.panic_len.load(Relaxed) as usize).min(self.panic_text.len());
        let v: Vec<u8> = self.panic_text[..n].iter().map(|a| a.load(Relaxed)).collect();
        String::from_utf8_lossy(&v).into_owned()
    }
}
