//! The seeds of a run: the deterministic corpus (independent of VERIF_SEED) with everything the mutation layers
//! need (inflated payloads, re-sealers, rawified CRAMs, structural boundaries, positions to mutate).

use corpus::{Item, Kind};
use vcore::Ctx;

use crate::{
    cramfmt,
    mutate::{self, Layer, Resealer},
};

/// Seed of the deterministic corpus (fixed: the deterministic part does not depend on VERIF_SEED).
pub const DET_SEED: u64 = 15;

pub struct Prepared {
    pub item: Item,
    pub layers: Vec<Layer>,
    pub boundaries: Vec<usize>,
    pub resealer: Option<Resealer>,
    pub payload_boundaries: Vec<usize>,
    pub cram_raw: Option<Vec<u8>>,
    pub cram_raw_boundaries: Vec<usize>,
    /// positions to mutate, per layer (same order as `layers`)
    pub positions: Vec<Vec<usize>>,
}

pub struct World {
    pub items: Vec<Prepared>,
    pub scale: u8,
}

fn transcript(kind: Kind, bytes: &[u8], side: &corpus::Side) -> Option<Vec<String>> {
    vcore::guard::catch(|| corpus::transcript_read(kind, bytes, side, false)).ok()
}

/// Rough CPU cost of one full read of a valid file of this kind, in µs per byte (measured on the corpus; only used
/// to size the deterministic enumeration, so it has to be a constant, not a measurement of the run).
fn cost_per_byte(kind: Kind) -> f64 {
    match kind {
        Kind::Vcf | Kind::VcfGz | Kind::Bcf | Kind::BcfRaw => 0.4,
        Kind::Fasta | Kind::Fastq => 0.03,
        Kind::Bgzf => 0.006,
        Kind::Bai | Kind::Csi | Kind::Tbi | Kind::Gzi | Kind::Fai | Kind::FastqFai | Kind::Crai => 0.03,
        _ => 0.1,
    }
}

/// `budget_us`: CPU budget of the deterministic enumeration of one (item, layer); `max_pos`: hard cap.
pub fn prepare(item: Item, budget_us: f64, max_pos: usize) -> Prepared {
    let boundaries = corpus::boundaries(&item);
    let mut layers = vec![Layer::Outer];
    let mut resealer = None;
    let mut payload_boundaries = vec![];
    let mut cram_raw = None;
    let mut cram_raw_boundaries = vec![];
    if item.kind.is_bgzf_wrapped() && item.kind != Kind::Bgzf {
        if let Some(p) = corpus::inflated_payload(&item) {
            payload_boundaries = match item.kind {
                Kind::Bam | Kind::Bcf | Kind::SamGz | Kind::VcfGz => corpus::record_boundaries_in_payload(&item).unwrap_or_default(),
                _ => vec![],
            };
            if !p.is_empty() {
                resealer = Some(Resealer::new(p, 65280));
                layers.push(Layer::Inflated);
            }
        }
    }
    if item.kind == Kind::Cram {
        layers.push(Layer::CramSealed);
        if let Some(model) = cramfmt::parse(&item.bytes) {
            // the model must reproduce the file, and the rawified file must read like the original
            if cramfmt::serialise(&model) == item.bytes {
                if let Some(raw) = cramfmt::rawify(&model) {
                    let bytes = cramfmt::serialise(&raw);
                    // container lengths and landmarks differ by construction (C: elements); headers and records must not
                    let strip = |t: Option<Vec<String>>| t.map(|t| t.into_iter().filter(|e| !e.starts_with("C:")).collect::<Vec<_>>());
                    let a = strip(transcript(Kind::Cram, &item.bytes, &item.side));
                    let b = strip(transcript(Kind::Cram, &bytes, &item.side));
                    if a.is_some() && a == b && a.as_ref().and_then(|t| t.last().cloned()).as_deref() == Some("END") {
                        let tmp = Item { kind: Kind::Cram, name: String::new(), bytes: bytes.clone(), side: Default::default() };
                        cram_raw_boundaries = corpus::boundaries(&tmp);
                        cram_raw = Some(bytes);
                        layers.push(Layer::CramRawSealed);
                    }
                }
            }
        }
    }
    let mut p = Prepared { item, layers, boundaries, resealer, payload_boundaries, cram_raw, cram_raw_boundaries, positions: vec![] };
    p.positions = p
        .layers
        .iter()
        .map(|&l| {
            let len = p.layer_len(l).max(p.item.bytes.len());
            let per_pos = (p.nsub(l) * p.item.kind.variants().len()) as f64 * (len as f64 * cost_per_byte(p.item.kind) + 15.0);
            let cap = ((budget_us / per_pos) as usize).clamp(40, max_pos);
            mutate::positions(p.layer_len(l), p.layer_boundaries(l), cap)
        })
        .collect();
    p
}

impl Prepared {
    pub fn layer_len(&self, l: Layer) -> usize {
        match l {
            Layer::Outer | Layer::CramSealed => self.item.bytes.len(),
            Layer::Inflated => self.resealer.as_ref().map(|r| r.payload.len()).unwrap_or(0),
            Layer::CramRawSealed => self.cram_raw.as_ref().map(|r| r.len()).unwrap_or(0),
        }
    }

    pub fn layer_boundaries(&self, l: Layer) -> &[usize] {
        match l {
            Layer::Outer | Layer::CramSealed => &self.boundaries,
            Layer::Inflated => &self.payload_boundaries,
            Layer::CramRawSealed => &self.cram_raw_boundaries,
        }
    }

    /// substitutions per position at this layer (truncation only where it means something new)
    pub fn nsub(&self, l: Layer) -> usize {
        match l {
            Layer::Outer | Layer::Inflated => 7,
            Layer::CramSealed | Layer::CramRawSealed => 6,
        }
    }

    pub fn layer_index(&self, l: Layer) -> usize {
        self.layers.iter().position(|&x| x == l).expect("layer of item")
    }

    /// The mutated file.
    pub fn mutated(&self, l: Layer, pos: usize, which: usize) -> Vec<u8> {
        match l {
            Layer::Outer => {
                if which == 6 {
                    self.item.bytes[..pos].to_vec()
                } else {
                    let mut v = self.item.bytes.clone();
                    v[pos] = mutate::subst(v[pos], which);
                    v
                }
            }
            Layer::Inflated => {
                let r = self.resealer.as_ref().expect("resealer");
                if which == 6 { r.truncated(pos) } else { r.with_byte(pos, mutate::subst(r.payload[pos], which)) }
            }
            Layer::CramSealed | Layer::CramRawSealed => {
                let mut v = if l == Layer::CramSealed { self.item.bytes.clone() } else { self.cram_raw.clone().expect("raw cram") };
                if which == 6 {
                    v.truncate(pos);
                } else {
                    v[pos] = mutate::subst(v[pos], which);
                }
                cramfmt::reseal_in_place(&mut v);
                v
            }
        }
    }
}

impl World {
    pub fn build(ctx: &Ctx) -> World {
        let scale: u8 = ctx.budget("scale", 1, 2) as u8;
        let max_pos = ctx.budget("detpos", 100_000, 1_000_000) as usize;
        // CPU seconds the deterministic enumeration of one (item, layer) may cost (estimate)
        let budget_us = ctx.budget("detbudget_s", 10, 200) as f64 * 1e6;
        let items = corpus::items(DET_SEED, scale).into_iter().map(|it| prepare(it, budget_us, max_pos)).collect();
        World { items, scale }
    }

    pub fn det_probe_count(&self, item: usize, layer: Layer) -> usize {
        let it = &self.items[item];
        it.positions[it.layer_index(layer)].len() * it.nsub(layer) * it.item.kind.variants().len()
    }

    /// Batch size (probes per case) so that a case stays well below a second of CPU.
    pub fn det_batch_size(&self, item: usize, layer: Layer) -> usize {
        let it = &self.items[item];
        let len = it.layer_len(layer).max(it.item.bytes.len());
        (6_000_000 / (len + 3000)).clamp(24, 2000)
    }

    /// m-th mutation of (item, layer) → (position, substitution index; 6 = truncate at position).
    pub fn det_mutation(&self, item: usize, layer: Layer, m: usize) -> (usize, usize) {
        let it = &self.items[item];
        let ns = it.nsub(layer);
        (it.positions[it.layer_index(layer)][m / ns], m % ns)
    }

    pub fn det_bytes(&self, item: usize, layer: Layer, pos: usize, which: usize) -> Vec<u8> {
        self.items[item].mutated(layer, pos, which)
    }

    pub fn list(&self) {
        let mut total = 0usize;
        for (i, it) in self.items.iter().enumerate() {
            let mut cpu = 0f64;
            for &v in it.item.kind.variants() {
                let t0 = vcore::guard::thread_cpu_s();
                let _ = crate::read_probe(it.item.kind, v, &it.item.bytes, &it.item.side);
                cpu += vcore::guard::thread_cpu_s() - t0;
            }
            let per: Vec<String> = it.layers.iter().map(|&l| format!("{}:{}pos/{}probes", l.name(), it.positions[it.layer_index(l)].len(), self.det_probe_count(i, l))).collect();
            let n: usize = it.layers.iter().map(|&l| self.det_probe_count(i, l)).sum();
            total += n;
            println!(
                "{:3} {:55} {:7}B infl={:7} raw={:7} valid_cpu={:7.0}us est={:6.1}s  {}",
                i,
                it.item.name,
                it.item.bytes.len(),
                it.layer_len(Layer::Inflated),
                it.layer_len(Layer::CramRawSealed),
                cpu * 1e6,
                cpu / it.item.kind.variants().len() as f64 * n as f64,
                per.join(" ")
            );
        }
        println!("total det probes: {total}");
    }
}
