//! The seeds of a run: the deterministic corpus (independent of VERIF_SEED) with everything the mutation layers
//! need (inflated payloads, re-sealers, rawified CRAMs, structural boundaries, positions to mutate).

use corpus::{Item, Kind};
use vcore::Ctx;

use crate::{
    cramfmt,
    mutate::{self, Layer, Resealer},
};

/// Seed of the deterministic corpus (fixed: the deterministic part does not depend on VERIF_SEED).
pub const DET_SEED: u64 = 15;

pub struct Prepared {
    pub item: Item,
    pub layers: Vec<Layer>,
    pub boundaries: Vec<usize>,
    pub resealer: Option<Resealer>,
    pub payload_boundaries: Vec<usize>,
    pub cram_raw: Option<Vec<u8>>,
    pub cram_raw_boundaries: Vec<usize>,
    /// positions to mutate, per layer (same order as `layers`)
    pub positions: Vec<Vec<usize>>,
    /// CRAM: the model the structured layer mutates and its addressable slots (container, slot)
    pub cram_model: Option<cramfmt::Cram>,
    pub cram_targets: Vec<(usize, cramfmt::Target)>,
    /// BCF: offsets of the typed-value descriptor bytes in the (inflated) stream
    pub bcf_descriptors: Vec<usize>,
}

pub struct World {
    /// deterministic corpus (fixed seed)
    pub items: Vec<Prepared>,
    /// corpus of VERIF_SEED, used by the seeded reader family
    pub seeded_items: Vec<Prepared>,
    #[allow(dead_code)]
    pub scale: u8,
    /// valid data files for the query families, per `queries::TARGETS` index
    pub data_infos: Vec<Vec<crate::queries::DataInfo>>,
    /// bgzipped GFF text built from the GFF items of the deterministic corpus: (name, bytes)
    pub gffgz: Vec<(String, Vec<u8>)>,
    pub debug_budget_s: f64,
    /// valid codec streams of the deterministic part
    pub det_encodings: Vec<crate::codecs::Encoding>,
    /// stored witnesses: (file name, expected signature, probe)
    pub witnesses: Vec<(String, String, crate::probe::Probe)>,
}

fn transcript(kind: Kind, bytes: &[u8], side: &corpus::Side) -> Option<Vec<String>> {
    vcore::guard::catch(|| corpus::transcript_read(kind, bytes, side, false)).ok()
}

/// Rough CPU cost of one full read of a valid file of this kind, in µs per byte (measured on the corpus; only used
/// to size the deterministic enumeration, so it has to be a constant, not a measurement of the run).
fn cost_per_byte(kind: Kind) -> f64 {
    match kind {
        Kind::Vcf | Kind::VcfGz | Kind::Bcf | Kind::BcfRaw => 0.4,
        Kind::Fasta | Kind::Fastq => 0.03,
        Kind::Bgzf => 0.006,
        Kind::Bai | Kind::Csi | Kind::Tbi | Kind::Gzi | Kind::Fai | Kind::FastqFai | Kind::Crai => 0.03,
        _ => 0.1,
    }
}

/// `budget_us`: CPU budget of the deterministic enumeration of one (item, layer); `max_pos`: hard cap.
pub fn prepare(item: Item, budget_us: f64, max_pos: usize) -> Prepared {
    let boundaries = corpus::boundaries(&item);
    let mut layers = vec![Layer::Outer];
    let mut resealer = None;
    let mut payload_boundaries = vec![];
    let mut cram_raw = None;
    let mut cram_raw_boundaries = vec![];
    if item.kind.is_bgzf_wrapped() && item.kind != Kind::Bgzf {
        if let Some(p) = corpus::inflated_payload(&item) {
            payload_boundaries = match item.kind {
                Kind::Bam | Kind::Bcf | Kind::SamGz | Kind::VcfGz => corpus::record_boundaries_in_payload(&item).unwrap_or_default(),
                _ => vec![],
            };
            if !p.is_empty() {
                resealer = Some(Resealer::new(p, 65280));
                layers.push(Layer::Inflated);
            }
        }
    }
    if item.kind == Kind::Cram {
        layers.push(Layer::CramSealed);
        if let Some(model) = cramfmt::parse(&item.bytes) {
            // the model must reproduce the file, and the rawified file must read like the original
            if cramfmt::serialise(&model) == item.bytes {
                if let Some(raw) = cramfmt::rawify(&model) {
                    let bytes = cramfmt::serialise(&raw);
                    // container lengths and landmarks differ by construction (C: elements); headers and records must not
                    let strip = |t: Option<Vec<String>>| t.map(|t| t.into_iter().filter(|e| !e.starts_with("C:")).collect::<Vec<_>>());
                    let a = strip(transcript(Kind::Cram, &item.bytes, &item.side));
                    let b = strip(transcript(Kind::Cram, &bytes, &item.side));
                    if a.is_some() && a == b && a.as_ref().and_then(|t| t.last().cloned()).as_deref() == Some("END") {
                        let tmp = Item { kind: Kind::Cram, name: String::new(), bytes: bytes.clone(), side: Default::default() };
                        cram_raw_boundaries = corpus::boundaries(&tmp);
                        cram_raw = Some(bytes);
                        layers.push(Layer::CramRawSealed);
                    }
                }
            }
        }
    }
    // BCF typed-value descriptors (walker written from the specification)
    let mut bcf_descriptors: Vec<usize> = vec![];
    if matches!(item.kind, Kind::Bcf | Kind::BcfRaw) {
        let stream: &[u8] = match (&resealer, item.kind) {
            (Some(r), Kind::Bcf) => &r.payload,
            _ => &item.bytes,
        };
        if item.kind == Kind::BcfRaw || resealer.is_some() {
            bcf_descriptors = crate::walkers::bcf(stream).fields.iter().filter(|f| f.name.ends_with("descriptor")).map(|f| f.off).collect();
            if !bcf_descriptors.is_empty() {
                layers.push(Layer::BcfTyped);
            }
        }
    }
    let mut cram_model = None;
    let mut cram_targets: Vec<(usize, cramfmt::Target)> = vec![];
    if item.kind == Kind::Cram {
        let src: &[u8] = cram_raw.as_deref().unwrap_or(&item.bytes);
        if let Some(model) = cramfmt::parse(src) {
            // data containers: the first two and the last one; block-id slots first
            let data: Vec<usize> = (0..model.containers.len()).filter(|&i| !model.containers[i].landmark_blocks.is_empty() && i > 0).collect();
            let mut pick: Vec<usize> = data.iter().copied().take(2).collect();
            if let Some(&l) = data.last() {
                if !pick.contains(&l) {
                    pick.push(l);
                }
            }
            let mut ids = vec![];
            let mut others = vec![];
            for ci in pick {
                for (t, is_id) in cramfmt::container_targets(&model, ci) {
                    if is_id { ids.push((ci, t)) } else { others.push((ci, t)) }
                }
            }
            ids.extend(others);
            if !ids.is_empty() {
                cram_targets = ids;
                cram_model = Some(model);
                layers.push(Layer::CramStruct);
            }
        }
    }
    let mut p = Prepared { item, layers, boundaries, resealer, payload_boundaries, cram_raw, cram_raw_boundaries, positions: vec![], cram_model, cram_targets, bcf_descriptors };
    p.positions = p
        .layers
        .iter()
        .map(|&l| {
            let len = p.layer_len(l).max(p.item.bytes.len());
            let per_pos = (p.nsub(l) * p.item.kind.variants().len()) as f64 * (len as f64 * cost_per_byte(p.item.kind) + 15.0);
            let cap = ((budget_us / per_pos) as usize).clamp(40.min(max_pos), max_pos);
            if l == Layer::BcfTyped {
                let n = p.bcf_descriptors.len();
                let stride = n.div_ceil(cap.max(1)).max(1);
                return p.bcf_descriptors.iter().copied().step_by(stride).collect();
            }
            if l == Layer::CramStruct {
                // slots, block ids first: all of them while the budget allows, then a stride over the rest
                let n = p.cram_targets.len();
                if n <= cap {
                    return (0..n).collect();
                }
                let head = cap / 2;
                let stride = ((n - head) / (cap - head).max(1)).max(1);
                return (0..head).chain((head..n).step_by(stride)).collect();
            }
            mutate::positions(p.layer_len(l), p.layer_boundaries(l), cap)
        })
        .collect();
    p
}

impl Prepared {
    pub fn layer_len(&self, l: Layer) -> usize {
        match l {
            Layer::Outer | Layer::CramSealed => self.item.bytes.len(),
            Layer::Inflated => self.resealer.as_ref().map(|r| r.payload.len()).unwrap_or(0),
            Layer::CramRawSealed | Layer::CramStruct => self.cram_raw.as_ref().map(|r| r.len()).unwrap_or(self.item.bytes.len()),
            Layer::BcfTyped => self.resealer.as_ref().map(|r| r.payload.len()).unwrap_or(self.item.bytes.len()),
        }
    }

    pub fn layer_boundaries(&self, l: Layer) -> &[usize] {
        match l {
            Layer::Outer | Layer::CramSealed => &self.boundaries,
            Layer::Inflated => &self.payload_boundaries,
            Layer::CramRawSealed | Layer::CramStruct => &self.cram_raw_boundaries,
            Layer::BcfTyped => &self.payload_boundaries,
        }
    }

    /// substitutions per position at this layer (truncation only where it means something new)
    pub fn nsub(&self, l: Layer) -> usize {
        match l {
            Layer::Outer | Layer::Inflated => 7,
            Layer::CramSealed | Layer::CramRawSealed => 6,
            Layer::CramStruct => cramfmt::STRUCT_VALUES.len(),
            Layer::BcfTyped => mutate::BCF_LENS.len() * mutate::BCF_TYPES.len(),
        }
    }

    pub fn layer_index(&self, l: Layer) -> usize {
        self.layers.iter().position(|&x| x == l).expect("layer of item")
    }

    /// The mutated file.
    pub fn mutated(&self, l: Layer, pos: usize, which: usize) -> Vec<u8> {
        match l {
            Layer::Outer => {
                if which == 6 {
                    self.item.bytes[..pos].to_vec()
                } else {
                    let mut v = self.item.bytes.clone();
                    v[pos] = mutate::subst(v[pos], which);
                    v
                }
            }
            Layer::Inflated => {
                let r = self.resealer.as_ref().expect("resealer");
                if which == 6 { r.truncated(pos) } else { r.with_byte(pos, mutate::subst(r.payload[pos], which)) }
            }
            Layer::BcfTyped => match (&self.resealer, self.item.kind) {
                (Some(r), Kind::Bcf) => r.with_byte(pos, mutate::bcf_descriptor(which)),
                _ => {
                    let mut v = self.item.bytes.clone();
                    v[pos] = mutate::bcf_descriptor(which);
                    v
                }
            },
            Layer::CramStruct => {
                let mut model = self.cram_model.clone().expect("cram model");
                let (ci, t) = self.cram_targets[pos];
                cramfmt::apply_target(&mut model, ci, t, which, None);
                cramfmt::serialise(&model)
            }
            Layer::CramSealed | Layer::CramRawSealed => {
                let mut v = if l == Layer::CramSealed { self.item.bytes.clone() } else { self.cram_raw.clone().expect("raw cram") };
                if which == 6 {
                    v.truncate(pos);
                } else {
                    v[pos] = mutate::subst(v[pos], which);
                }
                cramfmt::reseal_in_place(&mut v);
                v
            }
        }
    }
}

impl World {
    pub fn build(ctx: &Ctx) -> World {
        let scale: u8 = ctx.budget("scale", 1, 2) as u8;
        let max_pos = ctx.budget("detpos", 100_000, 1_000_000) as usize;
        // CPU seconds the deterministic enumeration of one (item, layer) may cost (estimate)
        let budget_us = ctx.budget("detbudget_s", 8, 60) as f64 * 1e6;
        // fixed corpus + minimal items (records with nothing behind the mandatory fields, see `minimal`)
        let items: Vec<Prepared> = corpus::items(DET_SEED, scale).into_iter().chain(crate::minimal::items()).map(|it| prepare(it, budget_us, max_pos)).collect();
        let seeded_items: Vec<Prepared> = if ctx.param("noseeded").is_some() {
            vec![]
        } else {
            corpus::items(ctx.seed, scale).into_iter().chain(crate::minimal::items()).map(|it| prepare(it, 0.0, 1)).collect()
        };
        let gffgz: Vec<(String, Vec<u8>)> = items
            .iter()
            .filter(|p| p.item.kind == Kind::Gff && p.item.name.contains("canonical"))
            .map(|p| (format!("gffgz:{}", p.item.name), vcore::bgzf::reseal(&p.item.bytes, 4000)))
            .collect();
        let mut w = World {
            items,
            seeded_items,
            scale,
            data_infos: vec![],
            gffgz,
            debug_budget_s: ctx.param("debug_budget_s").and_then(|s| s.parse().ok()).unwrap_or(0.25),
            det_encodings: crate::codecs::det_encodings(),
            witnesses: vec![],
        };
        // stored witnesses of the known findings: <root>/findings/C15-witness-*.json
        let root = ctx.replays.parent().map(|p| p.to_path_buf()).unwrap_or_default();
        if let Ok(rd) = std::fs::read_dir(root.join("findings")) {
            let mut names: Vec<_> = rd.filter_map(|e| e.ok()).map(|e| e.path()).filter(|p| p.file_name().map(|n| { let n = n.to_string_lossy(); n.starts_with("C15-witness-") && n.ends_with(".json") }).unwrap_or(false)).collect();
            names.sort();
            for p in names {
                let Ok(text) = std::fs::read_to_string(&p) else { continue };
                let Ok(v) = serde_json::from_str::<serde_json::Value>(&text) else { continue };
                if let Some(probe) = crate::probe::Probe::from_json(&v["probe"]) {
                    w.witnesses.push((p.file_name().unwrap().to_string_lossy().into_owned(), v["sig"].as_str().unwrap_or("").to_string(), probe));
                }
            }
        }
        w.data_infos = w.build_data_infos();
        w
    }

    /// `Side` of a deterministic corpus item (CRAM reference, BED width); default when the name is unknown.
    pub fn side_of(&self, name: &str, kind: Kind) -> corpus::Side {
        if let Some(p) = self.items.iter().chain(self.seeded_items.iter()).find(|p| p.item.name == name) {
            return p.item.side.clone();
        }
        // a witness may name an item of another scale: fall back to any item of the kind
        self.items.iter().find(|p| p.item.kind == kind).map(|p| p.item.side.clone()).unwrap_or_default()
    }

    /// Bytes and side of the valid data file a query probe names.
    pub fn data_of(&self, q: &crate::queries::Probe) -> (Vec<u8>, corpus::Side) {
        use crate::queries::Probe as Q;
        let name = match q {
            Q::Binning { data, .. } | Q::Seek { data, .. } | Q::Gzi { data, .. } | Q::Fai { data, .. } | Q::Crai { data, .. } | Q::BgzfRead { data, .. } => data,
        };
        if let Some((_, b)) = self.gffgz.iter().find(|(n, _)| n == name) {
            return (b.clone(), corpus::Side::default());
        }
        match self.items.iter().find(|p| &p.item.name == name) {
            Some(p) => (p.item.bytes.clone(), p.item.side.clone()),
            None => (Vec::new(), corpus::Side::default()),
        }
    }

    fn build_data_infos(&self) -> Vec<Vec<crate::queries::DataInfo>> {
        use crate::queries::DataInfo;
        let blocks = |b: &[u8]| -> Vec<(u64, u64)> {
            vcore::bgzf::walk_prefix(b).map(|(w, _)| w.members.iter().map(|m| (m.offset, m.data.len() as u64)).collect()).unwrap_or_default()
        };
        let sam_refs = |h: &noodles_sam::Header| -> (Vec<Vec<u8>>, Vec<usize>) {
            (h.reference_sequences().keys().map(|k| k.to_vec()).collect(), h.reference_sequences().values().map(|v| usize::from(v.length())).collect())
        };
        let mut out: Vec<Vec<DataInfo>> = vec![vec![]; crate::queries::TARGETS.len()];
        for p in &self.items {
            let b = &p.item.bytes;
            let mut d = DataInfo { name: p.item.name.clone(), len: b.len() as u64, ..Default::default() };
            // large files make every query slow without adding shapes
            if b.len() > 50_000 {
                continue;
            }
            let r = vcore::guard::catch(|| -> Option<usize> {
                match p.item.kind {
                    Kind::Bam => {
                        let h = noodles_bam::io::Reader::new(&b[..]).read_header().ok()?;
                        (d.ref_names, d.ref_lens) = sam_refs(&h);
                        d.blocks = blocks(b);
                        Some(0)
                    }
                    Kind::SamGz => {
                        let h = noodles_sam::io::Reader::new(noodles_bgzf::io::Reader::new(&b[..])).read_header().ok()?;
                        (d.ref_names, d.ref_lens) = sam_refs(&h);
                        d.blocks = blocks(b);
                        Some(3)
                    }
                    Kind::Bcf | Kind::VcfGz => {
                        let h = if p.item.kind == Kind::Bcf {
                            noodles_bcf::io::Reader::new(&b[..]).read_header().ok()?
                        } else {
                            noodles_vcf::io::Reader::new(noodles_bgzf::io::Reader::new(&b[..])).read_header().ok()?
                        };
                        d.ref_names = h.contigs().keys().map(|k| k.as_bytes().to_vec()).collect();
                        d.ref_lens = h.contigs().values().map(|c| c.length().unwrap_or(1000)).collect();
                        d.blocks = blocks(b);
                        Some(if p.item.kind == Kind::Bcf { 1 } else { 2 })
                    }
                    Kind::Bgzf => {
                        d.blocks = blocks(b);
                        Some(5)
                    }
                    Kind::Fasta => {
                        for line in b.split(|&c| c == b'\n') {
                            if let Some(rest) = line.strip_prefix(b">") {
                                d.ref_names.push(rest.split(|c| c.is_ascii_whitespace()).next().unwrap_or(b"").to_vec());
                                d.ref_lens.push(500);
                            }
                        }
                        Some(7)
                    }
                    Kind::Cram => {
                        let repo = noodles_fasta::Repository::default();
                        let h = noodles_cram::io::reader::Builder::default().set_reference_sequence_repository(repo).build_from_reader(&b[..]).read_header().ok()?;
                        (d.ref_names, d.ref_lens) = sam_refs(&h);
                        d.containers = corpus::cram_layout(b).containers.iter().map(|&c| c as u64).collect();
                        Some(8)
                    }
                    _ => None,
                }
            });
            if let Ok(Some(t)) = r {
                if t == 5 {
                    out[6].push(d.clone());
                }
                out[t].push(d);
            }
        }
        for (name, b) in &self.gffgz {
            let mut d = DataInfo { name: name.clone(), len: b.len() as u64, blocks: blocks(b), ..Default::default() };
            if let Ok((w, _)) = vcore::bgzf::walk_prefix(b) {
                let text = w.concat();
                for line in text.split(|&c| c == b'\n') {
                    if !line.starts_with(b"#") {
                        if let Some(first) = line.split(|&c| c == b'\t').next() {
                            if !first.is_empty() && !d.ref_names.iter().any(|n| n == first) {
                                d.ref_names.push(first.to_vec());
                                d.ref_lens.push(5000);
                            }
                        }
                    }
                }
            }
            out[4].push(d);
        }
        out
    }

    pub fn det_probe_count(&self, item: usize, layer: Layer) -> usize {
        let it = &self.items[item];
        it.positions[it.layer_index(layer)].len() * it.nsub(layer) * it.item.kind.variants().len()
    }

    /// Batch size (probes per case) so that a case stays well below a second of CPU.
    pub fn det_batch_size(&self, item: usize, layer: Layer) -> usize {
        let it = &self.items[item];
        let len = it.layer_len(layer).max(it.item.bytes.len());
        (6_000_000 / (len + 3000)).clamp(24, 2000)
    }

    /// m-th mutation of (item, layer) → (position, substitution index; 6 = truncate at position).
    pub fn det_mutation(&self, item: usize, layer: Layer, m: usize) -> (usize, usize) {
        let it = &self.items[item];
        let ns = it.nsub(layer);
        (it.positions[it.layer_index(layer)][m / ns], m % ns)
    }

    /// How the mutation reads in a description.
    pub fn det_describe(&self, item: usize, layer: Layer, pos: usize, which: usize) -> String {
        let it = &self.items[item];
        if layer == Layer::CramStruct {
            let mut model = it.cram_model.clone().expect("cram model");
            let (ci, t) = it.cram_targets[pos];
            let d = cramfmt::apply_target(&mut model, ci, t, which, None);
            format!("{d} [{}]", cramfmt::STRUCT_VALUES[which])
        } else if layer == Layer::BcfTyped {
            format!("typed descriptor byte {pos} <- {:#04x}", mutate::bcf_descriptor(which))
        } else {
            format!("byte {pos} {}", crate::mutate::SUBST_NAMES[which])
        }
    }

    pub fn det_bytes(&self, item: usize, layer: Layer, pos: usize, which: usize) -> Vec<u8> {
        self.items[item].mutated(layer, pos, which)
    }

    pub fn list(&self) {
        let mut total = 0usize;
        for (i, it) in self.items.iter().enumerate() {
            let mut cpu = 0f64;
            for &v in it.item.kind.variants() {
                let t0 = vcore::guard::thread_cpu_s();
                let _ = crate::probe::read_probe(it.item.kind, v, &it.item.bytes, &it.item.side);
                cpu += vcore::guard::thread_cpu_s() - t0;
            }
            let per: Vec<String> = it.layers.iter().map(|&l| format!("{}:{}pos/{}probes", l.name(), it.positions[it.layer_index(l)].len(), self.det_probe_count(i, l))).collect();
            let n: usize = it.layers.iter().map(|&l| self.det_probe_count(i, l)).sum();
            total += n;
            println!(
                "{:3} {:55} {:7}B infl={:7} raw={:7} valid_cpu={:7.0}us est={:6.1}s  {}",
                i,
                it.item.name,
                it.item.bytes.len(),
                it.layer_len(Layer::Inflated),
                it.layer_len(Layer::CramRawSealed),
                cpu * 1e6,
                cpu / it.item.kind.variants().len() as f64 * n as f64,
                per.join(" ")
            );
        }
        println!("total det probes: {total}");
    }
}
