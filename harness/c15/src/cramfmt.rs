//! A small CRAM 3.x container model written from the specification (CRAMv3 §6–§8): parse a valid file into
//! containers and blocks, re-serialise it with consistent sizes, landmarks and CRC32s, re-write every block as a
//! raw block ("rawify", so that byte mutations reach the record decoder instead of dying in gzip/rANS), and a
//! tolerant in-place CRC re-sealer for mutated files.

use vcore::bgzf::crc32;

pub fn read_itf8(b: &[u8], p: usize) -> Option<(i32, usize)> {
    let b0 = *b.get(p)? as u32;
    let n = if b0 & 0x80 == 0 {
        0
    } else if b0 & 0x40 == 0 {
        1
    } else if b0 & 0x20 == 0 {
        2
    } else if b0 & 0x10 == 0 {
        3
    } else {
        4
    };
    let r = b.get(p + 1..p + 1 + n)?;
    let v: u32 = match n {
        0 => b0,
        1 => ((b0 & 0x7f) << 8) | r[0] as u32,
        2 => ((b0 & 0x3f) << 16) | (r[0] as u32) << 8 | r[1] as u32,
        3 => ((b0 & 0x1f) << 24) | (r[0] as u32) << 16 | (r[1] as u32) << 8 | r[2] as u32,
        _ => ((b0 & 0x0f) << 28) | (r[0] as u32) << 20 | (r[1] as u32) << 12 | (r[2] as u32) << 4 | (r[3] as u32 & 0x0f),
    };
    Some((v as i32, n + 1))
}

pub fn write_itf8(out: &mut Vec<u8>, v: i32) {
    let v = v as u32;
    if v >> 7 == 0 {
        out.push(v as u8);
    } else if v >> 14 == 0 {
        out.extend_from_slice(&[(v >> 8) as u8 | 0x80, v as u8]);
    } else if v >> 21 == 0 {
        out.extend_from_slice(&[(v >> 16) as u8 | 0xc0, (v >> 8) as u8, v as u8]);
    } else if v >> 28 == 0 {
        out.extend_from_slice(&[(v >> 24) as u8 | 0xe0, (v >> 16) as u8, (v >> 8) as u8, v as u8]);
    } else {
        out.extend_from_slice(&[(v >> 28) as u8 | 0xf0, (v >> 20) as u8, (v >> 12) as u8, (v >> 4) as u8, (v & 0x0f) as u8]);
    }
}

pub fn read_ltf8(b: &[u8], p: usize) -> Option<(i64, usize)> {
    let b0 = *b.get(p)?;
    let n = (b0.leading_ones() as usize).min(8);
    let r = b.get(p + 1..p + 1 + n)?;
    let mut v: u64 = (b0 as u64) & (0xffu64 >> (n + 1));
    for &x in r {
        v = (v << 8) | x as u64;
    }
    Some((v as i64, n + 1))
}

pub fn write_ltf8(out: &mut Vec<u8>, v: i64) {
    let v = v as u64;
    // n continuation bytes carry 7 + 7n payload bits (n = 0..=7), the 9-byte form carries 64
    let mut n = 0usize;
    while n < 8 && v >> (7 + 7 * n) != 0 {
        n += 1;
    }
    if n == 8 {
        out.push(0xff);
        out.extend_from_slice(&v.to_be_bytes());
        return;
    }
    let lead: u8 = if n == 0 { 0 } else { (0xffu16 << (8 - n)) as u8 };
    let top = if n >= 7 { 0 } else { ((v >> (8 * n)) as u8) & (0xffu8 >> (n + 1)) };
    out.push(lead | top);
    for i in (0..n).rev() {
        out.push((v >> (8 * i)) as u8);
    }
}

#[derive(Clone, Debug, PartialEq)]
pub struct Block {
    pub method: u8,
    pub ctype: u8,
    pub cid: i32,
    pub raw_size: i32,
    /// bytes as stored in the file
    pub data: Vec<u8>,
    /// serialise this instead of `data.len()` as the stored size
    pub size_override: Option<i32>,
}

#[derive(Clone, Debug, PartialEq)]
pub struct Container {
    pub ref_id: i32,
    pub start: i32,
    pub span: i32,
    pub n_records: i32,
    pub counter: i64,
    pub bases: i64,
    pub n_blocks: i32,
    /// block index (into `blocks`) each landmark points at
    pub landmark_blocks: Vec<usize>,
    pub landmarks_override: Option<Vec<i32>>,
    pub length_override: Option<i32>,
    pub blocks: Vec<Block>,
}

#[derive(Clone, Debug, PartialEq)]
pub struct Cram {
    pub def: Vec<u8>,
    pub containers: Vec<Container>,
}

fn i32le(b: &[u8], p: usize) -> Option<i32> {
    b.get(p..p + 4).map(|s| i32::from_le_bytes([s[0], s[1], s[2], s[3]]))
}

/// Strict parse of a complete, valid CRAM 3.x file.
pub fn parse(b: &[u8]) -> Option<Cram> {
    if b.len() < 26 || &b[..4] != b"CRAM" || b[4] != 3 {
        return None;
    }
    let mut c = Cram { def: b[..26].to_vec(), containers: vec![] };
    let mut p = 26;
    while p < b.len() {
        let length = i32le(b, p)?;
        let mut q = p + 4;
        let next = |q: &mut usize| -> Option<i32> {
            let (v, n) = read_itf8(b, *q)?;
            *q += n;
            Some(v)
        };
        let ref_id = next(&mut q)?;
        let start = next(&mut q)?;
        let span = next(&mut q)?;
        let n_records = next(&mut q)?;
        let (counter, n) = read_ltf8(b, q)?;
        q += n;
        let (bases, n) = read_ltf8(b, q)?;
        q += n;
        let n_blocks = next(&mut q)?;
        let nl = next(&mut q)?;
        let mut landmarks = vec![];
        for _ in 0..nl {
            landmarks.push(next(&mut q)?);
        }
        q += 4;
        let body = q;
        let end = body.checked_add(usize::try_from(length).ok()?)?;
        if end > b.len() {
            return None;
        }
        let mut blocks = vec![];
        let mut offsets = vec![];
        let mut r = body;
        while r < end {
            offsets.push(r - body);
            let method = *b.get(r)?;
            let ctype = *b.get(r + 1)?;
            let mut s = r + 2;
            let (cid, n) = read_itf8(b, s)?;
            s += n;
            let (size, n) = read_itf8(b, s)?;
            s += n;
            let (raw_size, n) = read_itf8(b, s)?;
            s += n;
            let size = usize::try_from(size).ok()?;
            let data = b.get(s..s + size)?.to_vec();
            r = s + size + 4;
            if r > end {
                return None;
            }
            blocks.push(Block { method, ctype, cid, raw_size, data, size_override: None });
        }
        let mut landmark_blocks = vec![];
        for lm in &landmarks {
            landmark_blocks.push(offsets.iter().position(|&o| o as i32 == *lm)?);
        }
        c.containers.push(Container {
            ref_id,
            start,
            span,
            n_records,
            counter,
            bases,
            n_blocks,
            landmark_blocks,
            landmarks_override: None,
            length_override: None,
            blocks,
        });
        p = end;
    }
    Some(c)
}

pub fn serialise_block(out: &mut Vec<u8>, bl: &Block) {
    let s = out.len();
    out.push(bl.method);
    out.push(bl.ctype);
    write_itf8(out, bl.cid);
    write_itf8(out, bl.size_override.unwrap_or(bl.data.len() as i32));
    write_itf8(out, bl.raw_size);
    out.extend_from_slice(&bl.data);
    let crc = crc32(&out[s..]);
    out.extend_from_slice(&crc.to_le_bytes());
}

pub fn serialise(c: &Cram) -> Vec<u8> {
    let mut out = c.def.clone();
    for ct in &c.containers {
        let mut body = Vec::new();
        let mut offsets = vec![];
        for bl in &ct.blocks {
            offsets.push(body.len() as i32);
            serialise_block(&mut body, bl);
        }
        let s = out.len();
        out.extend_from_slice(&ct.length_override.unwrap_or(body.len() as i32).to_le_bytes());
        write_itf8(&mut out, ct.ref_id);
        write_itf8(&mut out, ct.start);
        write_itf8(&mut out, ct.span);
        write_itf8(&mut out, ct.n_records);
        write_ltf8(&mut out, ct.counter);
        write_ltf8(&mut out, ct.bases);
        write_itf8(&mut out, ct.n_blocks);
        let lms: Vec<i32> = match &ct.landmarks_override {
            Some(v) => v.clone(),
            None => ct.landmark_blocks.iter().map(|&i| offsets.get(i).copied().unwrap_or(body.len() as i32)).collect(),
        };
        write_itf8(&mut out, lms.len() as i32);
        for l in lms {
            write_itf8(&mut out, l);
        }
        let crc = crc32(&out[s..]);
        out.extend_from_slice(&crc.to_le_bytes());
        out.extend_from_slice(&body);
    }
    out
}

/// Decodes one block with noodles' own codecs (only used to build *seeds*; the result is validated by reading
/// the rawified file and comparing transcripts with the original).
fn decode_block(bl: &Block) -> Option<Vec<u8>> {
    use noodles_cram::verif::codecs as c;
    let n = usize::try_from(bl.raw_size).ok()?;
    match bl.method {
        0 => Some(bl.data.clone()),
        1 => {
            let mut dst = vec![0; n];
            c::gzip::decode(&bl.data, &mut dst).ok()?;
            Some(dst)
        }
        2 => {
            let mut dst = vec![0; n];
            c::bzip2::decode(&bl.data, &mut dst).ok()?;
            Some(dst)
        }
        3 => {
            let mut dst = vec![0; n];
            c::lzma::decode(&bl.data, &mut dst).ok()?;
            Some(dst)
        }
        4 => c::rans_4x8::decode(&bl.data).ok(),
        5 => c::rans_nx16::decode(&bl.data, n).ok(),
        6 => c::aac::decode(&bl.data, n).ok(),
        7 => c::fqzcomp::decode(&bl.data).ok(),
        8 => c::name_tokenizer::decode(&bl.data).ok(),
        _ => None,
    }
}

/// Every block re-written as a raw block. `None` if a block does not decode.
pub fn rawify(c: &Cram) -> Option<Cram> {
    let mut c = c.clone();
    for ct in &mut c.containers {
        for bl in &mut ct.blocks {
            if bl.method != 0 {
                let d = decode_block(bl)?;
                if d.len() != bl.raw_size as usize {
                    return None;
                }
                bl.data = d;
                bl.method = 0;
            }
        }
    }
    Some(c)
}

/// Tolerant in-place re-sealer: walks whatever parses as container headers and blocks and re-computes their
/// CRC32s (stops at the first thing that does not parse). Returns the number of CRCs written.
pub fn reseal_in_place(b: &mut [u8]) -> usize {
    if b.len() < 26 || &b[..4] != b"CRAM" || b[4] < 3 {
        return 0;
    }
    let mut fixed = 0;
    let mut p = 26usize;
    'containers: while p + 4 <= b.len() {
        let Some(length) = i32le(b, p) else { break };
        let mut q = p + 4;
        for _ in 0..4 {
            let Some((_, n)) = read_itf8(b, q) else { break 'containers };
            q += n;
        }
        for _ in 0..2 {
            let Some((_, n)) = read_ltf8(b, q) else { break 'containers };
            q += n;
        }
        let Some((_, n)) = read_itf8(b, q) else { break };
        q += n;
        let Some((nl, n)) = read_itf8(b, q) else { break };
        q += n;
        // a hostile landmark count is walked only as far as there are bytes
        for _ in 0..nl.max(0) {
            let Some((_, n)) = read_itf8(b, q) else { break 'containers };
            q += n;
        }
        if q + 4 > b.len() {
            break;
        }
        let crc = crc32(&b[p..q]);
        b[q..q + 4].copy_from_slice(&crc.to_le_bytes());
        fixed += 1;
        let body = q + 4;
        let end = if length < 0 { b.len() } else { body.saturating_add(length as usize).min(b.len()) };
        let mut r = body;
        while r + 2 < end {
            let mut s = r + 2;
            let Some((_, n)) = read_itf8(b, s) else { break };
            s += n;
            let Some((size, n)) = read_itf8(b, s) else { break };
            s += n;
            let Some((_, n)) = read_itf8(b, s) else { break };
            s += n;
            if size < 0 {
                break;
            }
            let e = s.saturating_add(size as usize);
            if e.saturating_add(4) > b.len() {
                break;
            }
            let crc = crc32(&b[r..e]);
            b[e..e + 4].copy_from_slice(&crc.to_le_bytes());
            fixed += 1;
            r = e + 4;
        }
        if length < 0 {
            break;
        }
        p = body.saturating_add(length as usize);
    }
    fixed
}

#[cfg(test)]
mod tests {
    use super::*;

    #[test]
    fn itf8_ltf8_round_trip() {
        for v in [0i32, 1, 127, 128, 16383, 16384, 1 << 21, (1 << 28) - 1, 1 << 28, i32::MAX, -1, i32::MIN] {
            let mut o = vec![];
            write_itf8(&mut o, v);
            assert_eq!(read_itf8(&o, 0), Some((v, o.len())), "{v}");
        }
        for v in [0i64, 1, 127, 128, 1 << 14, 1 << 21, 1 << 28, 1 << 35, 1 << 42, 1 << 49, 1 << 56, i64::MAX, -1] {
            let mut o = vec![];
            write_ltf8(&mut o, v);
            assert_eq!(read_ltf8(&o, 0), Some((v, o.len())), "{v}");
        }
    }
}
