//! A small CRAM 3.x container model written from the specification (CRAMv3 §6–§8): parse a valid file into
//! containers and blocks, re-serialise it with consistent sizes, landmarks and CRC32s, re-write every block as a
//! raw block ("rawify", so that byte mutations reach the record decoder instead of dying in gzip/rANS), and a
//! tolerant in-place CRC re-sealer for mutated files.

use vcore::bgzf::crc32;

pub fn read_itf8(b: &[u8], p: usize) -> Option<(i32, usize)> {
    let b0 = *b.get(p)? as u32;
    let n = if b0 & 0x80 == 0 {
        0
    } else if b0 & 0x40 == 0 {
        1
    } else if b0 & 0x20 == 0 {
        2
    } else if b0 & 0x10 == 0 {
        3
    } else {
        4
    };
    let r = b.get(p + 1..p + 1 + n)?;
    let v: u32 = match n {
        0 => b0,
        1 => ((b0 & 0x7f) << 8) | r[0] as u32,
        2 => ((b0 & 0x3f) << 16) | (r[0] as u32) << 8 | r[1] as u32,
        3 => ((b0 & 0x1f) << 24) | (r[0] as u32) << 16 | (r[1] as u32) << 8 | r[2] as u32,
        _ => ((b0 & 0x0f) << 28) | (r[0] as u32) << 20 | (r[1] as u32) << 12 | (r[2] as u32) << 4 | (r[3] as u32 & 0x0f),
    };
    Some((v as i32, n + 1))
}

pub fn write_itf8(out: &mut Vec<u8>, v: i32) {
    let v = v as u32;
    if v >> 7 == 0 {
        out.push(v as u8);
    } else if v >> 14 == 0 {
        out.extend_from_slice(&[(v >> 8) as u8 | 0x80, v as u8]);
    } else if v >> 21 == 0 {
        out.extend_from_slice(&[(v >> 16) as u8 | 0xc0, (v >> 8) as u8, v as u8]);
    } else if v >> 28 == 0 {
        out.extend_from_slice(&[(v >> 24) as u8 | 0xe0, (v >> 16) as u8, (v >> 8) as u8, v as u8]);
    } else {
        out.extend_from_slice(&[(v >> 28) as u8 | 0xf0, (v >> 20) as u8, (v >> 12) as u8, (v >> 4) as u8, (v & 0x0f) as u8]);
    }
}

pub fn read_ltf8(b: &[u8], p: usize) -> Option<(i64, usize)> {
    let b0 = *b.get(p)?;
    let n = (b0.leading_ones() as usize).min(8);
    let r = b.get(p + 1..p + 1 + n)?;
    let mut v: u64 = (b0 as u64) & (0xffu64 >> (n + 1));
    for &x in r {
        v = (v << 8) | x as u64;
    }
    Some((v as i64, n + 1))
}

pub fn write_ltf8(out: &mut Vec<u8>, v: i64) {
    let v = v as u64;
    // n continuation bytes carry 7 + 7n payload bits (n = 0..=7), the 9-byte form carries 64
    let mut n = 0usize;
    while n < 8 && v >> (7 + 7 * n) != 0 {
        n += 1;
    }
    if n == 8 {
        out.push(0xff);
        out.extend_from_slice(&v.to_be_bytes());
        return;
    }
    let lead: u8 = if n == 0 { 0 } else { (0xffu16 << (8 - n)) as u8 };
    let top = if n >= 7 { 0 } else { ((v >> (8 * n)) as u8) & (0xffu8 >> (n + 1)) };
    out.push(lead | top);
    for i in (0..n).rev() {
        out.push((v >> (8 * i)) as u8);
    }
}

#[derive(Clone, Debug, PartialEq)]
pub struct Block {
    pub method: u8,
    pub ctype: u8,
    pub cid: i32,
    pub raw_size: i32,
    /// bytes as stored in the file
    pub data: Vec<u8>,
    /// serialise this instead of `data.len()` as the stored size
    pub size_override: Option<i32>,
}

#[derive(Clone, Debug, PartialEq)]
pub struct Container {
    pub ref_id: i32,
    pub start: i32,
    pub span: i32,
    pub n_records: i32,
    pub counter: i64,
    pub bases: i64,
    pub n_blocks: i32,
    /// block index (into `blocks`) each landmark points at
    pub landmark_blocks: Vec<usize>,
    pub landmarks_override: Option<Vec<i32>>,
    pub length_override: Option<i32>,
    pub blocks: Vec<Block>,
}

#[derive(Clone, Debug, PartialEq)]
pub struct Cram {
    pub def: Vec<u8>,
    pub containers: Vec<Container>,
}

fn i32le(b: &[u8], p: usize) -> Option<i32> {
    b.get(p..p + 4).map(|s| i32::from_le_bytes([s[0], s[1], s[2], s[3]]))
}

/// Strict parse of a complete, valid CRAM 3.x file.
pub fn parse(b: &[u8]) -> Option<Cram> {
    if b.len() < 26 || &b[..4] != b"CRAM" || b[4] != 3 {
        return None;
    }
    let mut c = Cram { def: b[..26].to_vec(), containers: vec![] };
    let mut p = 26;
    while p < b.len() {
        let length = i32le(b, p)?;
        let mut q = p + 4;
        let next = |q: &mut usize| -> Option<i32> {
            let (v, n) = read_itf8(b, *q)?;
            *q += n;
            Some(v)
        };
        let ref_id = next(&mut q)?;
        let start = next(&mut q)?;
        let span = next(&mut q)?;
        let n_records = next(&mut q)?;
        let (counter, n) = read_ltf8(b, q)?;
        q += n;
        let (bases, n) = read_ltf8(b, q)?;
        q += n;
        let n_blocks = next(&mut q)?;
        let nl = next(&mut q)?;
        let mut landmarks = vec![];
        for _ in 0..nl {
            landmarks.push(next(&mut q)?);
        }
        q += 4;
        let body = q;
        let end = body.checked_add(usize::try_from(length).ok()?)?;
        if end > b.len() {
            return None;
        }
        let mut blocks = vec![];
        let mut offsets = vec![];
        let mut r = body;
        while r < end {
            offsets.push(r - body);
            let method = *b.get(r)?;
            let ctype = *b.get(r + 1)?;
            let mut s = r + 2;
            let (cid, n) = read_itf8(b, s)?;
            s += n;
            let (size, n) = read_itf8(b, s)?;
            s += n;
            let (raw_size, n) = read_itf8(b, s)?;
            s += n;
            let size = usize::try_from(size).ok()?;
            let data = b.get(s..s + size)?.to_vec();
            r = s + size + 4;
            if r > end {
                return None;
            }
            blocks.push(Block { method, ctype, cid, raw_size, data, size_override: None });
        }
        let mut landmark_blocks = vec![];
        for lm in &landmarks {
            landmark_blocks.push(offsets.iter().position(|&o| o as i32 == *lm)?);
        }
        c.containers.push(Container {
            ref_id,
            start,
            span,
            n_records,
            counter,
            bases,
            n_blocks,
            landmark_blocks,
            landmarks_override: None,
            length_override: None,
            blocks,
        });
        p = end;
    }
    Some(c)
}

pub fn serialise_block(out: &mut Vec<u8>, bl: &Block) {
    let s = out.len();
    out.push(bl.method);
    out.push(bl.ctype);
    write_itf8(out, bl.cid);
    write_itf8(out, bl.size_override.unwrap_or(bl.data.len() as i32));
    write_itf8(out, bl.raw_size);
    out.extend_from_slice(&bl.data);
    let crc = crc32(&out[s..]);
    out.extend_from_slice(&crc.to_le_bytes());
}

pub fn serialise(c: &Cram) -> Vec<u8> {
    let mut out = c.def.clone();
    for ct in &c.containers {
        let mut body = Vec::new();
        let mut offsets = vec![];
        for bl in &ct.blocks {
            offsets.push(body.len() as i32);
            serialise_block(&mut body, bl);
        }
        let s = out.len();
        out.extend_from_slice(&ct.length_override.unwrap_or(body.len() as i32).to_le_bytes());
        write_itf8(&mut out, ct.ref_id);
        write_itf8(&mut out, ct.start);
        write_itf8(&mut out, ct.span);
        write_itf8(&mut out, ct.n_records);
        write_ltf8(&mut out, ct.counter);
        write_ltf8(&mut out, ct.bases);
        write_itf8(&mut out, ct.n_blocks);
        let lms: Vec<i32> = match &ct.landmarks_override {
            Some(v) => v.clone(),
            None => ct.landmark_blocks.iter().map(|&i| offsets.get(i).copied().unwrap_or(body.len() as i32)).collect(),
        };
        write_itf8(&mut out, lms.len() as i32);
        for l in lms {
            write_itf8(&mut out, l);
        }
        let crc = crc32(&out[s..]);
        out.extend_from_slice(&crc.to_le_bytes());
        out.extend_from_slice(&body);
    }
    out
}

/// Decodes one block with noodles' own codecs (only used to build *seeds*; the result is validated by reading
/// the rawified file and comparing transcripts with the original).
fn decode_block(bl: &Block) -> Option<Vec<u8>> {
    use noodles_cram::verif::codecs as c;
    let n = usize::try_from(bl.raw_size).ok()?;
    match bl.method {
        0 => Some(bl.data.clone()),
        1 => {
            let mut dst = vec![0; n];
            c::gzip::decode(&bl.data, &mut dst).ok()?;
            Some(dst)
        }
        2 => {
            let mut dst = vec![0; n];
            c::bzip2::decode(&bl.data, &mut dst).ok()?;
            Some(dst)
        }
        3 => {
            let mut dst = vec![0; n];
            c::lzma::decode(&bl.data, &mut dst).ok()?;
            Some(dst)
        }
        4 => c::rans_4x8::decode(&bl.data).ok(),
        5 => c::rans_nx16::decode(&bl.data, n).ok(),
        6 => c::aac::decode(&bl.data, n).ok(),
        7 => c::fqzcomp::decode(&bl.data).ok(),
        8 => c::name_tokenizer::decode(&bl.data).ok(),
        _ => None,
    }
}

/// Every block re-written as a raw block. `None` if a block does not decode.
pub fn rawify(c: &Cram) -> Option<Cram> {
    let mut c = c.clone();
    for ct in &mut c.containers {
        for bl in &mut ct.blocks {
            if bl.method != 0 {
                let d = decode_block(bl)?;
                if d.len() != bl.raw_size as usize {
                    return None;
                }
                bl.data = d;
                bl.method = 0;
            }
        }
    }
    Some(c)
}

/// Tolerant in-place re-sealer: walks whatever parses as container headers and blocks and re-computes their
/// CRC32s (stops at the first thing that does not parse). Returns the number of CRCs written.
pub fn reseal_in_place(b: &mut [u8]) -> usize {
    if b.len() < 26 || &b[..4] != b"CRAM" || b[4] < 3 {
        return 0;
    }
    let mut fixed = 0;
    let mut p = 26usize;
    'containers: while p + 4 <= b.len() {
        let Some(length) = i32le(b, p) else { break };
        let mut q = p + 4;
        for _ in 0..4 {
            let Some((_, n)) = read_itf8(b, q) else { break 'containers };
            q += n;
        }
        for _ in 0..2 {
            let Some((_, n)) = read_ltf8(b, q) else { break 'containers };
            q += n;
        }
        let Some((_, n)) = read_itf8(b, q) else { break };
        q += n;
        let Some((nl, n)) = read_itf8(b, q) else { break };
        q += n;
        // a hostile landmark count is walked only as far as there are bytes
        for _ in 0..nl.max(0) {
            let Some((_, n)) = read_itf8(b, q) else { break 'containers };
            q += n;
        }
        if q + 4 > b.len() {
            break;
        }
        let crc = crc32(&b[p..q]);
        b[q..q + 4].copy_from_slice(&crc.to_le_bytes());
        fixed += 1;
        let body = q + 4;
        let end = if length < 0 { b.len() } else { body.saturating_add(length as usize).min(b.len()) };
        let mut r = body;
        while r + 2 < end {
            let mut s = r + 2;
            let Some((_, n)) = read_itf8(b, s) else { break };
            s += n;
            let Some((size, n)) = read_itf8(b, s) else { break };
            s += n;
            let Some((_, n)) = read_itf8(b, s) else { break };
            s += n;
            if size < 0 {
                break;
            }
            let e = s.saturating_add(size as usize);
            if e.saturating_add(4) > b.len() {
                break;
            }
            let crc = crc32(&b[r..e]);
            b[e..e + 4].copy_from_slice(&crc.to_le_bytes());
            fixed += 1;
            r = e + 4;
        }
        if length < 0 {
            break;
        }
        p = body.saturating_add(length as usize);
    }
    fixed
}

#[cfg(test)]
mod tests {
    use super::*;

    #[test]
    fn itf8_ltf8_round_trip() {
        for v in [0i32, 1, 127, 128, 16383, 16384, 1 << 21, (1 << 28) - 1, 1 << 28, i32::MAX, -1, i32::MIN] {
            let mut o = vec![];
            write_itf8(&mut o, v);
            assert_eq!(read_itf8(&o, 0), Some((v, o.len())), "{v}");
        }
        for v in [0i64, 1, 127, 128, 1 << 14, 1 << 21, 1 << 28, 1 << 35, 1 << 42, 1 << 49, 1 << 56, i64::MAX, -1] {
            let mut o = vec![];
            write_ltf8(&mut o, v);
            assert_eq!(read_ltf8(&o, 0), Some((v, o.len())), "{v}");
        }
    }
}

// ------------------------------------------------------------------------------------------------
// Compression header and slice header models (CRAMv3 §8.4, §8.5, §13): every integer parameter is a slot that
// can be read and overwritten; serialisation re-computes parameter lengths, map sizes and counts unless a slot
// overrode them.

#[derive(Clone, Debug, PartialEq)]
pub enum Params {
    /// unknown codec: parameter bytes kept as they are
    Raw(Vec<u8>),
    /// NULL [], EXTERNAL [block content id], GOLOMB [offset, m], BETA [offset, bits], SUBEXP [offset, k],
    /// GOLOMB_RICE [offset, log2 m], GAMMA [offset]
    Ints(Vec<i32>),
    Huffman { alphabet: Vec<i32>, lens: Vec<i32>, alphabet_count: Option<i32>, lens_count: Option<i32> },
    ByteArrayLen(Box<Enc>, Box<Enc>),
    ByteArrayStop { stop: i32, id: i32 },
}

#[derive(Clone, Debug, PartialEq)]
pub struct Enc {
    pub codec: i32,
    pub params: Params,
    pub len_override: Option<i32>,
}

#[derive(Clone, Debug, PartialEq, Default)]
pub struct MapOverrides {
    pub size: Option<i32>,
    pub count: Option<i32>,
}

#[derive(Clone, Debug, PartialEq)]
pub struct CompHeader {
    /// (2-byte key, raw value bytes)
    pub pres: Vec<(Vec<u8>, Vec<u8>)>,
    pub pres_over: MapOverrides,
    pub ds: Vec<(Vec<u8>, Enc)>,
    pub ds_over: MapOverrides,
    pub tags: Vec<(i32, Enc)>,
    pub tags_over: MapOverrides,
    pub rest: Vec<u8>,
}

fn take_itf8(b: &[u8], p: &mut usize) -> Option<i32> {
    let (v, n) = read_itf8(b, *p)?;
    *p += n;
    Some(v)
}

fn parse_enc(b: &[u8], p: &mut usize, depth: usize) -> Option<Enc> {
    let codec = take_itf8(b, p)?;
    let len = usize::try_from(take_itf8(b, p)?).ok()?;
    let raw = b.get(*p..*p + len)?;
    *p += len;
    let mut q = 0usize;
    let params = match codec {
        0 if raw.is_empty() => Params::Ints(vec![]),
        1 | 9 => Params::Ints(vec![take_itf8(raw, &mut q)?]),
        2 | 6 | 7 | 8 => Params::Ints(vec![take_itf8(raw, &mut q)?, take_itf8(raw, &mut q)?]),
        3 => {
            let n = usize::try_from(take_itf8(raw, &mut q)?).ok()?;
            let mut alphabet = vec![];
            for _ in 0..n {
                alphabet.push(take_itf8(raw, &mut q)?);
            }
            let m = usize::try_from(take_itf8(raw, &mut q)?).ok()?;
            let mut lens = vec![];
            for _ in 0..m {
                lens.push(take_itf8(raw, &mut q)?);
            }
            Params::Huffman { alphabet, lens, alphabet_count: None, lens_count: None }
        }
        4 if depth < 3 => {
            let a = parse_enc(raw, &mut q, depth + 1)?;
            let c = parse_enc(raw, &mut q, depth + 1)?;
            Params::ByteArrayLen(Box::new(a), Box::new(c))
        }
        5 => {
            let stop = *raw.first()? as i32;
            q = 1;
            Params::ByteArrayStop { stop, id: take_itf8(raw, &mut q)? }
        }
        _ => {
            q = raw.len();
            Params::Raw(raw.to_vec())
        }
    };
    if q != raw.len() {
        return None;
    }
    Some(Enc { codec, params, len_override: None })
}

fn write_params(out: &mut Vec<u8>, p: &Params) {
    match p {
        Params::Raw(r) => out.extend_from_slice(r),
        Params::Ints(v) => {
            for x in v {
                write_itf8(out, *x);
            }
        }
        Params::Huffman { alphabet, lens, alphabet_count, lens_count } => {
            write_itf8(out, alphabet_count.unwrap_or(alphabet.len() as i32));
            for x in alphabet {
                write_itf8(out, *x);
            }
            write_itf8(out, lens_count.unwrap_or(lens.len() as i32));
            for x in lens {
                write_itf8(out, *x);
            }
        }
        Params::ByteArrayLen(a, b) => {
            write_enc(out, a);
            write_enc(out, b);
        }
        Params::ByteArrayStop { stop, id } => {
            out.push(*stop as u8);
            write_itf8(out, *id);
        }
    }
}

fn write_enc(out: &mut Vec<u8>, e: &Enc) {
    write_itf8(out, e.codec);
    let mut p = Vec::new();
    write_params(&mut p, &e.params);
    write_itf8(out, e.len_override.unwrap_or(p.len() as i32));
    out.extend_from_slice(&p);
}

pub fn parse_comp_header(b: &[u8]) -> Option<CompHeader> {
    let mut p = 0usize;
    // preservation map
    let size = usize::try_from(take_itf8(b, &mut p)?).ok()?;
    let end = p.checked_add(size)?;
    let n = take_itf8(b, &mut p)?;
    let mut pres = vec![];
    for _ in 0..n {
        let key = b.get(p..p + 2)?.to_vec();
        p += 2;
        let vlen = match &key[..] {
            b"RN" | b"AP" | b"RR" => 1,
            b"SM" => 5,
            b"TD" => {
                let (l, k) = read_itf8(b, p)?;
                k + usize::try_from(l).ok()?
            }
            _ => return None,
        };
        pres.push((key, b.get(p..p + vlen)?.to_vec()));
        p += vlen;
    }
    if p != end {
        return None;
    }
    // data series encodings
    let size = usize::try_from(take_itf8(b, &mut p)?).ok()?;
    let end = p.checked_add(size)?;
    let n = take_itf8(b, &mut p)?;
    let mut ds = vec![];
    for _ in 0..n {
        let key = b.get(p..p + 2)?.to_vec();
        p += 2;
        ds.push((key, parse_enc(b, &mut p, 0)?));
    }
    if p != end {
        return None;
    }
    // tag encodings
    let size = usize::try_from(take_itf8(b, &mut p)?).ok()?;
    let end = p.checked_add(size)?;
    let n = take_itf8(b, &mut p)?;
    let mut tags = vec![];
    for _ in 0..n {
        let key = take_itf8(b, &mut p)?;
        tags.push((key, parse_enc(b, &mut p, 0)?));
    }
    if p != end {
        return None;
    }
    Some(CompHeader { pres, pres_over: Default::default(), ds, ds_over: Default::default(), tags, tags_over: Default::default(), rest: b[p..].to_vec() })
}

pub fn serialise_comp_header(h: &CompHeader) -> Vec<u8> {
    let mut out = Vec::new();
    let map = |out: &mut Vec<u8>, over: &MapOverrides, count: usize, body: Vec<u8>| {
        let mut inner = Vec::new();
        write_itf8(&mut inner, over.count.unwrap_or(count as i32));
        inner.extend_from_slice(&body);
        write_itf8(out, over.size.unwrap_or(inner.len() as i32));
        out.extend_from_slice(&inner);
    };
    let mut body = Vec::new();
    for (k, v) in &h.pres {
        body.extend_from_slice(k);
        body.extend_from_slice(v);
    }
    map(&mut out, &h.pres_over, h.pres.len(), body);
    let mut body = Vec::new();
    for (k, e) in &h.ds {
        body.extend_from_slice(k);
        write_enc(&mut body, e);
    }
    map(&mut out, &h.ds_over, h.ds.len(), body);
    let mut body = Vec::new();
    for (k, e) in &h.tags {
        write_itf8(&mut body, *k);
        write_enc(&mut body, e);
    }
    map(&mut out, &h.tags_over, h.tags.len(), body);
    out.extend_from_slice(&h.rest);
    out
}

/// Visits the integer slots of an encoding in a fixed order. `f(name, is_block_id, slot)`.
fn enc_slots(e: &mut Enc, path: &str, f: &mut dyn FnMut(String, bool, &mut i32)) {
    f(format!("{path}.codec"), false, &mut e.codec);
    {
        let mut p = Vec::new();
        write_params(&mut p, &e.params);
        let mut len = e.len_override.unwrap_or(p.len() as i32);
        let before = len;
        f(format!("{path}.param_length"), false, &mut len);
        if len != before {
            e.len_override = Some(len);
        }
    }
    let codec = e.codec;
    match &mut e.params {
        Params::Raw(_) => {}
        Params::Ints(v) => {
            for (i, x) in v.iter_mut().enumerate() {
                let is_id = codec == 1 && i == 0;
                f(format!("{path}.{}", if is_id { "block_content_id".to_string() } else { format!("param{i}") }), is_id, x);
            }
        }
        Params::Huffman { alphabet, lens, alphabet_count, lens_count } => {
            let mut c = alphabet_count.unwrap_or(alphabet.len() as i32);
            let b = c;
            f(format!("{path}.huffman_alphabet_count"), false, &mut c);
            if c != b {
                *alphabet_count = Some(c);
            }
            for (i, x) in alphabet.iter_mut().enumerate().take(4) {
                f(format!("{path}.huffman_symbol{i}"), false, x);
            }
            let mut c = lens_count.unwrap_or(lens.len() as i32);
            let b = c;
            f(format!("{path}.huffman_bit_length_count"), false, &mut c);
            if c != b {
                *lens_count = Some(c);
            }
            for (i, x) in lens.iter_mut().enumerate().take(4) {
                f(format!("{path}.huffman_bit_length{i}"), false, x);
            }
        }
        Params::ByteArrayLen(a, b) => {
            enc_slots(a, &format!("{path}.len_encoding"), f);
            enc_slots(b, &format!("{path}.value_encoding"), f);
        }
        Params::ByteArrayStop { stop, id } => {
            f(format!("{path}.stop_byte"), false, stop);
            f(format!("{path}.block_content_id"), true, id);
        }
    }
}

impl CompHeader {
    /// Visits every integer slot in a fixed order.
    pub fn slots(&mut self, f: &mut dyn FnMut(String, bool, &mut i32)) {
        fn over(name: &str, o: &mut MapOverrides, size: usize, count: usize, f: &mut dyn FnMut(String, bool, &mut i32)) {
            let mut s = o.size.unwrap_or(size as i32);
            let b = s;
            f(format!("{name}.size_in_bytes"), false, &mut s);
            if s != b {
                o.size = Some(s);
            }
            let mut c = o.count.unwrap_or(count as i32);
            let b = c;
            f(format!("{name}.entry_count"), false, &mut c);
            if c != b {
                o.count = Some(c);
            }
        }
        // sizes as they are now (only needed as the "current value" of the size slots)
        let ser = serialise_comp_header(self);
        let mut p = 0;
        let s0 = take_itf8(&ser, &mut p).unwrap_or(0).max(0) as usize;
        p = p.saturating_add(s0);
        let s1 = take_itf8(&ser, &mut p).unwrap_or(0).max(0) as usize;
        p = p.saturating_add(s1);
        let s2 = take_itf8(&ser, &mut p).unwrap_or(0).max(0) as usize;
        over("preservation_map", &mut self.pres_over, s0, self.pres.len(), f);
        over("data_series_encodings", &mut self.ds_over, s1, self.ds.len(), f);
        for (k, e) in self.ds.iter_mut() {
            enc_slots(e, &format!("data_series[{}]", String::from_utf8_lossy(k)), f);
        }
        over("tag_encodings", &mut self.tags_over, s2, self.tags.len(), f);
        for (k, e) in self.tags.iter_mut() {
            let key = [(*k >> 16) as u8, (*k >> 8) as u8, *k as u8];
            let name = format!("tag[{}]", String::from_utf8_lossy(&key));
            f(format!("{name}.key"), false, k);
            enc_slots(e, &name, f);
        }
    }
}

#[derive(Clone, Debug, PartialEq)]
pub struct SliceHeader {
    pub ints: Vec<i32>, // ref id, start, span, n_records
    pub counter: i64,
    pub n_blocks: i32,
    pub ids: Vec<i32>,
    pub ids_count: Option<i32>,
    pub embedded_ref_id: i32,
    pub rest: Vec<u8>, // md5 + optional tags
}

pub fn parse_slice_header(b: &[u8]) -> Option<SliceHeader> {
    let mut p = 0;
    let mut ints = vec![];
    for _ in 0..4 {
        ints.push(take_itf8(b, &mut p)?);
    }
    let (counter, n) = read_ltf8(b, p)?;
    p += n;
    let n_blocks = take_itf8(b, &mut p)?;
    let n = usize::try_from(take_itf8(b, &mut p)?).ok()?;
    let mut ids = vec![];
    for _ in 0..n {
        ids.push(take_itf8(b, &mut p)?);
    }
    let embedded_ref_id = take_itf8(b, &mut p)?;
    if b.len() < p + 16 {
        return None;
    }
    Some(SliceHeader { ints, counter, n_blocks, ids, ids_count: None, embedded_ref_id, rest: b[p..].to_vec() })
}

pub fn serialise_slice_header(h: &SliceHeader) -> Vec<u8> {
    let mut out = Vec::new();
    for x in &h.ints {
        write_itf8(&mut out, *x);
    }
    write_ltf8(&mut out, h.counter);
    write_itf8(&mut out, h.n_blocks);
    write_itf8(&mut out, h.ids_count.unwrap_or(h.ids.len() as i32));
    for x in &h.ids {
        write_itf8(&mut out, *x);
    }
    write_itf8(&mut out, h.embedded_ref_id);
    out.extend_from_slice(&h.rest);
    out
}

impl SliceHeader {
    pub fn slots(&mut self, f: &mut dyn FnMut(String, bool, &mut i32)) {
        for (i, name) in ["reference_sequence_id", "alignment_start", "alignment_span", "record_count"].iter().enumerate() {
            f(format!("slice_header.{name}"), false, &mut self.ints[i]);
        }
        f("slice_header.block_count".into(), false, &mut self.n_blocks);
        let mut c = self.ids_count.unwrap_or(self.ids.len() as i32);
        let b = c;
        f("slice_header.block_content_id_count".into(), false, &mut c);
        if c != b {
            self.ids_count = Some(c);
        }
        for (i, x) in self.ids.iter_mut().enumerate() {
            f(format!("slice_header.block_content_id[{i}]"), true, x);
        }
        f("slice_header.embedded_reference_block_content_id".into(), true, &mut self.embedded_ref_id);
    }
}

/// What a structured CRAM mutation addresses inside one container.
#[derive(Clone, Copy, Debug, PartialEq, Eq)]
pub enum Target {
    /// slot of the compression header (first block)
    CompHeader(usize),
    /// slot of the slice header in block `.0`
    SliceHeader(usize, usize),
    /// content id in the header of block `.0`
    BlockContentId(usize),
    /// the whole encoding number `.0` (data series first, then tags) replaced by a well-formed hostile encoding
    /// (`ENCODING_TEMPLATES[which]`)
    ReplaceEncoding(usize),
    /// value number `.1` of the integer data series stored in the raw external block `.0` (a sequence of ITF8s)
    SeriesValue(usize, usize),
}

pub const ENCODING_TEMPLATES: [&str; 14] = [
    "NULL",
    "EXTERNAL(id that does not exist)",
    "GOLOMB(0,1)",
    "HUFFMAN(empty alphabet)",
    "HUFFMAN(1 symbol)",
    "HUFFMAN(2 symbols, bit lengths 1,1)",
    "HUFFMAN(2 symbols, bit lengths 1,40)",
    "BYTE_ARRAY_LEN(EXTERNAL,EXTERNAL)",
    "BYTE_ARRAY_STOP(0,id)",
    "BETA(0,0 bits)",
    "BETA(i32::MIN,33 bits)",
    "SUBEXP(0,0)",
    "GOLOMB_RICE(0,0)",
    "GAMMA(1)",
];

fn encoding_template(which: usize, ids: &[i32]) -> Enc {
    let other = ids.first().copied().unwrap_or(1);
    let missing = ids.iter().copied().max().unwrap_or(0).saturating_add(1000);
    let e = |codec: i32, params: Params| Enc { codec, params, len_override: None };
    let huff = |a: Vec<i32>, l: Vec<i32>| Params::Huffman { alphabet: a, lens: l, alphabet_count: None, lens_count: None };
    match which {
        0 => e(0, Params::Ints(vec![])),
        1 => e(1, Params::Ints(vec![missing])),
        2 => e(2, Params::Ints(vec![0, 1])),
        3 => e(3, huff(vec![], vec![])),
        4 => e(3, huff(vec![0], vec![0])),
        5 => e(3, huff(vec![0, 1], vec![1, 1])),
        6 => e(3, huff(vec![0, 1], vec![1, 40])),
        7 => e(4, Params::ByteArrayLen(Box::new(e(1, Params::Ints(vec![other]))), Box::new(e(1, Params::Ints(vec![other]))))),
        8 => e(5, Params::ByteArrayStop { stop: 0, id: other }),
        9 => e(6, Params::Ints(vec![0, 0])),
        10 => e(6, Params::Ints(vec![i32::MIN, 33])),
        11 => e(7, Params::Ints(vec![0, 0])),
        12 => e(8, Params::Ints(vec![0, 0])),
        _ => e(9, Params::Ints(vec![1])),
    }
}

const INTEGER_SERIES: [&[u8; 2]; 20] =
    [b"BF", b"CF", b"RI", b"RL", b"AP", b"RG", b"MF", b"NS", b"NP", b"TS", b"NF", b"TL", b"FN", b"FP", b"DL", b"RS", b"PD", b"HC", b"MQ", b"TC"];

/// External block content ids that hold an integer data series (EXTERNAL encoding in the compression header).
fn integer_series_ids(h: &CompHeader) -> Vec<(i32, String)> {
    h.ds.iter()
        .filter(|(k, _)| INTEGER_SERIES.iter().any(|s| &s[..] == &k[..]))
        .filter_map(|(k, e)| match (&e.params, e.codec) {
            (Params::Ints(v), 1) if v.len() == 1 => Some((v[0], String::from_utf8_lossy(k).into_owned())),
            _ => None,
        })
        .collect()
}

fn itf8_offsets(b: &[u8]) -> Option<Vec<usize>> {
    let mut offs = vec![];
    let mut p = 0;
    while p < b.len() {
        offs.push(p);
        p += read_itf8(b, p)?.1;
    }
    Some(offs)
}

pub const STRUCT_VALUES: [&str; 14] =
    ["-1", "-64", "i32::MIN", "i32::MAX", "0", "63", "64", "65", "127", "128", "value+1", "value-1", "id-that-does-not-exist", "id-of-another-series"];

fn struct_value(which: usize, cur: i32, ids: &[i32]) -> i32 {
    match which {
        0 => -1,
        1 => -64,
        2 => i32::MIN,
        3 => i32::MAX,
        4 => 0,
        5 => 63,
        6 => 64,
        7 => 65,
        8 => 127,
        9 => 128,
        10 => cur.wrapping_add(1),
        11 => cur.wrapping_sub(1),
        12 => ids.iter().copied().max().unwrap_or(0).saturating_add(1000),
        _ => ids.iter().copied().find(|&i| i != cur).unwrap_or(cur.wrapping_add(7)),
    }
}

/// The addressable slots of container `ci` (empty if its header blocks do not round-trip through the models).
pub fn container_targets(c: &Cram, ci: usize) -> Vec<(Target, bool)> {
    let mut v = vec![];
    let Some(ct) = c.containers.get(ci) else { return v };
    if let Some(b0) = ct.blocks.first() {
        if b0.method == 0 && b0.ctype == 1 {
            if let Some(mut h) = parse_comp_header(&b0.data) {
                if serialise_comp_header(&h) == b0.data {
                    let mut n = 0;
                    h.slots(&mut |_, id, _| {
                        v.push((Target::CompHeader(n), id));
                        n += 1;
                    });
                }
            }
        }
    }
    for &bi in &ct.landmark_blocks {
        if let Some(b) = ct.blocks.get(bi) {
            if b.method == 0 && b.ctype == 2 {
                if let Some(mut h) = parse_slice_header(&b.data) {
                    if serialise_slice_header(&h) == b.data {
                        let mut n = 0;
                        h.slots(&mut |_, id, _| {
                            v.push((Target::SliceHeader(bi, n), id));
                            n += 1;
                        });
                    }
                }
            }
        }
    }
    v.extend((0..ct.blocks.len()).map(|b| (Target::BlockContentId(b), true)));
    // record layer: values of the integer data series held in raw external blocks; whole encodings replaced
    if let Some(h) = ct.blocks.first().filter(|b| b.method == 0 && b.ctype == 1).and_then(|b| parse_comp_header(&b.data)) {
        let series = integer_series_ids(&h);
        for (bi, b) in ct.blocks.iter().enumerate() {
            if b.ctype == 4 && b.method == 0 && series.iter().any(|s| s.0 == b.cid) {
                if let Some(offs) = itf8_offsets(&b.data) {
                    // the first values and the last ones of the series
                    let n = offs.len();
                    let idx: Vec<usize> = if n <= 10 { (0..n).collect() } else { (0..6).chain(n - 4..n).collect() };
                    v.extend(idx.into_iter().map(|i| (Target::SeriesValue(bi, i), false)));
                }
            }
        }
        if serialise_comp_header(&h) == ct.blocks[0].data {
            v.extend((0..h.ds.len() + h.tags.len()).map(|e| (Target::ReplaceEncoding(e), false)));
        }
    }
    v
}

/// Applies value `which` (index into `STRUCT_VALUES`, or `None` = the explicit `value`) to a target; returns a
/// description. Sizes, lengths, counts, landmarks and CRCs are re-computed by the serialisers.
pub fn apply_target(c: &mut Cram, ci: usize, t: Target, which: usize, explicit: Option<i32>) -> String {
    let Some(ct) = c.containers.get_mut(ci) else { return "no such container".into() };
    let ids: Vec<i32> = ct.blocks.iter().filter(|b| b.ctype == 4).map(|b| b.cid).collect();
    let mut desc = String::new();
    let mut set = |name: String, _is_id: bool, x: &mut i32| {
        let v = explicit.unwrap_or_else(|| struct_value(which, *x, &ids));
        desc = format!("container {ci} {name}: {} -> {v}", *x);
        *x = v;
    };
    match t {
        Target::CompHeader(slot) => {
            if let Some(mut h) = ct.blocks.first().and_then(|b| parse_comp_header(&b.data)) {
                let mut i = 0;
                h.slots(&mut |n, id, x| {
                    if i == slot {
                        set(n, id, x);
                    }
                    i += 1;
                });
                let data = serialise_comp_header(&h);
                ct.blocks[0].raw_size = data.len() as i32;
                ct.blocks[0].data = data;
            }
        }
        Target::SliceHeader(bi, slot) => {
            if let Some(mut h) = ct.blocks.get(bi).and_then(|b| parse_slice_header(&b.data)) {
                let mut i = 0;
                h.slots(&mut |n, id, x| {
                    if i == slot {
                        set(n, id, x);
                    }
                    i += 1;
                });
                let data = serialise_slice_header(&h);
                ct.blocks[bi].raw_size = data.len() as i32;
                ct.blocks[bi].data = data;
            }
        }
        Target::BlockContentId(bi) => {
            if let Some(b) = ct.blocks.get_mut(bi) {
                let ctype = b.ctype;
                set(format!("block {bi} (type {ctype}) header content id"), true, &mut b.cid);
            }
        }
        Target::ReplaceEncoding(e) => {
            if let Some(mut h) = ct.blocks.first().and_then(|b| parse_comp_header(&b.data)) {
                let t = encoding_template(which % ENCODING_TEMPLATES.len(), &ids);
                let nds = h.ds.len();
                let name = if e < nds {
                    let n = format!("data series {}", String::from_utf8_lossy(&h.ds[e].0));
                    h.ds[e].1 = t;
                    n
                } else if let Some(x) = h.tags.get_mut(e - nds) {
                    let key = [(x.0 >> 16) as u8, (x.0 >> 8) as u8, x.0 as u8];
                    x.1 = t;
                    format!("tag {}", String::from_utf8_lossy(&key))
                } else {
                    "no such encoding".to_string()
                };
                let data = serialise_comp_header(&h);
                ct.blocks[0].raw_size = data.len() as i32;
                ct.blocks[0].data = data;
                return format!("container {ci} encoding of {name} replaced by {}", ENCODING_TEMPLATES[which % ENCODING_TEMPLATES.len()]);
            }
        }
        Target::SeriesValue(bi, vi) => {
            let series = ct.blocks.first().and_then(|b| parse_comp_header(&b.data)).map(|h| integer_series_ids(&h)).unwrap_or_default();
            let n_records = ct.n_records;
            if let Some(b) = ct.blocks.get_mut(bi) {
                if let Some(offs) = itf8_offsets(&b.data) {
                    if let Some(&at) = offs.get(vi) {
                        let (cur, n) = read_itf8(&b.data, at).unwrap_or((0, 1));
                        // "ids" for a record-level value: the record count of the container and its neighbours
                        let counts = [n_records, n_records.wrapping_sub(1)];
                        let mut x = cur;
                        let name = series.iter().find(|s| s.0 == b.cid).map(|s| s.1.clone()).unwrap_or_default();
                        let v = explicit.unwrap_or_else(|| struct_value(which, cur, &counts));
                        x = { let _ = x; v };
                        let mut enc = Vec::new();
                        write_itf8(&mut enc, x);
                        b.data.splice(at..at + n, enc);
                        b.raw_size = b.data.len() as i32;
                        return format!("container {ci} data series {name} (external block {bi}) value #{vi}: {cur} -> {x}");
                    }
                }
            }
        }
    }
    desc
}
