//! GTF records: plain columns over delimiter-free alphabets, attribute values with quotes and
//! backslashes.

use std::io::BufReader;

use noodles_gff::feature::RecordBuf;
use noodles_gtf as gtf;
use vcore::{Rng, guard, rng::fnv1a};

use crate::{
    Mon,
    gff::{Hint, gen_position, gen_score, to_record_buf},
    norm::{self, Norm},
    text::show,
};

const PLAIN_COL: &[u8] = b"abcdefXYZ0123456789_.:-|+*@!$^?/()[]{}<>=,;%&'~";
const KEY: &[u8] = b"abcdefgh_XYZ019.:-";
const VAL_SAFE: &[u8] = b"abc XYZ 019 _.:-;=,%&#>'/()";

#[derive(Clone, Copy, Debug, PartialEq, Eq, PartialOrd, Ord)]
enum ValClass {
    Safe,
    Quote,
    Backslash,
    Both,
    Unicode,
    Empty,
}

fn gen_plain(rng: &mut Rng) -> Vec<u8> {
    let n = 1 + rng.usize_below(10);
    let mut v: Vec<u8> = (0..n).map(|_| PLAIN_COL[rng.usize_below(PLAIN_COL.len())]).collect();
    if rng.chance(1, 10) {
        v.extend_from_slice("é測".as_bytes());
    }
    v
}

fn gen_value(rng: &mut Rng, c: ValClass) -> Vec<u8> {
    let chunk = |rng: &mut Rng| -> String { (0..rng.usize_below(5)).map(|_| VAL_SAFE[rng.usize_below(VAL_SAFE.len())] as char).collect() };
    let mut s = String::new();
    match c {
        ValClass::Empty => {}
        ValClass::Safe => {
            s.push('v');
            s.push_str(&chunk(rng));
        }
        ValClass::Unicode => {
            s.push_str(&chunk(rng));
            s.push_str(*rng.pick(&["é", "測試", "🧬"]));
            s.push_str(&chunk(rng));
        }
        ValClass::Quote | ValClass::Backslash | ValClass::Both => {
            for _ in 0..1 + rng.usize_below(3) {
                s.push_str(&chunk(rng));
                let q = match c {
                    ValClass::Quote => "\"",
                    ValClass::Backslash => "\\",
                    _ => *rng.pick(&["\"", "\\", "\\\"", "\"\\", "\\\\", "\"\""]),
                };
                s.push_str(q);
            }
            if rng.bool() {
                s.push_str(&chunk(rng));
            }
        }
    }
    s.into_bytes()
}

/// Independent reading of column 9: `key "value"; key "value";` with `\"` and `\\` escapes.
fn parse_col9(col: &[u8]) -> Result<Vec<(Vec<u8>, Vec<u8>)>, String> {
    let mut out = Vec::new();
    let mut i = 0;
    while i < col.len() {
        while i < col.len() && col[i] == b' ' {
            i += 1;
        }
        if i >= col.len() {
            break;
        }
        let ks = i;
        while i < col.len() && col[i] != b' ' {
            i += 1;
        }
        let key = col[ks..i].to_vec();
        if i >= col.len() {
            return Err("key without value".into());
        }
        i += 1;
        if col.get(i) != Some(&b'"') {
            // an unquoted (numeric) value runs up to the terminator
            let vs = i;
            while i < col.len() && col[i] != b';' {
                i += 1;
            }
            if i >= col.len() {
                return Err(format!("no ';' after the value of key {}", show(&key)));
            }
            out.push((key, col[vs..i].to_vec()));
            i += 1;
            continue;
        }
        i += 1;
        let mut val = Vec::new();
        loop {
            match col.get(i) {
                None => return Err("unterminated string".into()),
                Some(b'\\') => match col.get(i + 1) {
                    Some(&c) if c == b'"' || c == b'\\' => {
                        val.push(c);
                        i += 2;
                    }
                    _ => return Err("backslash that does not escape a quote or a backslash".into()),
                },
                Some(b'"') => {
                    i += 1;
                    break;
                }
                Some(&c) => {
                    val.push(c);
                    i += 1;
                }
            }
        }
        if col.get(i) != Some(&b';') {
            return Err(format!("no ';' after the value of key {}", show(&key)));
        }
        i += 1;
        out.push((key, val));
    }
    Ok(out)
}

pub fn run_record(rng: &mut Rng, hint: Hint, mon: &mut Mon, file: &mut Vec<(Vec<u8>, Norm)>) {
    let nattr = match hint {
        Hint::Minimal => 0,
        Hint::Rich => 4 + rng.usize_below(4),
        Hint::Random => match rng.below(6) {
            0 => 0,
            1 => 1,
            _ => 1 + rng.usize_below(5),
        },
    };
    let mut attrs: Vec<(Vec<u8>, Vec<Vec<u8>>)> = Vec::new();
    let mut classes = Vec::new();
    for _ in 0..nattr {
        let key: Vec<u8> = if rng.chance(1, 3) { rng.pick(&["gene_id", "transcript_id", "exon_number", "gene_name", "tag"]).as_bytes().to_vec() } else { (0..1 + rng.usize_below(8)).map(|_| KEY[rng.usize_below(KEY.len())]).collect() };
        if attrs.iter().any(|a| a.0 == key) {
            continue;
        }
        let k = match rng.below(5) {
            0..=2 => 1,
            3 => 2,
            _ => 2 + rng.usize_below(4),
        };
        let vals = (0..k)
            .map(|_| {
                let c = match rng.below(20) {
                    0..=10 => ValClass::Safe,
                    11 => ValClass::Quote,
                    12..=14 => ValClass::Backslash,
                    15 => ValClass::Both,
                    16 | 17 => ValClass::Unicode,
                    _ => ValClass::Empty,
                };
                classes.push(c);
                gen_value(rng, c)
            })
            .collect();
        attrs.push((key, vals));
    }
    classes.sort();
    classes.dedup();
    let start = gen_position(rng);
    let n = Norm {
        seqid: gen_plain(rng),
        source: if rng.chance(1, 5) { b".".to_vec() } else { gen_plain(rng) },
        ty: if rng.bool() { rng.pick(&["gene", "transcript", "exon", "CDS", "start_codon", "stop_codon"]).as_bytes().to_vec() } else { gen_plain(rng) },
        start,
        end: start.saturating_add(rng.skewed(100_000) as usize),
        score: match hint {
            Hint::Minimal => None,
            Hint::Rich => Some(norm::score_bits(12.5)),
            Hint::Random => gen_score(rng).map(norm::score_bits),
        },
        strand: match hint {
            Hint::Minimal => 0,
            Hint::Rich => 1 + rng.below(2) as u8,
            Hint::Random => {
                if rng.chance(1, 12) {
                    3
                } else {
                    rng.below(3) as u8
                }
            }
        },
        phase: match hint {
            Hint::Minimal => None,
            Hint::Rich => Some(rng.below(3) as u8),
            Hint::Random => {
                if rng.bool() {
                    None
                } else {
                    Some(rng.below(3) as u8)
                }
            }
        },
        attrs,
        arrays: Vec::new(),
    }
    .with_shapes(rng.chance(1, 6));
    check_record(n, format!("{classes:?}"), rng, mon, file);
}

/// Fixed records that are part of every run: quotes/backslashes in values, and rich/minimal lines
/// next to each other for the whole-file passes.
pub fn corpus() -> Vec<Norm> {
    let base = Norm { seqid: b"chr1".to_vec(), source: b"src".to_vec(), ty: b"exon".to_vec(), start: 5, end: 50, score: Some(norm::score_bits(0.5)), strand: 2, phase: Some(1), attrs: Vec::new(), arrays: Vec::new() };
    let vals: &[&[&str]] = &[&["plain"], &["a\"b"], &["x\"y\""], &["\"", "\"\""], &["back\\slash", "\\"], &["q\"\\\"", "v; w \"z\";"], &["", "two", "three"], &["plain", "a\"b", "c\\d", "e\\\"f"], &["first", "\\", "\""]];
    let mut v: Vec<Norm> = vals
        .iter()
        .map(|vs| {
            let mut n = base.clone();
            n.attrs = vec![(b"gene_id".to_vec(), vec![b"g1".to_vec()]), (b"note".to_vec(), vs.iter().map(|s| s.as_bytes().to_vec()).collect())];
            n.with_shapes(false)
        })
        .collect();
    let mut minimal = base.clone();
    minimal.source = b".".to_vec();
    minimal.score = None;
    minimal.strand = 0;
    minimal.phase = None;
    let mut rich = base.clone();
    rich.attrs = vec![
        (b"gene_id".to_vec(), vec![b"g1".to_vec()]),
        (b"transcript_id".to_vec(), vec![b"t1".to_vec()]),
        (b"tag".to_vec(), vec![b"basic".to_vec(), b"CCDS".to_vec(), b"MANE \"Select\"".to_vec()]),
        (b"note".to_vec(), vec![b"a; b".to_vec()]),
        (b"exon_number".to_vec(), vec![b"3".to_vec()]),
    ];
    for n in [&rich, &minimal, &rich, &minimal, &minimal, &rich] {
        v.push(n.clone().with_shapes(false));
    }
    v
}

/// All inherent accessors of the lazy GTF view (keyed access must agree with iteration).
fn lazy_norm(rec: &gtf::Record<'_>) -> Result<Norm, String> {
    use gtf::record::attributes::field::Value;
    let la = rec.attributes().map_err(|e| format!("attributes(): {e}"))?;
    let mut attrs = Vec::new();
    let mut arrays = Vec::new();
    for item in la.iter() {
        let (k, v) = item.map_err(|e| e.to_string())?;
        let vs: Vec<Vec<u8>> = v.iter().map(|s| s.to_vec()).collect();
        let is_array = matches!(v, Value::Array(_));
        let g = la.get(k).and_then(|r| r.ok()).map(|v| (v.iter().map(|s| s.to_vec()).collect::<Vec<_>>(), matches!(v, Value::Array(_))));
        if g != Some((vs.clone(), is_array)) {
            return Err(format!("Attributes::get({}) differs from iter()", show(k)));
        }
        arrays.push(is_array);
        attrs.push((k.to_vec(), vs));
    }
    Ok(Norm {
        seqid: rec.reference_sequence_name().to_vec(),
        source: rec.source().to_vec(),
        ty: rec.ty().to_vec(),
        start: usize::from(rec.start().map_err(|e| e.to_string())?),
        end: usize::from(rec.end().map_err(|e| e.to_string())?),
        score: rec.score().transpose().map_err(|e| e.to_string())?.map(norm::score_bits),
        strand: norm::strand_code(rec.strand().map_err(|e| e.to_string())?),
        phase: rec.phase().transpose().map_err(|e| e.to_string())?.map(norm::phase_code),
        attrs,
        arrays,
    })
}

pub fn check_record(n: Norm, classes: String, rng: &mut Rng, mon: &mut Mon, file: &mut Vec<(Vec<u8>, Norm)>) {
    let has_quote = n.attrs.iter().any(|a| a.1.iter().any(|v| v.contains(&b'"')));
    let rb = to_record_buf(&n);
    mon.c("gtf.records_generated", 1);
    let how = rng.below(3);
    let rb2 = rb.clone();
    let written = guard::catch(move || -> std::io::Result<Vec<u8>> {
        let mut w = gtf::io::Writer::new(Vec::new());
        match how {
            0 => w.write_record(&rb2)?,
            1 => w.write_line(&gtf::LineBuf::Record(rb2))?,
            _ => w.write_feature_record(&rb2)?,
        }
        Ok(w.into_inner())
    });
    let bytes = match written {
        Err(p) => {
            mon.v(format!("gtf-write:panic:{}", p.sig), format!("writer panicked on {rb:?}: {}", p.message));
            return;
        }
        Ok(Err(e)) => {
            if n.strand == 3 {
                mon.c("gtf.writer_rejected[unknown strand]", 1);
            } else {
                mon.c(&format!("gtf.writer_rejected[other:{:?}]", e.kind()), 1);
            }
            return;
        }
        Ok(Ok(b)) => b,
    };
    mon.c("gtf.records_accepted", 1);
    mon.evals += 1;
    mon.fps.insert(fnv1a(format!("gtf|{classes}|{}|{}|{}|{}|{}", n.attrs.len().min(3), n.attrs.iter().map(|a| a.1.len()).max().unwrap_or(0).min(3), n.strand, n.phase.is_some(), n.score.is_some()).as_bytes()));

    // (ii) text level
    if bytes.last() != Some(&b'\n') || bytes[..bytes.len() - 1].iter().any(|&b| b == b'\n' || b == b'\r') {
        mon.v("gtf-text:line-terminators", format!("emitted {}", show(&bytes)));
        return;
    }
    let line = &bytes[..bytes.len() - 1];
    let cols: Vec<&[u8]> = line.split(|&b| b == b'\t').collect();
    if cols.len() != 9 {
        mon.v("gtf-text:column-count", format!("{} columns: {}", cols.len(), show(line)));
        return;
    }
    let flat: Vec<(Vec<u8>, Vec<u8>)> = n.attrs.iter().flat_map(|(k, vs)| vs.iter().map(move |v| (k.clone(), v.clone()))).collect();
    match parse_col9(cols[8]) {
        Err(e) => mon.v("gtf-text:attributes-malformed", format!("column 9 {}: {e} (quotes and backslashes inside values must be backslash-escaped)", show(cols[8]))),
        Ok(p) => {
            if p != flat {
                mon.v("gtf-text:attributes-decode-to-other-values", format!("column 9 {} decodes to {p:?}, written values {flat:?}", show(cols[8])));
            }
        }
    }

    // (i) owned round trip
    let b2 = bytes.clone();
    let back = guard::catch(move || {
        let mut r = gtf::io::Reader::new(&b2[..]);
        let a = r.record_bufs().next();
        let mut r2 = gtf::io::Reader::new(BufReader::with_capacity(3, &b2[..]));
        let b = r2.line_bufs().next();
        (a, b)
    });
    let cls = if has_quote { ":value-with-quote" } else { "" };
    let gn = match back {
        Err(p) => {
            mon.v(format!("gtf-roundtrip:panic{cls}:{}", p.sig), format!("reader panicked on the writer's output {}: {}", show(&bytes), p.message));
            None
        }
        Ok((Some(Ok(r)), second)) => {
            let gn = Norm::of_record_buf(&r);
            match second {
                Some(Ok(gtf::LineBuf::Record(r2))) if Norm::of_record_buf(&r2) == gn => {}
                other => mon.v("gtf-roundtrip:line_bufs-ne-record_bufs", format!("{other:?} vs {r:?}")),
            }
            if let Some(f) = gn.diff(&n) {
                mon.v(format!("gtf-roundtrip:{f}{cls}"), format!("field {f}: wrote {n:?}\n as {}\n read back {gn:?}", show(&bytes)));
            } else if let Some((what, i)) = n.shape_diff(&gn) {
                mon.v(format!("gtf-roundtrip:attributes:{what}"), format!("attribute {}: wrote {n:?}\n as {}\n read back {gn:?}", show(&n.attrs[i].0), show(&bytes)));
            }
            mon.c("gtf.records_read_back", 1);
            Some(gn)
        }
        Ok((Some(Err(e)), _)) => {
            mon.v(format!("gtf-roundtrip:reader-error{cls}"), format!("record_bufs() fails on the writer's output {}: {e}", show(&bytes)));
            None
        }
        Ok((None, _)) => {
            mon.v("gtf-roundtrip:no-record", format!("record_bufs() yields nothing for {}", show(&bytes)));
            None
        }
    };

    // (iii) lazy view
    let b3 = bytes.clone();
    let lazy = guard::catch(move || -> Result<(Norm, Norm), String> {
        let mut r = gtf::io::Reader::new(&b3[..]);
        let line = r.lines().next().ok_or("lines() yields nothing")?.map_err(|e| format!("lines(): {e}"))?;
        let rec = line.as_record().ok_or("line is not a record")?.map_err(|e| format!("as_record(): {e}"))?;
        let lz = lazy_norm(&rec)?;
        let via_trait = Norm::of_feature_record(&rec).map_err(|e| format!("feature::Record accessors: {e}"))?;
        if via_trait != lz {
            return Err(format!("feature::Record accessors {via_trait:?} differ from the inherent accessors {lz:?}"));
        }
        let owned = RecordBuf::try_from_feature_record(&rec).map_err(|e| format!("try_from_feature_record: {e}"))?;
        Ok((lz, Norm::of_record_buf(&owned)))
    });
    match lazy {
        Err(p) => mon.v(format!("gtf-lazy:panic{cls}:{}", p.sig), format!("lazy view panicked on {}: {}", show(&bytes), p.message)),
        Ok(Err(e)) => mon.v(format!("gtf-lazy:error{cls}"), format!("lazy view of {}: {e}", show(&bytes))),
        Ok(Ok((lz, owned))) => {
            if let Some(f) = lz.diff(&owned) {
                mon.v(format!("gtf-lazy:{f}"), format!("lazy accessors {lz:?} != owned record built from the view {owned:?}"));
            } else if lz != owned {
                mon.v("gtf-lazy:attributes:string-vs-array", format!("lazy accessors {lz:?} != owned record built from the view {owned:?}"));
            }
            if let Some(gn) = &gn {
                if owned != *gn {
                    let f = owned.diff(gn).unwrap_or("attributes:string-vs-array");
                    mon.v(format!("gtf-lazy:owned-ne-record_bufs:{f}"), format!("{owned:?} vs {gn:?}"));
                }
            }
            if lz.diff(&n).is_none() {
                if let Some((what, i)) = n.shape_diff(&lz) {
                    mon.v(format!("gtf-lazy:attributes:{what}"), format!("attribute {}: described {n:?}, lazy view says {lz:?}", show(&n.attrs[i].0)));
                }
            }
            mon.c("gtf.lazy_views_compared", 1);
        }
    }
    if let Some(gn) = gn {
        file.push((bytes, gn));
    }
}

/// Whole-file passes through ONE reader per API (`record_bufs()`, `line_bufs()`, a
/// `read_line(&mut line)` loop over one reused `Line`, `lines()`); see gff::run_file.
pub fn run_file(rng: &mut Rng, mon: &mut Mon, file: &[(Vec<u8>, Norm)]) {
    let mut all = Vec::new();
    for (b, _) in file {
        all.extend_from_slice(b);
    }
    let adj = file.windows(2).filter(|w| w[0].1.attrs.is_empty() != w[1].1.attrs.is_empty()).count();
    mon.c("gtf.file_adjacent_rich_minimal_pairs", adj as u64);
    let cap = *rng.pick(&[1usize, 2, 5, 16, 4096]);
    type Pass = (&'static str, Vec<Norm>, usize);
    fn of_line(line: &gtf::Line, v: &mut Vec<Norm>) -> Result<(), String> {
        if let Some(r) = line.as_record() {
            let rec = r.map_err(|e| format!("as_record(): {e}"))?;
            v.push(lazy_norm(&rec)?);
            let owned = RecordBuf::try_from_feature_record(&rec).map_err(|e| format!("try_from_feature_record: {e}"))?;
            v.push(Norm::of_record_buf(&owned));
        }
        Ok(())
    }
    let got = guard::catch(move || -> Result<Vec<Pass>, String> {
        let mut out: Vec<Pass> = Vec::new();
        let mut r = gtf::io::Reader::new(BufReader::with_capacity(cap, &all[..]));
        out.push(("record_bufs", r.record_bufs().map(|x| x.map(|r| Norm::of_record_buf(&r))).collect::<std::io::Result<Vec<_>>>().map_err(|e| format!("record_bufs(): {e}"))?, 1));
        let mut r = gtf::io::Reader::new(BufReader::with_capacity(cap, &all[..]));
        let mut v = Vec::new();
        for lb in r.line_bufs() {
            if let gtf::LineBuf::Record(rb) = lb.map_err(|e| format!("line_bufs(): {e}"))? {
                v.push(Norm::of_record_buf(&rb));
            }
        }
        out.push(("line_bufs", v, 1));
        let mut r = gtf::io::Reader::new(BufReader::with_capacity(cap, &all[..]));
        let mut line = gtf::Line::default();
        let mut v = Vec::new();
        while r.read_line(&mut line).map_err(|e| format!("read_line(): {e}"))? != 0 {
            of_line(&line, &mut v)?;
        }
        out.push(("read_line", v, 2));
        let mut r = gtf::io::Reader::new(BufReader::with_capacity(cap, &all[..]));
        let mut v = Vec::new();
        for l in r.lines() {
            of_line(&l.map_err(|e| format!("lines(): {e}"))?, &mut v)?;
        }
        out.push(("lines", v, 2));
        Ok(out)
    });
    match got {
        Err(p) => mon.v(format!("gtf-file:panic:{}", p.sig), p.message),
        Ok(Err(e)) => mon.v("gtf-file:reader-error", format!("reading {} concatenated lines: {e}", file.len())),
        Ok(Ok(passes)) => {
            for (api, seen, per) in passes {
                let exp: Vec<&Norm> = file.iter().flat_map(|f| std::iter::repeat_n(&f.1, per)).collect();
                if seen.len() != exp.len() {
                    mon.v(format!("gtf-file:{api}:line-count"), format!("{} entries expected, {api} yields {}", exp.len(), seen.len()));
                    continue;
                }
                if let Some(i) = seen.iter().zip(&exp).position(|(a, b)| a != *b) {
                    let f = seen[i].diff(exp[i]).unwrap_or("attributes:string-vs-array");
                    mon.v(format!("gtf-file:{api}:record:{f}"), format!("entry #{i} of the file read through one reader: {api} gives {:?}, the per-line pass (== description) gave {:?}; previous entry {:?}", seen[i], exp[i], i.checked_sub(1).map(|j| &seen[j])));
                }
                mon.c(&format!("gtf.file_entries_compared[{api}]"), seen.len() as u64);
            }
            mon.c("gtf.files_read", 1);
            mon.evals += 1;
        }
    }
}
