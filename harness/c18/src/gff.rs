//! GFF3 records and directives: write, text-level monitor, read back, lazy views.

use std::io::BufReader;

use bstr::BString;
use noodles_core::Position;
use noodles_gff::{
    self as gff, DirectiveBuf, LineBuf,
    directive_buf::{self, Value as DValue},
    feature::{
        RecordBuf,
        record_buf::{Attributes, attributes::field::Value as ValueBuf},
    },
};
use vcore::{Rng, guard, rng::fnv1a};

use crate::{
    Mon,
    norm::{self, Norm},
    text::{self, Gff3Col, TextClass, gen_class, gen_text, show},
};

#[derive(Clone, Debug)]
pub struct GffDesc {
    pub norm: Norm,
    pub classes: [TextClass; 5],
}

/// Shape hint for the generator: the whole-file passes want "rich line, then minimal line"
/// (and the reverse) next to each other.
#[derive(Clone, Copy, Debug, PartialEq, Eq)]
pub enum Hint {
    Random,
    Rich,
    Minimal,
}

pub struct FileLine {
    pub bytes: Vec<u8>,
    /// what the per-line pass read (== the description but for the known seqid finding)
    pub rec: Option<Norm>,
    /// directive: key and value text
    pub dir: Option<(Vec<u8>, Option<Vec<u8>>)>,
}

pub fn gen_score(rng: &mut Rng) -> Option<f32> {
    match rng.below(12) {
        0..=2 => None,
        3 => Some(0.0),
        4 => Some(-0.0),
        5 => Some(*rng.pick(&[1.0f32, -1.0, 0.5, 1e-5, 1234.5677, 99.9, 1e10, 3.0e38, f32::MAX, f32::MIN, f32::MIN_POSITIVE, 1e-45, f32::EPSILON])),
        6 => Some(rng.range(-1000, 1000) as f32),
        7 => Some((rng.range(0, 100000) as f32) / 100.0),
        8 => {
            if rng.chance(1, 4) {
                Some(*rng.pick(&[f32::INFINITY, f32::NEG_INFINITY, f32::NAN]))
            } else {
                Some(0.25)
            }
        }
        _ => {
            let x = f32::from_bits(rng.next_u32());
            Some(if x.is_finite() { x } else { 7.0 })
        }
    }
}

pub fn gen_position(rng: &mut Rng) -> usize {
    match rng.below(8) {
        0 => 1,
        1 => *rng.pick(&[2usize, 9, 10, 99, 100, 4_294_967_295, 4_294_967_296, usize::MAX - 1, usize::MAX]),
        _ => 1 + rng.skewed(300_000_000) as usize,
    }
}

pub fn gen_attrs(rng: &mut Rng, tag_class: impl Fn(&mut Rng) -> TextClass, val_class: impl Fn(&mut Rng) -> TextClass, classes_seen: &mut Vec<TextClass>) -> Vec<(Vec<u8>, Vec<Vec<u8>>)> {
    let n = match rng.below(6) {
        0 => 0,
        1 => 1,
        _ => 1 + rng.usize_below(6),
    };
    let mut attrs: Vec<(Vec<u8>, Vec<Vec<u8>>)> = Vec::new();
    const STD: &[&str] = &["ID", "Name", "Alias", "Parent", "Target", "Gap", "Derives_from", "Note", "Dbxref", "Ontology_term", "Is_circular"];
    for _ in 0..n {
        let tag = if rng.chance(1, 3) {
            STD[rng.usize_below(STD.len())].to_string()
        } else {
            let c = tag_class(rng);
            classes_seen.push(c);
            gen_text(rng, c)
        };
        if attrs.iter().any(|a| a.0 == tag.as_bytes()) {
            continue; // tags are map keys
        }
        let k = match rng.below(5) {
            0..=2 => 1,
            3 => 2,
            _ => 2 + rng.usize_below(5),
        };
        let vals = (0..k)
            .map(|_| {
                let c = val_class(rng);
                classes_seen.push(c);
                gen_text(rng, c).into_bytes()
            })
            .collect();
        attrs.push((tag.into_bytes(), vals));
    }
    attrs
}

pub fn gen_record(rng: &mut Rng, hint: Hint) -> GffDesc {
    let c_seqid = if rng.chance(1, 40) { TextClass::Empty } else { gen_class(rng, 1, 3) };
    // hostile sources/types are rarer: a raw TAB/LF there destroys the line and hides everything else
    let (c_source, c_type) = if hint == Hint::Random { (gen_class(rng, 1, 8), gen_class(rng, 1, 8)) } else { (TextClass::Token, TextClass::Token) };
    let mut seen = Vec::new();
    let mut attrs = match hint {
        Hint::Minimal => Vec::new(),
        _ => gen_attrs(rng, |r| gen_class(r, 1, 3), |r| if r.chance(1, 25) { TextClass::Empty } else { gen_class(r, 1, 2) }, &mut seen),
    };
    if hint == Hint::Rich {
        // many attributes, single values with literal commas, arrays whose elements contain commas
        for (t, vs) in [("Note", vec!["kinase, putative"]), ("Alias", vec!["a,b", "c", "d,e,f"]), ("Dbxref", vec!["X:1", "Y:2", "Z:3", "W:4"]), ("Ontology_term", vec![","])] {
            if !attrs.iter().any(|a| a.0 == t.as_bytes()) {
                attrs.push((t.as_bytes().to_vec(), vs.into_iter().map(|v| v.as_bytes().to_vec()).collect()));
            }
        }
    }
    seen.sort();
    seen.dedup();
    let c_tag = seen.iter().copied().find(|c| *c != TextClass::Token).unwrap_or(TextClass::Token);
    let c_val = seen.iter().copied().rev().find(|c| *c != TextClass::Token).unwrap_or(TextClass::Token);
    let ty = match hint {
        Hint::Minimal => "region".to_string(),
        Hint::Rich => "CDS".to_string(),
        Hint::Random => {
            if rng.chance(1, 6) {
                "CDS".to_string()
            } else if rng.chance(1, 2) {
                rng.pick(&["gene", "mRNA", "exon", "region", "."]).to_string()
            } else {
                gen_text(rng, c_type)
            }
        }
    };
    let start = gen_position(rng);
    let end = if rng.chance(1, 10) { gen_position(rng) } else { start.saturating_add(rng.skewed(100_000) as usize) };
    let (score, strand, phase) = match hint {
        Hint::Minimal => (None, 0, None),
        Hint::Rich => (Some(norm::score_bits(1234.5677)), 1 + rng.below(3) as u8, Some(rng.below(3) as u8)),
        Hint::Random => (gen_score(rng).map(norm::score_bits), rng.below(4) as u8, if rng.chance(2, 5) { None } else { Some(rng.below(3) as u8) }),
    };
    let single_as_array = rng.chance(1, 6);
    GffDesc {
        norm: Norm {
            seqid: gen_text(rng, c_seqid).into_bytes(),
            source: if hint == Hint::Minimal || rng.chance(1, 5) { b".".to_vec() } else { gen_text(rng, c_source).into_bytes() },
            ty: ty.into_bytes(),
            start,
            end,
            score,
            strand,
            phase,
            attrs,
            arrays: Vec::new(),
        }
        .with_shapes(single_as_array),
        classes: [c_seqid, c_source, c_type, c_tag, c_val],
    }
}

pub fn to_record_buf(n: &Norm) -> RecordBuf {
    assert_eq!(n.arrays.len(), n.attrs.len(), "description without shapes");
    let attrs: Attributes = n
        .attrs
        .iter()
        .zip(&n.arrays)
        .map(|((k, vs), is_array)| {
            let v = if !*is_array { ValueBuf::String(BString::from(vs[0].clone())) } else { ValueBuf::Array(vs.iter().map(|v| BString::from(v.clone())).collect()) };
            (BString::from(k.clone()), v)
        })
        .collect();
    let mut b = RecordBuf::builder()
        .set_reference_sequence_name(n.seqid.clone())
        .set_source(n.source.clone())
        .set_type(n.ty.clone())
        .set_start(Position::try_from(n.start).unwrap())
        .set_end(Position::try_from(n.end).unwrap())
        .set_strand(norm::strand_of(n.strand))
        .set_attributes(attrs);
    if let Some(s) = n.score {
        b = b.set_score(f32::from_bits(s));
    }
    if let Some(p) = n.phase {
        b = b.set_phase(norm::phase_of(p));
    }
    b.build()
}

/// Text-level monitor of one emitted GFF3 record line (without its final LF). Returns the columns
/// if the line structure is intact.
fn check_text<'a>(d: &GffDesc, line: &'a [u8], mon: &mut Mon) -> Option<Vec<&'a [u8]>> {
    let n = &d.norm;
    let cols: Vec<&[u8]> = line.split(|&b| b == b'\t').collect();
    let raw_eol = line.iter().any(|&b| b == b'\n' || b == b'\r');
    if cols.len() != 9 || raw_eol {
        let src = text::has_line_structure_bytes(&String::from_utf8_lossy(&n.source));
        let ty = text::has_line_structure_bytes(&String::from_utf8_lossy(&n.ty));
        if src {
            mon.v("gff3-text:source-emitted-verbatim:line-structure-destroyed", format!("source {} is written raw: the line has {} columns / a raw line terminator: {}", show(&n.source), cols.len(), show(line)));
        }
        if ty {
            mon.v("gff3-text:type-emitted-verbatim:line-structure-destroyed", format!("type {} is written raw: the line has {} columns / a raw line terminator: {}", show(&n.ty), cols.len(), show(line)));
        }
        if !src && !ty {
            mon.v(if raw_eol { "gff3-text:raw-line-terminator-inside-line" } else { "gff3-text:column-count" }, format!("{} columns, raw CR/LF: {raw_eol}: {}", cols.len(), show(line)));
        }
        return None;
    }
    // column 1
    let one = |what: &str, col: &[u8], kind: Gff3Col, value: &[u8], mon: &mut Mon| {
        if let Some(b) = text::gff3_first_raw_forbidden(col, kind) {
            if col == value {
                mon.v(format!("gff3-text:{what}-emitted-verbatim:reserved-character-raw"), format!("{what} {} is written raw: byte {b:#04x} must be percent-encoded", show(value)));
            } else {
                mon.v(format!("gff3-text:{what}:reserved-character-raw"), format!("{what} {} is written as {}: byte {b:#04x} must be percent-encoded", show(value), show(col)));
            }
            return;
        }
        match text::pct_decode_strict(col) {
            Err(e) => {
                if col == value {
                    mon.v(format!("gff3-text:{what}-emitted-verbatim:percent-raw"), format!("{what} {} is written raw: {e}", show(value)));
                } else {
                    mon.v(format!("gff3-text:{what}:bad-escape"), format!("{what} {} is written as {}: {e}", show(value), show(col)));
                }
            }
            Ok(dec) => {
                if dec != value {
                    if col == value {
                        mon.v(format!("gff3-text:{what}-emitted-verbatim:percent-raw"), format!("{what} {} is written raw; a GFF3 reader decodes it to {}", show(value), show(&dec)));
                    } else {
                        mon.v(format!("gff3-text:{what}:decodes-to-other-text"), format!("{what} {} is written as {} which decodes to {}", show(value), show(col), show(&dec)));
                    }
                }
            }
        }
    };
    one("seqid", cols[0], Gff3Col::SeqId, &n.seqid, mon);
    one("source", cols[1], Gff3Col::SourceOrType, &n.source, mon);
    one("type", cols[2], Gff3Col::SourceOrType, &n.ty, mon);
    // column 9, parsed as the specification describes it
    if !n.attrs.is_empty() {
        let parts: Vec<&[u8]> = cols[8].split(|&b| b == b';').collect();
        if parts.len() != n.attrs.len() {
            mon.v("gff3-text:attributes:field-count", format!("{} attributes written as {} ';'-separated fields: {}", n.attrs.len(), parts.len(), show(cols[8])));
        } else {
            for (part, (tag, vals)) in parts.iter().zip(&n.attrs) {
                let Some(eq) = part.iter().position(|&b| b == b'=') else {
                    mon.v("gff3-text:attributes:no-equals-sign", format!("attribute field {} has no '='", show(part)));
                    continue;
                };
                one("attribute-tag", &part[..eq], Gff3Col::AttrPiece, tag, mon);
                let pieces: Vec<&[u8]> = part[eq + 1..].split(|&b| b == b',').collect();
                if pieces.len() != vals.len() {
                    mon.v("gff3-text:attributes:value-count", format!("{} values of tag {} written as {} ','-separated pieces: {}", vals.len(), show(tag), pieces.len(), show(part)));
                } else {
                    for (p, v) in pieces.iter().zip(vals) {
                        one("attribute-value", p, Gff3Col::AttrPiece, v, mon);
                    }
                }
            }
        }
    }
    Some(cols)
}

fn io_class(e: &std::io::Error) -> String {
    format!("{:?}", e.kind())
}

pub fn run_record(rng: &mut Rng, hint: Hint, mon: &mut Mon, file: &mut Vec<FileLine>) {
    let d = gen_record(rng, hint);
    check_record(&d, rng, mon, file);
}

/// Fixed records that are part of every run: witnesses of the known findings, values with literal
/// commas, and rich/minimal lines next to each other for the whole-file passes.
pub fn corpus() -> Vec<GffDesc> {
    let base = Norm { seqid: b"chr1".to_vec(), source: b"src".to_vec(), ty: b"gene".to_vec(), start: 1, end: 10, score: None, strand: 1, phase: None, attrs: vec![(b"ID".to_vec(), vec![b"g1".to_vec()])], arrays: Vec::new() };
    let mut v = Vec::new();
    let mut add = |f: &dyn Fn(&mut Norm)| {
        let mut n = base.clone();
        f(&mut n);
        v.push(GffDesc { norm: n.with_shapes(false), classes: [TextClass::Mixed; 5] });
    };
    let b = |s: &str| s.as_bytes().to_vec();
    add(&|_n| {});
    add(&|n| n.seqid = b"chr 1".to_vec());
    add(&|n| n.seqid = b"%zz1".to_vec());
    add(&|n| n.seqid = b">contig#1".to_vec());
    add(&|n| n.source = b"a\tb".to_vec());
    add(&|n| n.source = b"50%".to_vec());
    add(&|n| n.source = b"d7%3Bc".to_vec());
    add(&|n| n.source = b"x\x01y".to_vec());
    add(&|n| n.ty = b"606\r70".to_vec());
    add(&|n| n.ty = b".%25_".to_vec());
    add(&|n| n.ty = b"a\x1bb".to_vec());
    add(&|n| n.attrs = vec![(b"Note;=".to_vec(), vec![b"a;b=c&d,e%f\tg\nh".to_vec(), b"".to_vec(), "é,測".as_bytes().to_vec()]), (b"Parent".to_vec(), vec![b"p1".to_vec(), b"p2".to_vec(), b"p3".to_vec()])]);
    add(&|n| n.attrs = Vec::new());
    // tags that start with an encoded character must be found by keyed access as well
    add(&|n| n.attrs = vec![(b(";semi"), vec![b("1")]), (b("été"), vec![b("2"), b("3")]), (b("=eq"), vec![b("4")]), (b("%pct"), vec![b("5")]), (b(",c"), vec![b("6")]), (b("&amp"), vec![b("7")]), (b("\tt"), vec![b("8")]), (b("ID"), vec![b("9")])]);
    // a single value with a literal comma is a string, not an array
    add(&|n| n.attrs = vec![(b("Note"), vec![b("kinase, putative")]), (b("Name"), vec![b(",")]), (b("Alias"), vec![b("a,b"), b("c,d")])]);
    // rich line / minimal line / rich line / minimal line
    let rich = |n: &mut Norm| {
        n.score = Some(norm::score_bits(0.5));
        n.strand = 2;
        n.phase = Some(2);
        n.ty = b("CDS");
        n.attrs = vec![(b("ID"), vec![b("cds1")]), (b("Parent"), vec![b("m1"), b("m2"), b("m3")]), (b("Note"), vec![b("x, y")]), (b("Dbxref"), vec![b("A:1"), b("B:2")]), (b("Is_circular"), vec![b("true")])];
    };
    let minimal = |n: &mut Norm| {
        n.source = b(".");
        n.ty = b(".");
        n.score = None;
        n.strand = 0;
        n.phase = None;
        n.attrs = Vec::new();
    };
    add(&rich);
    add(&minimal);
    add(&rich);
    add(&minimal);
    add(&minimal);
    add(&rich);
    v
}

/// All inherent accessors of the lazy GFF3 view.
fn lazy_norm(rec: &gff::Record<'_>) -> Result<Norm, String> {
    use gff::record::attributes::field::Value;
    let mut attrs = Vec::new();
    let mut arrays = Vec::new();
    for item in rec.attributes().iter() {
        let (k, v) = item.map_err(|e| format!("attributes().iter(): {e}"))?;
        let vs: Vec<Vec<u8>> = match &v {
            Value::String(s) => vec![s.to_vec()],
            Value::Array(a) => a.iter().map(|s| s.to_vec()).collect(),
        };
        arrays.push(matches!(v, Value::Array(_)));
        attrs.push((k.to_vec(), vs));
    }
    Ok(Norm {
        seqid: rec.reference_sequence_name().to_vec(),
        source: rec.source().to_vec(),
        ty: rec.ty().to_vec(),
        start: usize::from(rec.start().map_err(|e| e.to_string())?),
        end: usize::from(rec.end().map_err(|e| e.to_string())?),
        score: rec.score().transpose().map_err(|e| e.to_string())?.map(norm::score_bits),
        strand: norm::strand_code(rec.strand().map_err(|e| e.to_string())?),
        phase: rec.phase().transpose().map_err(|e| e.to_string())?.map(norm::phase_code),
        attrs,
        arrays,
    })
}

pub fn check_record(d: &GffDesc, rng: &mut Rng, mon: &mut Mon, file: &mut Vec<FileLine>) {
    let n = &d.norm;
    let rb = to_record_buf(n);
    mon.c("gff3.records_generated", 1);
    let how = rng.below(3);
    let rb2 = rb.clone();
    let written = guard::catch(move || -> std::io::Result<Vec<u8>> {
        let mut w = gff::io::Writer::new(Vec::new());
        match how {
            0 => w.write_record(&rb2)?,
            1 => w.write_line(&LineBuf::Record(rb2))?,
            _ => w.write_feature_record(&rb2)?,
        }
        Ok(w.into_inner())
    });
    let bytes = match written {
        Err(p) => {
            mon.v(format!("gff3-write:panic:{}", p.sig), format!("writer panicked on {rb:?}: {}", p.message));
            return;
        }
        Ok(Err(e)) => {
            let why = if n.ty == b"CDS" && n.phase.is_none() { "CDS without phase".to_string() } else { format!("other:{}", io_class(&e)) };
            // "every record the writer accepts": a rejection is counted, never judged
            mon.c(&format!("gff3.writer_rejected[{why}]"), 1);
            return;
        }
        Ok(Ok(b)) => b,
    };
    mon.c("gff3.records_accepted", 1);
    mon.evals += 1;
    mon.fps.insert(fnv1a(
        format!("gff3|{:?}|{}|{}|{}|{}|{}", d.classes, n.attrs.len().min(3), n.attrs.iter().map(|a| a.1.len()).max().unwrap_or(0).min(3), n.strand, n.phase.is_some(), n.score.is_some()).as_bytes(),
    ));
    if bytes.last() != Some(&b'\n') {
        mon.v("gff3-text:no-final-newline", format!("emitted record does not end with LF: {}", show(&bytes)));
        return;
    }
    let line = &bytes[..bytes.len() - 1];
    let Some(cols) = check_text(d, line, mon) else {
        mon.c("gff3.records_with_destroyed_line_structure", 1);
        return;
    };

    // (i) parse(write(x)) == x through the owned API
    let b2 = bytes.clone();
    let back = guard::catch(move || {
        let mut r = gff::io::Reader::new(&b2[..]);
        let first = r.record_bufs().next();
        let mut r2 = gff::io::Reader::new(BufReader::with_capacity(3, &b2[..]));
        let second = r2.line_bufs().next();
        (first, second)
    });
    let (first, second) = match back {
        Err(p) => {
            mon.v(format!("gff3-roundtrip:panic:{}", p.sig), format!("reader panicked on {}: {}", show(&bytes), p.message));
            return;
        }
        Ok(x) => x,
    };
    let got = match first {
        Some(Ok(r)) => r,
        Some(Err(e)) => {
            mon.v(format!("gff3-roundtrip:reader-error:{}", io_class(&e)), format!("record_bufs() fails on the writer's output {}: {e}", show(&bytes)));
            return;
        }
        None => {
            mon.v("gff3-roundtrip:no-record", format!("record_bufs() yields nothing for {}", show(&bytes)));
            return;
        }
    };
    let gn = Norm::of_record_buf(&got);
    match second {
        Some(Ok(LineBuf::Record(r2))) if Norm::of_record_buf(&r2) == gn => {}
        other => mon.v("gff3-roundtrip:line_bufs-ne-record_bufs", format!("line_bufs() over a 3-byte BufReader gives {other:?}, record_bufs() gave {got:?}")),
    }
    let mut cmp = gn.clone();
    // one finding per field: compare field-wise against the description
    if cmp.seqid != n.seqid {
        if cmp.seqid == cols[0] {
            mon.v("gff3-roundtrip:seqid-not-percent-decoded", format!("seqid {} is written as {} and read back as {} (still encoded)", show(&n.seqid), show(cols[0]), show(&cmp.seqid)));
        } else {
            mon.v("gff3-roundtrip:seqid", format!("seqid {} written as {} read back as {}", show(&n.seqid), show(cols[0]), show(&cmp.seqid)));
        }
        cmp.seqid = n.seqid.clone();
    }
    if let Some(f) = cmp.diff(n) {
        mon.v(format!("gff3-roundtrip:{f}"), format!("field {f}: wrote {n:?}\n as {}\n read back {gn:?}", show(&bytes)));
    } else if let Some((what, i)) = n.shape_diff(&gn) {
        mon.v(format!("gff3-roundtrip:attributes:{what}"), format!("attribute {} = {:?}: wrote {n:?}\n as {}\n read back {gn:?}", show(&n.attrs[i].0), n.attrs[i].1.iter().map(|v| show(v)).collect::<Vec<_>>(), show(&bytes)));
    }
    if n.attrs.iter().zip(&n.arrays).any(|(a, arr)| !*arr && a.1[0].contains(&b',')) {
        mon.c("gff3.string_values_with_literal_comma", 1);
    }
    mon.c("gff3.records_read_back", 1);

    // (iii) lazy view vs the owned record built from it
    let b3 = bytes.clone();
    let desc_attrs = n.attrs.clone();
    let lazy = guard::catch(move || -> Result<(Norm, Norm, Vec<bool>), String> {
        let mut r = gff::io::Reader::new(&b3[..]);
        let line = r.lines().next().ok_or("lines() yields nothing")?.map_err(|e| format!("lines(): {e}"))?;
        let rec = line.as_record().ok_or("line is not a record")?.map_err(|e| format!("as_record(): {e}"))?;
        let lz = lazy_norm(&rec)?;
        // the same view through the feature::Record trait
        let via_trait = Norm::of_feature_record(&rec).map_err(|e| format!("feature::Record accessors: {e}"))?;
        if via_trait != lz {
            return Err(format!("feature::Record accessors {via_trait:?} differ from the inherent accessors {lz:?}"));
        }
        let owned = RecordBuf::try_from_feature_record(&rec).map_err(|e| format!("try_from_feature_record: {e}"))?;
        // keyed access must agree too
        let mut gets = Vec::new();
        for (k, v) in owned.attributes().as_ref() {
            let want: Vec<Vec<u8>> = v.iter().map(|s| s.to_vec()).collect();
            let want_array = matches!(v, ValueBuf::Array(_));
            let got = rec.attributes().get(k).and_then(|r| r.ok()).map(|v| match v {
                gff::record::attributes::field::Value::String(s) => (vec![s.to_vec()], false),
                gff::record::attributes::field::Value::Array(a) => (a.iter().map(|s| s.to_vec()).collect::<Vec<_>>(), true),
            });
            gets.push(got == Some((want, want_array)));
        }
        // keyed access for every tag of the description, inherent and through the trait object
        for (tag, vals) in &desc_attrs {
            let inh = rec.attributes().get(tag).and_then(|r| r.ok()).map(|v| match v {
                gff::record::attributes::field::Value::String(s) => vec![s.to_vec()],
                gff::record::attributes::field::Value::Array(a) => a.iter().map(|s| s.to_vec()).collect::<Vec<_>>(),
            });
            let dynattrs = gff::feature::Record::attributes(&rec);
            let tr = dynattrs.get(tag).and_then(|r| r.ok()).and_then(|v| v.iter().map(|x| x.ok().map(|s| s.to_vec())).collect::<Option<Vec<_>>>());
            gets.push(inh.as_ref() == Some(vals) && tr.as_ref() == Some(vals));
        }
        Ok((lz, Norm::of_record_buf(&owned), gets))
    });
    match lazy {
        Err(p) => mon.v(format!("gff3-lazy:panic:{}", p.sig), format!("lazy view panicked on {}: {}", show(&bytes), p.message)),
        Ok(Err(e)) => mon.v("gff3-lazy:error", format!("lazy view of {}: {e}", show(&bytes))),
        Ok(Ok((lz, owned, gets))) => {
            if let Some(f) = lz.diff(&owned) {
                mon.v(format!("gff3-lazy:{f}"), format!("lazy accessors {lz:?} != owned record built from the view {owned:?}"));
            } else if lz != owned {
                mon.v("gff3-lazy:attributes:string-vs-array", format!("lazy accessors {lz:?} != owned record built from the view {owned:?}"));
            }
            if let Some(f) = owned.diff(&gn) {
                mon.v(format!("gff3-lazy:owned-ne-record_bufs:{f}"), format!("try_from_feature_record {owned:?} != record_bufs() {gn:?}"));
            } else if owned != gn {
                mon.v("gff3-lazy:owned-ne-record_bufs:attributes:string-vs-array", format!("try_from_feature_record {owned:?} != record_bufs() {gn:?}"));
            }
            // the lazy view against the description (tags/values equal => only the shape can differ)
            let mut lzc = lz.clone();
            lzc.seqid = n.seqid.clone();
            if lzc.diff(n).is_none() {
                if let Some((what, i)) = n.shape_diff(&lz) {
                    mon.v(format!("gff3-lazy:attributes:{what}"), format!("attribute {}: described {n:?}, lazy view of {} says {lz:?}", show(&n.attrs[i].0), show(&bytes)));
                }
            }
            if gets.iter().any(|ok| !ok) {
                mon.v("gff3-lazy:attributes-get", format!("Attributes::get(tag) of the lazy view does not return the described / owned value for some tag of {:?} on {}", n.attrs.iter().map(|a| show(&a.0)).collect::<Vec<_>>(), show(&bytes)));
            }
            mon.c("gff3.lazy_views_compared", 1);
        }
    }
    file.push(FileLine { bytes, rec: Some(gn), dir: None });
}

// -------------------------------------------------------------------------------------------
// directives

fn token(rng: &mut Rng) -> String {
    gen_text(rng, TextClass::Token)
}

/// Delimiter-free free text for the space separated parts of typed directives (`##sequence-region
/// seqid start end`, `##genome-build source name`): any UTF-8 incl. reserved characters, but no
/// ASCII whitespace and no vertical tab — a part containing a blank is not representable in these
/// directives (format-inherent), so it is not generated.
fn directive_part(rng: &mut Rng) -> String {
    let c = *rng.pick(&[TextClass::Token, TextClass::Token, TextClass::Plain, TextClass::Reserved, TextClass::Leading, TextClass::Unicode, TextClass::PercentLiteral, TextClass::Mixed]);
    let s: String = gen_text(rng, c).chars().filter(|ch| !ch.is_ascii_whitespace() && *ch != '\u{b}').collect();
    if s.is_empty() {
        return if rng.bool() { "ctg123".into() } else { "chr1/alt".into() };
    }
    if rng.chance(1, 4) {
        // realistic accessions with punctuation
        return rng.pick(&["NC_000001.11", "HLA-A*01:01:01", "GL000192.1|alt", "chr1/alt", "chrUn_KI270302v1", "scaffold(12)", "a,b", "x=y;z", "100%", "#1", ">c", "été"]).to_string();
    }
    s
}

fn directive_position(rng: &mut Rng) -> usize {
    match rng.below(6) {
        0 => 1,
        1 => *rng.pick(&[2usize, 4_294_967_295, 4_294_967_296, usize::MAX - 1, usize::MAX]),
        _ => 1 + rng.skewed(1_000_000_000) as usize,
    }
}

pub const DIRECTIVE_KINDS: &[&str] = &["gff-version", "sequence-region", "genome-build", "text-under-known-key", "unknown-key-with-text", "forward-references-resolved", "unknown-key-without-value", "FASTA"];

fn sequence_region(name: &str, s: usize, e: usize) -> DirectiveBuf {
    DirectiveBuf::new(directive_buf::key::SEQUENCE_REGION, Some(DValue::SequenceRegion(directive_buf::value::SequenceRegion::new(name, Position::try_from(s).unwrap(), Position::try_from(e).unwrap()))))
}

/// Fixed directives that are part of every run (interleaved with the corpus records).
pub fn directive_corpus() -> Vec<(usize, DirectiveBuf)> {
    use directive_buf::key;
    let mut v: Vec<(usize, DirectiveBuf)> = Vec::new();
    for t in ["3", "3.1", "3.1.26"] {
        v.push((0, DirectiveBuf::new(key::GFF_VERSION, Some(DValue::GffVersion(t.parse().unwrap())))));
    }
    for (name, s, e) in [
        ("ctg123", 1, 1497228),
        ("chr1/alt", 1, usize::MAX),
        ("NC_000001.11", 4_294_967_296, usize::MAX),
        ("HLA-A*01:01:01", 1, 1),
        ("#x", 2, 3),
        ("(a,b)", 1, 10),
        ("50%", 1, 10),
        ("%41", 1, 10),
        ("a=b;c&d", 1, 10),
        (">c", 1, 10),
        ("été測", 1, 10),
    ] {
        v.push((1, sequence_region(name, s, e)));
    }
    v.push((2, DirectiveBuf::new(key::GENOME_BUILD, Some(DValue::GenomeBuild(directive_buf::value::GenomeBuild::new("NCBI", "B36"))))));
    v.push((2, DirectiveBuf::new(key::GENOME_BUILD, Some(DValue::GenomeBuild(directive_buf::value::GenomeBuild::new("src/1;é", "name%2,=x"))))));
    v.push((3, DirectiveBuf::new(key::SPECIES, Some(DValue::String("https://www.ncbi.nlm.nih.gov/Taxonomy/Browser/wwwtax.cgi?id=6239".into())))));
    v.push((3, DirectiveBuf::new(key::SEQUENCE_REGION, Some(DValue::String("ctg123 1 1497228".into())))));
    v.push((4, DirectiveBuf::new("foo-bar", Some(DValue::String("free text; with = & , % %41 and é  two blanks ".into())))));
    v.push((4, DirectiveBuf::new("x", Some(DValue::String("".into())))));
    v.push((5, DirectiveBuf::new(key::FORWARD_REFERENCES_ARE_RESOLVED, None)));
    v.push((6, DirectiveBuf::new("end-of-part", None)));
    v.push((7, DirectiveBuf::new(key::FASTA, None)));
    v
}

pub fn run_directive(rng: &mut Rng, mon: &mut Mon, file: &mut Vec<FileLine>) {
    use directive_buf::key;
    let kind = rng.below(8) as usize;
    let d = match kind {
        0 => {
            let v = *rng.pick(&["3", "3.1", "3.1.26", "3.0.0", "2", "3.0", "10.20.30"]);
            DirectiveBuf::new(key::GFF_VERSION, Some(DValue::GffVersion(v.parse().unwrap())))
        }
        1 => {
            let s = directive_position(rng);
            let e = if rng.chance(1, 5) { directive_position(rng) } else { s.saturating_add(rng.skewed(1_000_000) as usize) };
            sequence_region(&directive_part(rng), s, e)
        }
        2 => DirectiveBuf::new(key::GENOME_BUILD, Some(DValue::GenomeBuild(directive_buf::value::GenomeBuild::new(directive_part(rng), directive_part(rng))))),
        3 | 4 => {
            // free text (no TAB, no line terminator) under a known or an unknown key
            let k: Vec<u8> = if kind == 3 {
                rng.pick(&[key::FEATURE_ONTOLOGY, key::ATTRIBUTE_ONTOLOGY, key::SOURCE_ONTOLOGY, key::SPECIES, key::GFF_VERSION, key::SEQUENCE_REGION, key::GENOME_BUILD]).to_vec()
            } else {
                token(rng).into_bytes()
            };
            let c = *rng.pick(&[TextClass::Token, TextClass::Plain, TextClass::Reserved, TextClass::Leading, TextClass::Unicode, TextClass::PercentLiteral, TextClass::Empty]);
            let v = gen_text(rng, c);
            DirectiveBuf::new(k, Some(DValue::String(v.into())))
        }
        5 => DirectiveBuf::new(key::FORWARD_REFERENCES_ARE_RESOLVED, None),
        6 => DirectiveBuf::new(token(rng), None),
        _ => DirectiveBuf::new(key::FASTA, None),
    };
    check_directive(d, kind, rng, mon, file);
}

pub fn check_directive(d: DirectiveBuf, kind: usize, rng: &mut Rng, mon: &mut Mon, file: &mut Vec<FileLine>) {
    let kname = DIRECTIVE_KINDS[kind];
    mon.c("gff3.directives_generated", 1);
    let d2 = d.clone();
    let via_line = rng.bool();
    let written = guard::catch(move || -> std::io::Result<Vec<u8>> {
        let mut w = gff::io::Writer::new(Vec::new());
        if via_line { w.write_line(&LineBuf::Directive(d2))? } else { w.write_directive(&d2)? }
        Ok(w.into_inner())
    });
    let bytes = match written {
        Err(p) => {
            mon.v(format!("gff3-directive:writer-panic:{}", p.sig), format!("{d:?}: {}", p.message));
            return;
        }
        Ok(Err(e)) => {
            mon.c(&format!("gff3.directive_writer_rejected[{kname}:{}]", io_class(&e)), 1);
            return;
        }
        Ok(Ok(b)) => b,
    };
    mon.evals += 1;
    mon.fps.insert(fnv1a(format!("gff3-directive|{kname}").as_bytes()));
    mon.c(&format!("gff3.directives_accepted[{kname}]"), 1);
    if !bytes.starts_with(b"##") || bytes.last() != Some(&b'\n') || bytes[..bytes.len() - 1].iter().any(|&b| b == b'\n' || b == b'\r') {
        mon.v("gff3-directive:text-shape", format!("{d:?} written as {}", show(&bytes)));
        return;
    }
    let b2 = bytes.clone();
    let back = guard::catch(move || -> Result<(DirectiveBuf, Vec<u8>, Option<Vec<u8>>), String> {
        let mut r = gff::io::Reader::new(&b2[..]);
        let lb = r.line_bufs().next().ok_or("line_bufs() yields nothing")?.map_err(|e| e.to_string())?;
        let LineBuf::Directive(got) = lb else { return Err(format!("line_bufs() yields {lb:?}")) };
        let mut r = gff::io::Reader::new(&b2[..]);
        let line = r.lines().next().ok_or("lines() yields nothing")?.map_err(|e| e.to_string())?;
        let lz = line.as_directive().ok_or("as_directive() is None")?;
        // read_line into a caller-owned line
        let mut r = gff::io::Reader::new(BufReader::with_capacity(2, &b2[..]));
        let mut l2 = gff::Line::default();
        r.read_line(&mut l2).map_err(|e| e.to_string())?;
        let lz2 = l2.as_directive().ok_or("read_line: as_directive() is None")?;
        if lz2.key() != lz.key() || lz2.value() != lz.value() || l2.kind() != gff::line::Kind::Directive {
            return Err("read_line + as_directive differs from lines() + as_directive".into());
        }
        Ok((got, lz.key().to_vec(), lz.value().map(|v| v.to_vec())))
    });
    match back {
        Err(p) => mon.v(format!("gff3-directive:reader-panic:{}", p.sig), format!("{}: {}", show(&bytes), p.message)),
        Ok(Err(e)) => mon.v("gff3-directive:reader-error", format!("{d:?} written as {}: {e}", show(&bytes))),
        Ok(Ok((got, lkey, lval))) => {
            // the reader hands typed values back as text; equality is judged after parsing that text with
            // the type's own FromStr
            let same_value = match (d.value(), got.value()) {
                (None, None) => true,
                (Some(DValue::String(a)), Some(DValue::String(b))) => a == b,
                (Some(DValue::GffVersion(a)), Some(DValue::String(b))) => b.to_string().parse::<directive_buf::value::GffVersion>().ok().as_ref() == Some(a),
                (Some(DValue::SequenceRegion(a)), Some(DValue::String(b))) => b.to_string().parse::<directive_buf::value::SequenceRegion>().ok().as_ref() == Some(a),
                (Some(DValue::GenomeBuild(a)), Some(DValue::String(b))) => b.to_string().parse::<directive_buf::value::GenomeBuild>().ok().as_ref() == Some(a),
                (a, b) => a == b,
            };
            if d.key() != got.key() {
                mon.v("gff3-directive:roundtrip:key", format!("{d:?} written as {} read back {got:?}", show(&bytes)));
            } else if !same_value {
                mon.v(format!("gff3-directive:roundtrip:value:{kname}"), format!("{d:?} written as {} read back {got:?} (typed values are judged after parsing the text with the type's FromStr)", show(&bytes)));
            }
            let owned_val = match got.value() {
                Some(DValue::String(s)) => Some(s.to_vec()),
                None => None,
                Some(other) => Some(format!("{other:?}").into_bytes()),
            };
            if lkey != got.key().to_vec() || lval != owned_val {
                mon.v("gff3-directive:lazy-ne-owned", format!("lazy key/value {} / {:?} vs owned {got:?}", show(&lkey), lval.as_deref().map(show)));
            }
            mon.c("gff3.directives_read_back", 1);
            if kind != 7 {
                // (record_bufs() ends at ##FASTA by design, so that directive stays out of the whole-file pass)
                file.push(FileLine { bytes, rec: None, dir: Some((got.key().to_vec(), owned_val)) });
            }
        }
    }
}

/// What one API saw for one line of a whole file.
#[derive(Debug, PartialEq)]
enum Seen {
    Rec(Norm),
    Dir(Vec<u8>, Option<Vec<u8>>),
    Other,
}

fn seen_of_line(line: &gff::Line) -> Result<Vec<Seen>, String> {
    // a record line is reported twice: lazy accessors, and the owned record built from the view
    if let Some(d) = line.as_directive() {
        return Ok(vec![Seen::Dir(d.key().to_vec(), d.value().map(|v| v.to_vec()))]);
    }
    match line.as_record() {
        Some(r) => {
            let rec = r.map_err(|e| format!("as_record(): {e}"))?;
            let owned = RecordBuf::try_from_feature_record(&rec).map_err(|e| format!("try_from_feature_record: {e}"))?;
            Ok(vec![Seen::Rec(lazy_norm(&rec)?), Seen::Rec(Norm::of_record_buf(&owned))])
        }
        None => Ok(vec![Seen::Other]),
    }
}

/// Whole-file passes: all intact lines of the batch concatenated and read through ONE reader per
/// API — `record_bufs()`, `line_bufs()`, a `read_line(&mut line)` loop over one reused `Line`, and
/// `lines()` — through small buffers. Every record/directive must come back in order and equal to
/// what the per-line pass saw (which was compared with the description); state carried over from a
/// rich line to a minimal one (or back) shows up here.
pub fn run_file(rng: &mut Rng, mon: &mut Mon, file: &[FileLine]) {
    let mut all = Vec::new();
    for f in file {
        all.extend_from_slice(&f.bytes);
        if rng.chance(1, 10) {
            all.extend_from_slice(b"\n"); // blank lines are to be ignored
        }
    }
    // expected: per line one entry (directive / record)
    let exp_lines: Vec<Seen> = file
        .iter()
        .map(|f| match (&f.rec, &f.dir) {
            (Some(n), _) => Seen::Rec(n.clone()),
            (_, Some((k, v))) => Seen::Dir(k.clone(), v.clone()),
            _ => Seen::Other,
        })
        .collect();
    let exp_recs: Vec<Seen> = file.iter().filter_map(|f| f.rec.clone()).map(Seen::Rec).collect();
    let mut adj = 0u64;
    for w in file.windows(2) {
        if let (Some(a), Some(b)) = (&w[0].rec, &w[1].rec) {
            if a.attrs.is_empty() != b.attrs.is_empty() {
                adj += 1;
            }
        }
    }
    mon.c("gff3.file_adjacent_rich_minimal_pairs", adj);
    let cap = *rng.pick(&[1usize, 2, 5, 16, 4096]);
    type Pass = (&'static str, Vec<Seen>, usize);
    let got = guard::catch(move || -> Result<Vec<Pass>, String> {
        let mut out: Vec<Pass> = Vec::new();
        let mut r = gff::io::Reader::new(BufReader::with_capacity(cap, &all[..]));
        let recs = r.record_bufs().map(|x| x.map(|r| Seen::Rec(Norm::of_record_buf(&r)))).collect::<std::io::Result<Vec<_>>>().map_err(|e| format!("record_bufs(): {e}"))?;
        out.push(("record_bufs", recs, 1));
        let mut r = gff::io::Reader::new(BufReader::with_capacity(cap, &all[..]));
        let mut v = Vec::new();
        for lb in r.line_bufs() {
            v.push(match lb.map_err(|e| format!("line_bufs(): {e}"))? {
                LineBuf::Record(rb) => Seen::Rec(Norm::of_record_buf(&rb)),
                LineBuf::Directive(d) => Seen::Dir(
                    d.key().to_vec(),
                    match d.value() {
                        Some(DValue::String(s)) => Some(s.to_vec()),
                        None => None,
                        Some(o) => Some(format!("{o:?}").into_bytes()),
                    },
                ),
                LineBuf::Comment(_) => Seen::Other,
            });
        }
        out.push(("line_bufs", v, 1));
        // one reused lazy line
        let mut r = gff::io::Reader::new(BufReader::with_capacity(cap, &all[..]));
        let mut line = gff::Line::default();
        let mut v = Vec::new();
        while r.read_line(&mut line).map_err(|e| format!("read_line(): {e}"))? != 0 {
            v.extend(seen_of_line(&line)?);
        }
        out.push(("read_line", v, 2));
        let mut r = gff::io::Reader::new(BufReader::with_capacity(cap, &all[..]));
        let mut v = Vec::new();
        for l in r.lines() {
            v.extend(seen_of_line(&l.map_err(|e| format!("lines(): {e}"))?)?);
        }
        out.push(("lines", v, 2));
        Ok(out)
    });
    match got {
        Err(p) => mon.v(format!("gff3-file:panic:{}", p.sig), p.message),
        Ok(Err(e)) => mon.v("gff3-file:reader-error", format!("reading {} concatenated lines: {e}", file.len())),
        Ok(Ok(passes)) => {
            for (api, seen, per_rec) in passes {
                // expected sequence for this API (record lines reported `per_rec` times by the lazy APIs)
                let base = if api == "record_bufs" { &exp_recs } else { &exp_lines };
                let mut exp: Vec<&Seen> = Vec::new();
                for e in base {
                    let k = if matches!(e, Seen::Rec(_)) { per_rec } else { 1 };
                    for _ in 0..k {
                        exp.push(e);
                    }
                }
                if seen.len() != exp.len() {
                    mon.v(format!("gff3-file:{api}:line-count"), format!("{} entries expected, {api} yields {}", exp.len(), seen.len()));
                    continue;
                }
                if let Some(i) = seen.iter().zip(&exp).position(|(a, b)| a != *b) {
                    let what = match (&seen[i], exp[i]) {
                        (Seen::Rec(a), Seen::Rec(b)) => format!("record:{}", a.diff(b).unwrap_or("attributes:string-vs-array")),
                        (Seen::Dir(..), Seen::Dir(..)) => "directive".to_string(),
                        _ => "line-kind".to_string(),
                    };
                    mon.v(format!("gff3-file:{api}:{what}"), format!("entry #{i} of the file read through one reader: {api} gives {:?}, the per-line pass (== description) gave {:?}; previous entry: {:?}", seen[i], exp[i], i.checked_sub(1).map(|j| &seen[j])));
                }
                mon.c(&format!("gff3.file_entries_compared[{api}]"), seen.len() as u64);
            }
            mon.c("gff3.files_read", 1);
            mon.evals += 1;
        }
    }
}
