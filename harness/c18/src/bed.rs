//! BED3..BED6 standard fields plus 0..n other fields (BED7..BED12 and beyond are "other fields" in
//! noodles-bed): write, text-level monitor, lazy `bed::Record<N>` vs `RecordBuf<N>`.

use std::io::BufReader;

use noodles_bed::{
    self as bed,
    feature::{
        RecordBuf,
        record::Strand,
        record_buf::{OtherFields, other_fields::Value},
    },
};
use noodles_core::Position;
use vcore::{Rng, guard, rng::fnv1a};

use crate::{Mon, gff::Hint, text::show};

#[derive(Clone, Debug)]
pub struct BedDesc {
    pub chrom: Vec<u8>,
    pub start: usize,
    pub end: Option<usize>,
    pub name: Option<Vec<u8>>,
    pub score: u16,
    pub strand: Option<bool>,
    /// (value, expected text)
    pub other: Vec<(Value, Vec<u8>)>,
    /// which value lies outside the BED alphabet (the unchanged writer refuses those)
    pub invalid: Option<&'static str>,
}

impl BedDesc {
    /// Some text field contains TAB / CR / LF: outside the statement's precondition, so not judged
    /// even if a writer accepts it.
    pub fn breaks_precondition(&self) -> bool {
        let bad = |t: &[u8]| t.iter().any(|&b| b == b'\t' || b == b'\n' || b == b'\r');
        bad(&self.chrom) || self.name.as_deref().map(bad).unwrap_or(false) || self.other.iter().any(|o| bad(&o.1))
    }
}

const CHROM: &[u8] = b"abcdefXYZ0123456789_";
const PRINT: &[u8] = b"abc XYZ 019 _.:-,;=%&#>'\"\\/()+*";

fn gen_other(rng: &mut Rng, invalid: &mut Option<&'static str>) -> (Value, Vec<u8>) {
    match rng.below(12) {
        0 => {
            let n = *rng.pick(&[0i64, -1, 1, i64::MIN, i64::MAX, -255, 1000]);
            (Value::Int64(n), n.to_string().into_bytes())
        }
        1 => {
            let n = *rng.pick(&[0u64, 1, u64::MAX, 4_294_967_296, 255]);
            (Value::UInt64(n), n.to_string().into_bytes())
        }
        2 => {
            let x = *rng.pick(&[0.0f64, -0.0, 0.5, 1e-7, 1e300, -12.25, 3.141592653589793, f64::MIN_POSITIVE]);
            (Value::Float64(x), format!("{x}").into_bytes())
        }
        3 => {
            let b = if rng.chance(1, 8) {
                invalid.get_or_insert("other field: non-printable character");
                *rng.pick(&[b'\t', b'\n', 0x7f, 0x80, 0x01])
            } else {
                b' ' + rng.below(95) as u8
            };
            (Value::Character(b), vec![b])
        }
        4 => (Value::String("".into()), Vec::new()),
        5 => {
            // BED12-like structured columns
            let s = *rng.pick(&["255,0,0", "0", "10,20,", "0,30,", "1000", "2", "0,0,0", "567,488,", "0,3512"]);
            (Value::String(s.into()), s.as_bytes().to_vec())
        }
        6 if rng.chance(1, 3) => {
            invalid.get_or_insert("other field: non-printable string");
            let s = *rng.pick(&["a\tb", "x\n", "é", "\u{7f}"]);
            (Value::String(s.into()), s.as_bytes().to_vec())
        }
        _ => {
            let s: Vec<u8> = (0..1 + rng.usize_below(12)).map(|_| PRINT[rng.usize_below(PRINT.len())]).collect();
            (Value::String(s.clone().into()), s)
        }
    }
}

pub fn gen_desc(rng: &mut Rng, n: usize, hint: Hint) -> BedDesc {
    if hint != Hint::Random {
        return gen_shaped(rng, n, hint == Hint::Rich);
    }
    let mut invalid = None;
    let chrom: Vec<u8> = match rng.below(20) {
        0 => {
            invalid = Some("reference sequence name");
            // outside `[[:alnum:]_]{1,255}`: the unchanged writer refuses all of these; whatever a writer lets
            // through and that is free of TAB / line terminators must read back (a leading '#' would make
            // the line a comment)
            rng.pick(&["", "chr 1", "chr-1", "chr\t1", "é", "a.b", "#chr1", "#", "##x", "chr#1", "HLA-A*01:01:01", "GL000192.1|alt", ".", "chr1\r"]).as_bytes().to_vec()
        }
        1 => vec![b'c'; 255],
        2 => {
            invalid = Some("reference sequence name");
            vec![b'c'; 256]
        }
        _ => (0..1 + rng.usize_below(10)).map(|_| CHROM[rng.usize_below(CHROM.len())]).collect(),
    };
    let start = match rng.below(8) {
        0 => 1,
        1 => *rng.pick(&[2usize, 10, 4_294_967_296, usize::MAX - 1, usize::MAX]),
        _ => 1 + rng.skewed(250_000_000) as usize,
    };
    let end = if rng.chance(1, 10) { None } else { Some(start.saturating_add(rng.skewed(1_000_000) as usize).max(1)) };
    let name = if n >= 4 {
        match rng.below(12) {
            0 => None,
            1 => {
                invalid.get_or_insert("name");
                Some(rng.pick(&["", "a\tb", "é", "x\n"]).as_bytes().to_vec())
            }
            2 => Some(vec![b'n'; 255]),
            3 => {
                invalid.get_or_insert("name");
                Some(vec![b'n'; 256])
            }
            4 => Some(b"..".to_vec()),
            _ => {
                let mut v: Vec<u8> = (0..1 + rng.usize_below(12)).map(|_| PRINT[rng.usize_below(PRINT.len())]).collect();
                if v == b"." {
                    v = b"n.".to_vec(); // "." is the missing-value marker itself (format-inherent)
                }
                Some(v)
            }
        }
    } else {
        None
    };
    let rnd_score = rng.below(1001) as u16;
    let score = if n >= 5 { *rng.pick(&[0u16, 1, 500, 999, 1000, 1001, 65535, rnd_score]) } else { 0 };
    let strand = if n >= 6 { *rng.pick(&[None, Some(true), Some(false)]) } else { None };
    let k = match rng.below(8) {
        0..=2 => 0,
        3 => 6 + 6 - n.min(6), // up to BED12 and a little beyond
        4 => 12 - n,           // exactly BED12
        _ => rng.usize_below(9),
    };
    let other = (0..k).map(|_| gen_other(rng, &mut invalid)).collect();
    BedDesc { chrom, start, end, name, score, strand, other, invalid }
}

/// Valid records of extreme shape: "rich" = every optional standard field present and enough
/// other fields to reach BED12 or more; "minimal" = nothing optional, no other fields.
fn gen_shaped(rng: &mut Rng, n: usize, rich: bool) -> BedDesc {
    let chrom: Vec<u8> = (0..1 + rng.usize_below(10)).map(|_| CHROM[rng.usize_below(CHROM.len())]).collect();
    let start = 1 + rng.skewed(250_000_000) as usize;
    if !rich {
        return BedDesc { chrom, start, end: None, name: None, score: 0, strand: None, other: Vec::new(), invalid: None };
    }
    let mut invalid = None;
    let k = 12 - n + rng.usize_below(4);
    let mut other = Vec::new();
    while other.len() < k {
        let o = gen_other(rng, &mut invalid);
        if invalid.take().is_none() {
            other.push(o);
        }
    }
    BedDesc { chrom, start, end: Some(start + 1 + rng.skewed(100_000) as usize), name: Some(b"feature 1".to_vec()), score: 1 + rng.below(1000) as u16, strand: Some(rng.bool()), other, invalid: None }
}

/// Fixed adjacency corpus: BED12 line, bare BEDn line, BED12, bare, bare, BED12.
pub fn corpus(n: usize) -> Vec<BedDesc> {
    let s = |t: &str| (Value::String(t.into()), t.as_bytes().to_vec());
    let rich = BedDesc {
        chrom: b"chr7".to_vec(),
        start: 127_471_197,
        end: Some(127_495_720),
        name: Some(b"Pos 1".to_vec()),
        score: 960,
        strand: Some(true),
        other: [["127471196", "127495720", "255,0,0", "2", "567,488,", "0,3512"].iter().map(|t| s(t)).collect::<Vec<_>>(), (0..6 - n.min(6)).map(|i| s(&format!("x{i}"))).collect()].concat(),
        invalid: None,
    };
    let minimal = BedDesc { chrom: b"chr1".to_vec(), start: 1, end: None, name: None, score: 0, strand: None, other: Vec::new(), invalid: None };
    let one = BedDesc { other: vec![s("")], ..minimal.clone() };
    let hash = BedDesc { chrom: b"#chr1".to_vec(), invalid: Some("reference sequence name"), ..minimal.clone() };
    let punct = BedDesc { chrom: b"HLA-A*01:01".to_vec(), invalid: Some("reference sequence name"), ..rich.clone() };
    vec![hash, punct, rich.clone(), minimal.clone(), rich.clone(), one, minimal.clone(), minimal, rich]
}

pub struct BedLine<const N: usize> {
    pub bytes: Vec<u8>,
    pub desc: BedDesc,
    pub want: RecordBuf<N>,
}

/// First standard/other field in which the lazy reading differs from the description.
fn desc_diff(n: usize, lz: &BedDesc, d: &BedDesc) -> Option<&'static str> {
    let lz_text: Vec<&Vec<u8>> = lz.other.iter().map(|o| &o.1).collect();
    let d_text: Vec<&Vec<u8>> = d.other.iter().map(|o| &o.1).collect();
    if lz.chrom != d.chrom {
        Some("chrom")
    } else if lz.start != d.start {
        Some("chromStart")
    } else if lz.end != d.end {
        Some("chromEnd")
    } else if n >= 4 && lz.name != d.name {
        Some("name")
    } else if n >= 5 && lz.score != d.score {
        Some("score")
    } else if n >= 6 && lz.strand != d.strand {
        Some("strand")
    } else if lz_text != d_text {
        Some("other-fields")
    } else {
        None
    }
}

macro_rules! bed_n {
    ($fname:ident, $ffile:ident, $n:literal, $name:expr, $score:expr, $strand:expr) => {
        pub fn $fname(rng: &mut Rng, mon: &mut Mon, d: BedDesc, file: &mut Vec<BedLine<$n>>) {
            const N: usize = $n;
            #[allow(unused_mut)]
            let mut b = RecordBuf::<N>::builder().set_reference_sequence_name(d.chrom.clone()).set_feature_start(Position::try_from(d.start).unwrap());
            if let Some(e) = d.end {
                b = b.set_feature_end(Position::try_from(e).unwrap());
            }
            let b = $name(b, &d);
            let b = $score(b, &d);
            let b = $strand(b, &d);
            let rb = b.clone().set_other_fields(OtherFields::from(d.other.iter().map(|o| o.0.clone()).collect::<Vec<_>>())).build();
            // what must come back: the same record with every other field as its text
            let want = b.set_other_fields(OtherFields::from(d.other.iter().map(|o| Value::String(o.1.clone().into())).collect::<Vec<_>>())).build();
            mon.c("bed.records_generated", 1);
            let rb2 = rb.clone();
            let via_builder = rng.bool();
            let written = guard::catch(move || -> std::io::Result<Vec<u8>> {
                if via_builder {
                    let mut w = bed::io::writer::Builder::<N>::default().build_from_writer(Vec::new());
                    w.write_feature_record(&rb2)?;
                    w.into_inner().into_inner().map_err(|e| e.into_error())
                } else {
                    let mut w = bed::io::Writer::<N, _>::new(Vec::new());
                    w.write_feature_record(&rb2)?;
                    Ok(w.into_inner())
                }
            });
            let bytes = match written {
                Err(p) => {
                    mon.v(format!("bed-write:panic:{}", p.sig), format!("writer panicked on {rb:?}: {}", p.message));
                    return;
                }
                Ok(Err(e)) => {
                    match d.invalid {
                        Some(why) => mon.c(&format!("bed.writer_rejected[{why}]"), 1),
                        None => mon.c(&format!("bed.writer_rejected[other:{:?}]", e.kind()), 1),
                    }
                    return;
                }
                Ok(Ok(b)) => b,
            };
            mon.c("bed.records_accepted", 1);
            mon.c(&format!("bed.records_accepted[BED{}+{}]", N, d.other.len().min(7)), 1);
            mon.evals += 1;
            mon.fps.insert(fnv1a(format!("bed|{N}|{}|{}|{}|{:?}", d.other.len().min(7), d.end.is_some(), d.name.is_some(), d.strand).as_bytes()));
            if d.invalid.is_some() {
                if d.breaks_precondition() {
                    // TAB / line terminator inside a field: outside the precondition, counted only
                    mon.c("bed.precondition_violating_value_accepted_not_judged", 1);
                    return;
                }
                // outside the BED alphabet but delimiter-free: "whatever the writer accepts must read back"
                mon.c("bed.value_outside_bed_alphabet_accepted_and_judged", 1);
            }
            // (ii) text level
            if bytes.last() != Some(&b'\n') || bytes[..bytes.len() - 1].iter().any(|&b| b == b'\n' || b == b'\r') {
                mon.v("bed-text:line-terminators", format!("emitted {}", show(&bytes)));
                return;
            }
            let line = &bytes[..bytes.len() - 1];
            let cols: Vec<&[u8]> = line.split(|&b| b == b'\t').collect();
            if cols.len() != N + d.other.len() {
                mon.v("bed-text:column-count", format!("BED{N}+{}: {} columns: {}", d.other.len(), cols.len(), show(line)));
                return;
            }
            let mut exp: Vec<Vec<u8>> = vec![d.chrom.clone(), (d.start - 1).to_string().into_bytes(), d.end.map(|e| e.to_string()).unwrap_or_else(|| "0".into()).into_bytes()];
            if N >= 4 {
                exp.push(d.name.clone().unwrap_or_else(|| b".".to_vec()));
            }
            if N >= 5 {
                exp.push(d.score.to_string().into_bytes());
            }
            if N >= 6 {
                exp.push(match d.strand {
                    None => b".".to_vec(),
                    Some(true) => b"+".to_vec(),
                    Some(false) => b"-".to_vec(),
                });
            }
            const STD: [&str; 6] = ["chrom", "chromStart", "chromEnd", "name", "score", "strand"];
            for (i, e) in exp.iter().enumerate() {
                if cols[i] != &e[..] {
                    mon.v(format!("bed-text:{}", STD[i]), format!("{} expected {} (0-based start, 1-based end), emitted {} in {}", STD[i], show(e), show(cols[i]), show(line)));
                }
            }
            for (i, (_, e)) in d.other.iter().enumerate() {
                if cols[N + i] != &e[..] {
                    mon.v("bed-text:other-field", format!("other field #{i} expected {}, emitted {}", show(e), show(cols[N + i])));
                }
            }

            // (i)+(iii) read back through the lazy record, build the owned one from it
            let b2 = bytes.clone();
            let cap = *rng.pick(&[1usize, 2, 3, 7, 4096]);
            let back = guard::catch(move || -> Result<(BedDesc, RecordBuf<N>, Vec<u8>, usize), String> {
                let mut r = bed::io::Reader::<N, _>::new(BufReader::with_capacity(cap, &b2[..]));
                let mut rec = bed::Record::<N>::default();
                let n = r.read_record(&mut rec).map_err(|e| format!("read_record: {e}"))?;
                if n != b2.len() {
                    return Err(format!("read_record consumed {n} of {} bytes", b2.len()));
                }
                let lz = lazy_desc::<N>(&rec)?;
                let owned = RecordBuf::<N>::try_from_feature_record(&rec).map_err(|e| format!("try_from_feature_record: {e}"))?;
                let mut w = bed::io::Writer::<N, _>::new(Vec::new());
                w.write_record(&rec).map_err(|e| format!("re-writing the lazy record: {e}"))?;
                let mut again = bed::Record::<N>::default();
                let eof = r.read_record(&mut again).map_err(|e| format!("second read_record: {e}"))?;
                Ok((lz, owned, w.into_inner(), eof))
            });
            match back {
                Err(p) => mon.v(format!("bed-roundtrip:panic:{}", p.sig), format!("reader panicked on {}: {}", show(&bytes), p.message)),
                Ok(Err(e)) => mon.v("bed-roundtrip:reader-error", format!("{} : {e}", show(&bytes))),
                Ok(Ok((lz, owned, rewritten, eof))) => {
                    // description vs lazy accessors
                    let field = desc_diff(N, &lz, &d);
                    if let Some(f) = field {
                        mon.v(format!("bed-roundtrip:{f}"), format!("wrote {d:?}\n as {}\n lazy record says {lz:?}", show(&bytes)));
                    }
                    // owned built from the lazy view == written record (other fields come back as strings)
                    if owned != want {
                        mon.v("bed-lazy:owned-ne-written", format!("RecordBuf built from the lazy record {owned:?} != written {want:?}"));
                    }
                    if rewritten != bytes {
                        mon.v("bed-lazy:rewrite-ne-original", format!("writing the lazy record gives {}, original {}", show(&rewritten), show(&bytes)));
                    }
                    if eof != 0 {
                        mon.v("bed-roundtrip:trailing-record", format!("a second read_record returned {eof} on {}", show(&bytes)));
                    }
                    mon.c("bed.records_read_back", 1);
                    file.push(BedLine { bytes, desc: d, want });
                }
            }
        }

        /// Whole file through ONE reader and ONE reused `Record<N>`: `read_record(&mut same_record)`.
        pub fn $ffile(rng: &mut Rng, mon: &mut Mon, file: &[BedLine<$n>]) {
            const N: usize = $n;
            if file.is_empty() {
                return;
            }
            let mut all = Vec::new();
            for l in file {
                all.extend_from_slice(&l.bytes);
            }
            let adj = file.windows(2).filter(|w| w[0].desc.other.is_empty() != w[1].desc.other.is_empty()).count();
            mon.c("bed.file_adjacent_rich_minimal_pairs", adj as u64);
            let cap = *rng.pick(&[1usize, 2, 3, 7, 64, 4096]);
            let got = guard::catch(move || -> Result<Vec<(BedDesc, RecordBuf<N>)>, String> {
                let mut r = bed::io::Reader::<N, _>::new(BufReader::with_capacity(cap, &all[..]));
                let mut rec = bed::Record::<N>::default();
                let mut v = Vec::new();
                while r.read_record(&mut rec).map_err(|e| format!("read_record #{}: {e}", v.len()))? != 0 {
                    let lz = lazy_desc::<N>(&rec).map_err(|e| format!("record #{}: {e}", v.len()))?;
                    let owned = RecordBuf::<N>::try_from_feature_record(&rec).map_err(|e| format!("try_from_feature_record #{}: {e}", v.len()))?;
                    v.push((lz, owned));
                }
                Ok(v)
            });
            match got {
                Err(p) => mon.v(format!("bed-file:panic:{}", p.sig), p.message),
                Ok(Err(e)) => mon.v("bed-file:reader-error", format!("BED{N} file of {} lines through one reused record: {e}", file.len())),
                Ok(Ok(v)) => {
                    if v.len() != file.len() {
                        mon.v("bed-file:read_record:line-count", format!("{} lines written, {} records read", file.len(), v.len()));
                        return;
                    }
                    for (i, ((lz, owned), l)) in v.iter().zip(file).enumerate() {
                        let prev = i.checked_sub(1).map(|j| show(&file[j].bytes));
                        if let Some(f) = desc_diff(N, lz, &l.desc) {
                            mon.v(format!("bed-file:read_record:{f}"), format!("line #{i} {} read into the reused record says {lz:?}; described {:?}; previous line {prev:?}", show(&l.bytes), l.desc));
                            break;
                        }
                        if *owned != l.want {
                            mon.v("bed-file:owned-ne-written", format!("line #{i} {}: RecordBuf built from the reused lazy record {owned:?} != written {:?}; previous line {prev:?}", show(&l.bytes), l.want));
                            break;
                        }
                    }
                    mon.c("bed.file_records_compared", v.len() as u64);
                    mon.c("bed.files_read", 1);
                    mon.evals += 1;
                }
            }
        }
    };
}

fn lazy_desc<const N: usize>(rec: &bed::Record<N>) -> Result<BedDesc, String>
where
    bed::Record<N>: bed::feature::Record<N>,
{
    use bed::feature::Record as _;
    let start = usize::from(rec.feature_start().map_err(|e| format!("feature_start: {e}"))?);
    let end = rec.feature_end().transpose().map_err(|e| format!("feature_end: {e}"))?.map(usize::from);
    let name = rec.name().flatten().map(|n| n.to_vec());
    let score = rec.score().transpose().map_err(|e| format!("score: {e}"))?.unwrap_or(0);
    let strand = rec.strand().transpose().map_err(|e| format!("strand: {e}"))?.flatten().map(|s| s == Strand::Forward);
    let of = bed::feature::Record::<N>::other_fields(rec);
    let mut other = Vec::new();
    for (i, v) in of.iter().enumerate() {
        // inherent accessors of the lazy other fields
        let direct = bed::Record::<N>::other_fields(rec).get(i).map(|s| s.to_vec());
        let t: Vec<u8> = match v {
            bed::feature::record::other_fields::Value::String(s) => s.to_vec(),
            o => format!("{o:?}").into_bytes(),
        };
        if direct.as_ref() != Some(&t) {
            return Err(format!("other_fields().get({i}) differs from iter()"));
        }
        other.push((Value::String(t.clone().into()), t));
    }
    if bed::Record::<N>::other_fields(rec).len() != other.len() || of.len() != other.len() || of.is_empty() != other.is_empty() {
        return Err("other_fields().len()/is_empty() inconsistent with iter()".into());
    }
    if rec.standard_field_count() != N {
        return Err("standard_field_count() != N".into());
    }
    Ok(BedDesc { chrom: rec.reference_sequence_name().to_vec(), start, end, name, score, strand, other, invalid: None })
}

type B3 = bed::feature::record_buf::Builder<3>;
type B4 = bed::feature::record_buf::Builder<4>;
type B5 = bed::feature::record_buf::Builder<5>;
type B6 = bed::feature::record_buf::Builder<6>;

bed_n!(run_bed3, run_bed3_file, 3, |b: B3, _d: &BedDesc| b, |b: B3, _d: &BedDesc| b, |b: B3, _d: &BedDesc| b);
bed_n!(run_bed4, run_bed4_file, 4, |b: B4, d: &BedDesc| match &d.name { Some(n) => b.set_name(n.clone()), None => b }, |b: B4, _d: &BedDesc| b, |b: B4, _d: &BedDesc| b);
bed_n!(run_bed5, run_bed5_file, 5, |b: B5, d: &BedDesc| match &d.name { Some(n) => b.set_name(n.clone()), None => b }, |b: B5, d: &BedDesc| b.set_score(d.score), |b: B5, _d: &BedDesc| b);
bed_n!(
    run_bed6,
    run_bed6_file,
    6,
    |b: B6, d: &BedDesc| match &d.name { Some(n) => b.set_name(n.clone()), None => b },
    |b: B6, d: &BedDesc| b.set_score(d.score),
    |b: B6, d: &BedDesc| match d.strand { Some(true) => b.set_strand(Strand::Forward), Some(false) => b.set_strand(Strand::Reverse), None => b }
);
