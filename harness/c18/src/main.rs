//! C18 — GFF3, GTF and BED lines round-trip, including escaping of reserved characters.
//!
//! Monitor: generated records/directives (descriptions owned by the harness) are written by the
//! noodles writers; the emitted text is judged by the harness' own reading of the GFF3 / GTF / BED
//! specifications (column counts, reserved characters, escapes decode to the described values);
//! the text is parsed back through the owned APIs (`record_bufs`, `line_bufs`, `read_record`) and
//! compared field-wise with the description; the lazy line views are compared with the owned
//! records built from them.

mod bed;
mod gff;
mod gtf;
mod norm;
mod text;

use std::collections::{BTreeMap, BTreeSet};

use serde_json::json;
use vcore::{CaseOut, Ctx, Report, Rng, run_cases};

/// Per-case accumulator.
#[derive(Default)]
pub struct Mon {
    pub viols: BTreeMap<String, String>,
    pub counts: BTreeMap<String, u64>,
    pub fps: BTreeSet<u64>,
    pub evals: u64,
}

impl Mon {
    pub fn v(&mut self, sig: impl Into<String>, desc: impl Into<String>) {
        let sig = sig.into();
        *self.counts.entry(format!("flagged[{sig}]")).or_insert(0) += 1;
        self.viols.entry(sig).or_insert_with(|| desc.into());
    }
    pub fn c(&mut self, k: &str, n: u64) {
        *self.counts.entry(k.to_string()).or_insert(0) += n;
    }
}

#[derive(Clone, Debug)]
struct Case {
    /// "gff3" | "gtf" | "bed"
    format: &'static str,
    lines: usize,
    pseed: u64,
}

fn case_json(c: &Case) -> serde_json::Value {
    json!({"format": c.format, "lines": c.lines, "pseed": c.pseed})
}

fn gen_cases(ctx: &Ctx) -> Vec<Case> {
    let total = ctx.budget("lines", 30_000, 2_000_000) as usize;
    let per = ctx.budget("lines_per_case", 250, 500) as usize;
    let n = total.div_ceil(per);
    let mut rng = Rng::new(ctx.seed, 0xC18, 0);
    // case 0: the fixed corpus (contains a witness of every known finding), then seeded batches
    let mut v = vec![Case { format: "corpus", lines: 0, pseed: 0 }];
    v.extend((0..n).map(|i| Case { format: ["gff3", "gff3", "gtf", "bed"][i % 4], lines: per, pseed: rng.next_u64() }));
    v
}

/// Shape of the i-th record of a batch: rich -> minimal -> random -> minimal -> rich -> random ...
/// so that whole-file passes see "rich line followed by minimal line" and the reverse.
fn hint_of(i: usize) -> gff::Hint {
    [gff::Hint::Rich, gff::Hint::Minimal, gff::Hint::Random, gff::Hint::Random, gff::Hint::Minimal, gff::Hint::Rich, gff::Hint::Random, gff::Hint::Random][i % 8]
}

fn run_case(c: &Case) -> CaseOut {
    let mut rng = Rng::new(c.pseed, 0x18, 0);
    let mut mon = Mon::default();
    match c.format {
        "corpus" => {
            let mut file = Vec::new();
            // records and directives interleaved in one file
            let mut dirs = gff::directive_corpus().into_iter();
            for d in gff::corpus() {
                gff::check_record(&d, &mut rng, &mut mon, &mut file);
                if let Some((kind, dir)) = dirs.next() {
                    gff::check_directive(dir, kind, &mut rng, &mut mon, &mut file);
                }
            }
            for (kind, dir) in dirs {
                gff::check_directive(dir, kind, &mut rng, &mut mon, &mut file);
            }
            gff::run_file(&mut rng, &mut mon, &file);
            let mut file = Vec::new();
            for n in gtf::corpus() {
                gtf::check_record(n, "corpus".into(), &mut rng, &mut mon, &mut file);
            }
            gtf::run_file(&mut rng, &mut mon, &file);
            let (mut f3, mut f4, mut f5, mut f6) = (Vec::new(), Vec::new(), Vec::new(), Vec::new());
            for d in bed::corpus(3) {
                bed::run_bed3(&mut rng, &mut mon, d, &mut f3);
            }
            for d in bed::corpus(4) {
                bed::run_bed4(&mut rng, &mut mon, d, &mut f4);
            }
            for d in bed::corpus(5) {
                bed::run_bed5(&mut rng, &mut mon, d, &mut f5);
            }
            for d in bed::corpus(6) {
                bed::run_bed6(&mut rng, &mut mon, d, &mut f6);
            }
            bed::run_bed3_file(&mut rng, &mut mon, &f3);
            bed::run_bed4_file(&mut rng, &mut mon, &f4);
            bed::run_bed5_file(&mut rng, &mut mon, &f5);
            bed::run_bed6_file(&mut rng, &mut mon, &f6);
        }
        "gff3" => {
            let mut file = Vec::new();
            for i in 0..c.lines {
                if rng.chance(1, 8) {
                    gff::run_directive(&mut rng, &mut mon, &mut file);
                } else {
                    gff::run_record(&mut rng, hint_of(i), &mut mon, &mut file);
                }
            }
            gff::run_file(&mut rng, &mut mon, &file);
        }
        "gtf" => {
            let mut file = Vec::new();
            for i in 0..c.lines {
                gtf::run_record(&mut rng, hint_of(i), &mut mon, &mut file);
            }
            gtf::run_file(&mut rng, &mut mon, &file);
        }
        _ => {
            // four files (one per N); within each the shapes cycle rich / minimal / random
            let (mut f3, mut f4, mut f5, mut f6) = (Vec::new(), Vec::new(), Vec::new(), Vec::new());
            let mut k = [0usize; 4];
            for _ in 0..c.lines {
                let which = rng.below(4) as usize;
                let hint = hint_of(k[which]);
                k[which] += 1;
                let d = bed::gen_desc(&mut rng, 3 + which, hint);
                match which {
                    0 => bed::run_bed3(&mut rng, &mut mon, d, &mut f3),
                    1 => bed::run_bed4(&mut rng, &mut mon, d, &mut f4),
                    2 => bed::run_bed5(&mut rng, &mut mon, d, &mut f5),
                    _ => bed::run_bed6(&mut rng, &mut mon, d, &mut f6),
                }
            }
            bed::run_bed3_file(&mut rng, &mut mon, &f3);
            bed::run_bed4_file(&mut rng, &mut mon, &f4);
            bed::run_bed5_file(&mut rng, &mut mon, &f5);
            bed::run_bed6_file(&mut rng, &mut mon, &f6);
        }
    }
    let mut o = CaseOut::new();
    o.evaluations = mon.evals.max(1);
    o.fps = mon.fps.into_iter().collect();
    for (k, n) in mon.counts {
        o.count(&k, n);
    }
    for (sig, desc) in mon.viols {
        o.violation(sig, desc);
    }
    o
}

fn main() {
    let ctx = Ctx::from_args();
    let ctx = vcore::cases::replay_request(&ctx).map(|r| r.1).unwrap_or(ctx);
    let mut rep = Report::new(
        "case = a batch of generated lines of one format (GFF3 records + directives / GTF records / BED3..6 + other \
         fields), every line written, judged as text, read back per line and once more as a whole file through small \
         buffers; evaluations = lines the writer accepted (+1 per whole-file pass); distinct = distinct (format, text \
         classes of seqid/source/type/tag/value [token, plain, reserved ;=&,%, control/TAB/LF/CR, leading >/#, \
         non-ASCII, percent literal, mixed, empty], attribute-count class, values-per-attribute class, strand, phase \
         present, score present) resp. (BED N, other-field count class, end/name present, strand); non-trivial = all",
    );
    rep.assumptions.push("expected values = the generator's description; GFF3 text judged by the harness' own strict percent-decoder and the reserved sets of the GFF3 specification (column 1: everything outside [a-zA-Z0-9.:^*$@!+_?-|]; columns 2/3: control characters and '%'; column 9: additionally ; = & ,); GTF column 9 by the harness' own quoted-string reader".into());
    rep.assumptions.push("tolerances: a one-element array and a single value are the same attribute on the wire; typed directive values and typed BED other fields come back as their text (compared after parsing with the type's FromStr / as text); f32 scores compared by bits (any NaN == NaN); BED name \".\" and empty GFF3 Array values are not generated (format-inherent ambiguity); comments are not part of the statement".into());
    rep.assumptions.push("GTF/BED plain columns are drawn from delimiter-free alphabets (no TAB, blank, line terminator, no leading '#'); BED values that violate the BED alphabet are generated on purpose and must be refused (counted as rejections)".into());
    let cases = gen_cases(&ctx);
    let f = |i: u64| -> CaseOut {
        let mut o = run_case(&cases[i as usize]);
        if i % 29 == 0 {
            o.sample = Some(case_json(&cases[i as usize]));
        }
        o
    };
    run_cases(&ctx, &mut rep, cases.len() as u64, 60.0, &f, &|i| case_json(&cases[i as usize]));
    if ctx.replay.is_none() {
        let q = ctx.quick();
        let floors: [(&str, u64); 12] = [
            ("gff3.records_accepted", if q { 8_000 } else { 500_000 }),
            ("gff3.records_read_back", if q { 6_000 } else { 400_000 }),
            ("gff3.lazy_views_compared", if q { 6_000 } else { 400_000 }),
            ("gff3.directives_read_back", if q { 1_000 } else { 50_000 }),
            ("gff3.files_read", 20),
            ("gtf.records_accepted", if q { 4_000 } else { 300_000 }),
            ("gtf.records_read_back", if q { 2_000 } else { 150_000 }),
            ("gtf.lazy_views_compared", if q { 2_000 } else { 150_000 }),
            ("bed.records_accepted", if q { 3_000 } else { 200_000 }),
            ("bed.records_read_back", if q { 3_000 } else { 200_000 }),
            ("bed.records_accepted[BED6+6]", 20),
            ("bed.records_accepted[BED3+0]", 20),
        ];
        for (k, need) in floors {
            let got = rep.counters.get(k).copied().unwrap_or(0);
            rep.floor(k, got, need);
        }
    }
    rep.finish(&ctx);
}
