//! C18 — stub (to be implemented).

fn main() {
    eprintln!("c18: not implemented");
    std::process::exit(2);
}
