//! Normal form of a GFF3/GTF feature record: what is compared between the generator's
//! description, the owned `RecordBuf` and the lazy line views.

use std::io;

use noodles_gff::{
    self as gff,
    feature::{
        RecordBuf,
        record::{Phase, Strand},
        record_buf::attributes::field::Value as ValueBuf,
    },
};

#[derive(Clone, PartialEq, Eq)]
pub struct Norm {
    pub seqid: Vec<u8>,
    pub source: Vec<u8>,
    pub ty: Vec<u8>,
    pub start: usize,
    pub end: usize,
    /// f32 bits, every NaN mapped to one value
    pub score: Option<u32>,
    pub strand: u8,
    pub phase: Option<u8>,
    /// ordered; a single value and a one-element array are the same thing on the wire
    pub attrs: Vec<(Vec<u8>, Vec<Vec<u8>>)>,
    /// per attribute: is the value an array (`Value::Array`) rather than a string. Part of `==`
    /// (lazy vs owned, whole-file vs per-line); against a *description* it is judged by `shape_diff`.
    pub arrays: Vec<bool>,
}

impl std::fmt::Debug for Norm {
    fn fmt(&self, f: &mut std::fmt::Formatter<'_>) -> std::fmt::Result {
        let l = |b: &Vec<u8>| String::from_utf8_lossy(b).into_owned();
        let attrs: Vec<(String, &str, Vec<String>)> = self.attrs.iter().enumerate().map(|(i, (k, vs))| (l(k), if self.arrays.get(i).copied().unwrap_or(false) { "Array" } else { "String" }, vs.iter().map(l).collect())).collect();
        write!(
            f,
            "{{seqid: {:?}, source: {:?}, type: {:?}, start: {}, end: {}, score: {:?}, strand: {}, phase: {:?}, attributes: {:?}}}",
            l(&self.seqid),
            l(&self.source),
            l(&self.ty),
            self.start,
            self.end,
            self.score.map(f32::from_bits),
            ["none", "+", "-", "?"][self.strand as usize],
            self.phase,
            attrs
        )
    }
}

pub fn score_bits(x: f32) -> u32 {
    if x.is_nan() { 0x7fc0_0000 } else { x.to_bits() }
}

pub fn strand_code(s: Strand) -> u8 {
    match s {
        Strand::None => 0,
        Strand::Forward => 1,
        Strand::Reverse => 2,
        Strand::Unknown => 3,
    }
}

pub fn strand_of(c: u8) -> Strand {
    [Strand::None, Strand::Forward, Strand::Reverse, Strand::Unknown][c as usize]
}

pub fn phase_code(p: Phase) -> u8 {
    match p {
        Phase::Zero => 0,
        Phase::One => 1,
        Phase::Two => 2,
    }
}

pub fn phase_of(c: u8) -> Phase {
    [Phase::Zero, Phase::One, Phase::Two][c as usize]
}

impl Norm {
    /// Shapes of a description: several values are an array; one value is a string unless the
    /// generator decided to store it as a one-element array.
    pub fn with_shapes(mut self, single_as_array: bool) -> Norm {
        self.arrays = self.attrs.iter().map(|a| a.1.len() != 1 || single_as_array).collect();
        self
    }

    /// `self` is the description, `got` what was read back (tags and values already equal). The only
    /// tolerance is the format-inherent one: a described one-element array may come back as a
    /// string, because the text cannot tell them apart. A described string must come back as a
    /// string, a described array of k > 1 elements as an array.
    pub fn shape_diff(&self, got: &Norm) -> Option<(&'static str, usize)> {
        for (i, (d, g)) in self.arrays.iter().zip(&got.arrays).enumerate() {
            if !*d && *g {
                return Some(("string-read-back-as-array", i));
            }
            if *d && self.attrs[i].1.len() > 1 && !*g {
                return Some(("array-read-back-as-string", i));
            }
        }
        None
    }

    /// Name of the first field that differs.
    pub fn diff(&self, o: &Norm) -> Option<&'static str> {
        if self.seqid != o.seqid {
            Some("seqid")
        } else if self.source != o.source {
            Some("source")
        } else if self.ty != o.ty {
            Some("type")
        } else if self.start != o.start {
            Some("start")
        } else if self.end != o.end {
            Some("end")
        } else if self.score != o.score {
            Some("score")
        } else if self.strand != o.strand {
            Some("strand")
        } else if self.phase != o.phase {
            Some("phase")
        } else if self.attrs != o.attrs {
            Some("attributes")
        } else {
            None
        }
    }

    pub fn of_record_buf(r: &RecordBuf) -> Norm {
        Norm {
            seqid: r.reference_sequence_name().to_vec(),
            source: r.source().to_vec(),
            ty: r.ty().to_vec(),
            start: usize::from(r.start()),
            end: usize::from(r.end()),
            score: r.score().map(score_bits),
            strand: strand_code(r.strand()),
            phase: r.phase().map(phase_code),
            arrays: r.attributes().as_ref().iter().map(|(_, v)| matches!(v, ValueBuf::Array(_))).collect(),
            attrs: r
                .attributes()
                .as_ref()
                .iter()
                .map(|(k, v)| {
                    let vs = match v {
                        ValueBuf::String(s) => vec![s.to_vec()],
                        ValueBuf::Array(a) => a.iter().map(|s| s.to_vec()).collect(),
                    };
                    (k.to_vec(), vs)
                })
                .collect(),
        }
    }

    /// Through the `gff::feature::Record` trait (implemented by the lazy GFF3 and GTF line views and
    /// by `RecordBuf`).
    pub fn of_feature_record<R: gff::feature::Record + ?Sized>(r: &R) -> io::Result<Norm> {
        let mut attrs = Vec::new();
        let mut arrays = Vec::new();
        let a = r.attributes();
        for item in a.iter() {
            let (k, v) = item?;
            let vs = v.iter().map(|x| x.map(|s| s.to_vec())).collect::<io::Result<Vec<_>>>()?;
            arrays.push(matches!(v, gff::feature::record::attributes::field::Value::Array(_)));
            attrs.push((k.to_vec(), vs));
        }
        Ok(Norm {
            seqid: r.reference_sequence_name().to_vec(),
            source: r.source().to_vec(),
            ty: r.ty().to_vec(),
            start: usize::from(r.feature_start()?),
            end: usize::from(r.feature_end()?),
            score: r.score().transpose()?.map(score_bits),
            strand: strand_code(r.strand()?),
            phase: r.phase().transpose()?.map(phase_code),
            attrs,
            arrays,
        })
    }
}
