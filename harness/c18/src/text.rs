//! String generators and the harness' own (spec-derived) codecs for the C18 monitor.

use vcore::Rng;

/// Classes of free text. The class is part of the fingerprint of a line.
#[derive(Clone, Copy, Debug, PartialEq, Eq, PartialOrd, Ord)]
pub enum TextClass {
    /// `[A-Za-z0-9_.:-]+`
    Token,
    /// printable ASCII incl. blanks, no reserved character of any of the formats
    Plain,
    /// contains GFF3 reserved characters `; = & , %`
    Reserved,
    /// contains TAB / LF / CR / other control characters
    Control,
    /// leading `>` or `#`
    Leading,
    /// non-ASCII UTF-8
    Unicode,
    /// looks like an escape already: `%41`, `%zz`, trailing `%`
    PercentLiteral,
    /// everything mixed
    Mixed,
    Empty,
}

const TOKEN: &[u8] = b"abcdefgXYZ0123456789_.:-";
const PLAIN: &[u8] = b"abc XYZ 019 _.:-+*$@!?|^/()[]{}<>'~`";
const RESERVED: &[&str] = &[";", "=", "&", ",", "%", ";;", "a=b", "x,y", "&amp;", "100%", "k=v;w=z"];
const CONTROL: &[&str] = &["\t", "\n", "\r", "\r\n", "\u{1}", "\u{7f}", "\u{1b}[0m", "a\tb", "line1\nline2"];
const UNICODE: &[&str] = &["é", "測試", "ß", "🧬", "naïve", "µ", "\u{a0}", "Ω=ω"];
const PCT: &[&str] = &["%41", "%zz", "%", "%2", "%25", "%0A", "50%", "%%", "%3B"];

fn pick_upto(rng: &mut Rng, alpha: &[u8], below: usize) -> String {
    let n = rng.usize_below(below);
    pick_bytes(rng, alpha, n)
}

fn pick_bytes(rng: &mut Rng, alpha: &[u8], n: usize) -> String {
    (0..n).map(|_| alpha[rng.usize_below(alpha.len())] as char).collect()
}

pub fn gen_text(rng: &mut Rng, class: TextClass) -> String {
    match class {
        TextClass::Empty => String::new(),
        TextClass::Token => {
            let n = 1 + rng.usize_below(10);
            pick_bytes(rng, TOKEN, n)
        }
        TextClass::Plain => {
            let n = 1 + rng.usize_below(14);
            pick_bytes(rng, PLAIN, n)
        }
        TextClass::Reserved => {
            let mut s = pick_upto(rng, TOKEN, 4);
            for _ in 0..1 + rng.usize_below(3) {
                s.push_str(RESERVED[rng.usize_below(RESERVED.len())]);
                s.push_str(&pick_upto(rng, TOKEN, 3));
            }
            s
        }
        TextClass::Control => {
            let mut s = pick_upto(rng, TOKEN, 4);
            for _ in 0..1 + rng.usize_below(2) {
                s.push_str(CONTROL[rng.usize_below(CONTROL.len())]);
                s.push_str(&pick_upto(rng, TOKEN, 3));
            }
            s
        }
        TextClass::Leading => {
            let mut s = String::from(if rng.bool() { ">" } else { "#" });
            if rng.chance(1, 4) {
                s.push('#');
            }
            s.push_str(&pick_upto(rng, PLAIN, 6));
            s
        }
        TextClass::Unicode => {
            let mut s = pick_upto(rng, TOKEN, 3);
            for _ in 0..1 + rng.usize_below(3) {
                s.push_str(UNICODE[rng.usize_below(UNICODE.len())]);
                s.push_str(&pick_upto(rng, PLAIN, 3));
            }
            s
        }
        TextClass::PercentLiteral => {
            let mut s = pick_upto(rng, TOKEN, 3);
            for _ in 0..1 + rng.usize_below(2) {
                s.push_str(PCT[rng.usize_below(PCT.len())]);
                s.push_str(&pick_upto(rng, TOKEN, 3));
            }
            s
        }
        TextClass::Mixed => {
            let mut s = String::new();
            for _ in 0..1 + rng.usize_below(5) {
                let c = *rng.pick(&[TextClass::Token, TextClass::Plain, TextClass::Reserved, TextClass::Control, TextClass::Leading, TextClass::Unicode, TextClass::PercentLiteral]);
                s.push_str(&gen_text(rng, c));
            }
            s
        }
    }
}

/// Draws a class: mostly harmless, regularly hostile.
pub fn gen_class(rng: &mut Rng, hostile_num: u64, hostile_den: u64) -> TextClass {
    if rng.chance(hostile_num, hostile_den) {
        *rng.pick(&[TextClass::Reserved, TextClass::Control, TextClass::Leading, TextClass::Unicode, TextClass::PercentLiteral, TextClass::Mixed, TextClass::Plain])
    } else {
        TextClass::Token
    }
}

pub fn has_line_structure_bytes(s: &str) -> bool {
    s.bytes().any(|b| b == b'\t' || b == b'\n' || b == b'\r')
}

fn hex(b: u8) -> Option<u8> {
    match b {
        b'0'..=b'9' => Some(b - b'0'),
        b'a'..=b'f' => Some(b - b'a' + 10),
        b'A'..=b'F' => Some(b - b'A' + 10),
        _ => None,
    }
}

/// Strict RFC 3986 percent-decoding (the GFF3 specification's escaping): every `%` must be
/// followed by two hexadecimal digits.
pub fn pct_decode_strict(s: &[u8]) -> Result<Vec<u8>, String> {
    let mut out = Vec::with_capacity(s.len());
    let mut i = 0;
    while i < s.len() {
        if s[i] == b'%' {
            let h = s.get(i + 1).copied().and_then(hex);
            let l = s.get(i + 2).copied().and_then(hex);
            match (h, l) {
                (Some(h), Some(l)) => {
                    out.push(h * 16 + l);
                    i += 3;
                }
                _ => return Err(format!("'%' at byte {i} is not followed by two hexadecimal digits")),
            }
        } else {
            out.push(s[i]);
            i += 1;
        }
    }
    Ok(out)
}

/// First raw byte that the GFF3 specification does not allow unescaped in the given column kind.
pub fn gff3_first_raw_forbidden(col: &[u8], kind: Gff3Col) -> Option<u8> {
    for &b in col {
        let bad = match kind {
            // "IDs may contain any characters, but must escape any characters not in the set
            // [a-zA-Z0-9.:^*$@!+_?-|]" ('%' introduces an escape)
            Gff3Col::SeqId => !(b.is_ascii_alphanumeric() || b".:^*$@!+_?-|%".contains(&b)),
            // tab, newline, carriage return, control characters ('%' is checked by the decoder)
            Gff3Col::SourceOrType => b < 0x20 || b == 0x7f,
            // additionally ; = & , inside one tag / one value
            Gff3Col::AttrPiece => b < 0x20 || b == 0x7f || b";=&,".contains(&b),
        };
        if bad {
            return Some(b);
        }
    }
    None
}

#[derive(Clone, Copy, Debug, PartialEq, Eq)]
pub enum Gff3Col {
    SeqId,
    SourceOrType,
    AttrPiece,
}

pub fn show(b: &[u8]) -> String {
    let s = String::from_utf8_lossy(&b[..b.len().min(160)]);
    format!("{s:?}")
}
