//! C05 — stub (to be implemented).

fn main() {
    eprintln!("c05: not implemented");
    std::process::exit(2);
}
