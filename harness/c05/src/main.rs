//! C05 — BAM record encode/decode are inverse; lazy field views agree with eager decode.
//!
//! Monitor: generated records (gensam, `Level::Full`: the whole quantifier) are handed to the real
//! `bam::io::Writer` (`Writer::new` = BGZF and `Writer::from` = raw stream; header with and
//! without reference dictionary). For every record the writer accepts:
//!  (i)   the eager read-back (`read_record_buf`) must equal the *expected normal form computed
//!        from the description* (bases upper-cased / non-alphabet -> N; MAPQ 255 = missing; all
//!        else identical, aux fields with their declared type, floats bit for bit);
//!  (ii)  the raw record bytes, split and decoded by gensam's independent BAM decoder, must carry
//!        the described values, `bin` = spec reg2bin of the span for coordinates < 2^29, consistent
//!        l_read_name / n_cigar_op / l_seq, and for > 65535 operations the `kSmN` placeholder plus a
//!        `CG:B,I` field;
//!  (iii) every lazy accessor of `bam::Record` (inherent and through `sam::alignment::Record`) and
//!        `RecordBuf::try_from_alignment_record` must agree with the eager decode of the same bytes;
//!  (iii-b) the same file is read the way users read it — ONE reader, ONE reused buffer:
//!        `read_record_buf(&h, &mut same)` loop, `record_bufs(&h)`, `read_record(&mut same)` loop,
//!        `records()`, `try_clone_from_alignment_record` into one target — over batches with
//!        deliberately generated "rich record followed by stripped record" neighbours; each record
//!        read this way must equal the expected value (history-dependent decoder state);
//!  (iv)  writing the lazy record again (`write_record`) must read back equal too (a `bam::Record`
//!        is an alignment record the writer accepts).
//! Out-of-range records (gensam `Invalid`) must be rejected when the BAM field cannot hold the value;
//! whatever is accepted goes through (i)–(iv), so truncation or wrapping is caught there as well.

use std::io::Write;

use gensam::{
    AuxDesc, Cmp, HeaderDesc, HeaderOpts, INVALID_KINDS, Invalid, Level, RecDesc, RecOpts, bam_normal_form, boundary_records, decode_bam_record,
    adjacency_corpus, describe_alignment_record, describe_header, describe_lazy_value, describe_record, diff_records, expected_bin, gen_header,
    gen_invalid_record, gen_record, gen_record_batch, rec_class, split_bam_stream, to_header, to_record_buf,
};
use noodles_bam as bam;
use noodles_sam::{self as sam, alignment::RecordBuf, alignment::io::Write as _};
use serde_json::json;
use vcore::{CaseOut, Ctx, Report, Rng, guard, rng::fnv1a, run_cases};

#[derive(Clone, Debug)]
struct Case {
    /// "boundary" | "adjacency" | "random" | "huge"
    kind: &'static str,
    with_dict: bool,
    bgzf: bool,
    n: usize,
    cseed: u64,
}

fn case_json(c: &Case) -> serde_json::Value {
    json!({"kind": c.kind, "with_dict": c.with_dict, "bgzf": c.bgzf, "n": c.n, "cseed": c.cseed})
}

fn gen_cases(ctx: &Ctx) -> Vec<Case> {
    let mut v = Vec::new();
    // deterministic boundary corpus under all four (dictionary, container) combinations
    for (i, (with_dict, bgzf)) in [(true, true), (true, false), (false, true), (false, false)].into_iter().enumerate() {
        v.push(Case { kind: "boundary", with_dict, bgzf, n: 0, cseed: i as u64 });
    }
    // deterministic rich -> missing -> rich / long -> short -> long neighbours (reused reader buffers)
    for (i, (with_dict, bgzf)) in [(true, true), (true, false), (false, true), (false, false)].into_iter().enumerate() {
        v.push(Case { kind: "adjacency", with_dict, bgzf, n: 0, cseed: 100 + i as u64 });
    }
    let per_case = ctx.budget("per_case", 250, 250) as usize;
    let records = ctx.budget("records", 30_000, 1_500_000) as usize;
    let huge_cases = ctx.budget("huge_cases", 6, 60) as usize;
    let n = records.div_ceil(per_case);
    for i in 0..n {
        v.push(Case { kind: "random", with_dict: i % 8 < 6, bgzf: i % 2 == 0, n: per_case, cseed: ctx.seed.wrapping_mul(1_000_003).wrapping_add(i as u64) });
    }
    for i in 0..huge_cases {
        v.push(Case { kind: "huge", with_dict: i % 3 != 2, bgzf: i % 2 == 0, n: 6, cseed: ctx.seed.wrapping_mul(7_000_003).wrapping_add(i as u64) });
    }
    v
}

/// (header, records with the aspect that was made invalid, if any)
fn build_case(c: &Case) -> (HeaderDesc, Vec<(RecDesc, Option<Invalid>)>) {
    let mut rng = Rng::new(c.cseed, 0xC05, 1);
    let ho = HeaderOpts { min_refs: 1, max_refs: 9, big_refs: true, rich: c.cseed % 5 == 0, hd: if c.cseed % 7 == 0 { Some(false) } else { Some(true) } };
    let full = gen_header(&mut rng, &ho);
    let hdr = if c.with_dict { full } else { full.without_sq() };
    let mut recs = Vec::new();
    match c.kind {
        "boundary" => {
            for r in boundary_records(&hdr, Level::Full, true) {
                recs.push((r, None));
            }
            // every rejection class, a few times each
            let o = RecOpts::full();
            for (i, k) in INVALID_KINDS.iter().cycle().take(INVALID_KINDS.len() * 6).enumerate() {
                let _ = i;
                recs.push((gen_invalid_record(&mut rng, &hdr, &o, *k), Some(*k)));
            }
        }
        "adjacency" => {
            for r in adjacency_corpus(&hdr) {
                recs.push((r, None));
            }
        }
        "huge" => {
            let mut o = RecOpts::full();
            o.huge_cigar_permille = 1000;
            for _ in 0..c.n {
                recs.push((gen_record(&mut rng, &hdr, &o), None));
            }
        }
        _ => {
            let mut o = RecOpts::full();
            if c.cseed % 3 == 0 {
                o.max_seq_len = 2000;
                o.max_array_len = 3000;
            }
            // valid records with deliberate "rich followed by stripped" neighbours, some replaced
            // by out-of-range records
            for (i, r) in gen_record_batch(&mut rng, &hdr, &o, c.n).into_iter().enumerate() {
                if rng.chance(1, 14) {
                    let k = INVALID_KINDS[(i + rng.usize_below(INVALID_KINDS.len())) % INVALID_KINDS.len()];
                    recs.push((gen_invalid_record(&mut rng, &hdr, &o, k), Some(k)));
                } else {
                    recs.push((r, None));
                }
            }
        }
    }
    (hdr, recs)
}

fn short_rec(r: &RecDesc) -> String {
    gensam::summary(r)
}

/// Normalises an error text into a reason class (digits -> #).
fn reason(e: &std::io::Error) -> String {
    // messages may quote data ("invalid name: <name>"): keep what follows a colon only if it is a
    // range statement
    fn level(m: String) -> String {
        match m.split_once(": ") {
            Some((head, rest)) if !rest.starts_with("expected") => head.to_string(),
            _ => m,
        }
    }
    let mut s = level(e.to_string());
    let mut src: Option<&(dyn std::error::Error + 'static)> = e.get_ref().and_then(|r| r.source());
    while let Some(x) = src {
        s.push_str(" / ");
        s.push_str(&level(x.to_string()));
        src = x.source();
    }
    guard::normalise_message(&s).chars().take(100).collect()
}

struct Written {
    /// the sink content
    file: Vec<u8>,
    /// per input record: Ok or the rejection reason
    results: Vec<Result<(), String>>,
}

fn write_records<W: Write>(
    w: &mut bam::io::Writer<W>,
    header: &sam::Header,
    recs: &[RecordBuf],
    out: &mut CaseOut,
) -> Option<Vec<Result<(), String>>> {
    match guard::catch(|| w.write_header(header)) {
        Err(p) => {
            out.violation(format!("panic:{}", p.sig), format!("write_header panicked: {}", p.message));
            return None;
        }
        Ok(Err(e)) => {
            out.count(&format!("header_rejected[{}]", reason(&e)), 1);
            return None;
        }
        Ok(Ok(())) => {}
    }
    let mut results = Vec::with_capacity(recs.len());
    for rb in recs {
        match guard::catch(|| w.write_alignment_record(header, rb)) {
            Err(p) => {
                out.violation(format!("panic:{}", p.sig), format!("write_alignment_record panicked: {} at {}:{}", p.message, p.file, p.line));
                return None;
            }
            Ok(Err(e)) => results.push(Err(reason(&e))),
            Ok(Ok(())) => results.push(Ok(())),
        }
    }
    Some(results)
}

fn write_file(c: &Case, header: &sam::Header, recs: &[RecordBuf], out: &mut CaseOut) -> Option<Written> {
    if c.bgzf {
        let mut w = bam::io::Writer::new(Vec::new());
        let results = write_records(&mut w, header, recs, out)?;
        match guard::catch(|| w.into_inner().finish()) {
            Ok(Ok(file)) => Some(Written { file, results }),
            Ok(Err(e)) => {
                out.violation("writer-finish-failed", format!("bgzf finish failed on a Vec sink: {e}"));
                None
            }
            Err(p) => {
                out.violation(format!("panic:{}", p.sig), format!("finish panicked: {}", p.message));
                None
            }
        }
    } else {
        let mut w = bam::io::Writer::from(Vec::new());
        let results = write_records(&mut w, header, recs, out)?;
        Some(Written { file: w.into_inner(), results })
    }
}

/// Reads every record eagerly; `Err` carries the index at which reading failed.
fn read_eager(c_bgzf: bool, file: &[u8]) -> Result<(sam::Header, Vec<RecordBuf>), (usize, String)> {
    fn go<R: std::io::Read>(mut r: bam::io::Reader<R>) -> Result<(sam::Header, Vec<RecordBuf>), (usize, String)> {
        let h = r.read_header().map_err(|e| (0usize, format!("read_header: {e}")))?;
        let mut v = Vec::new();
        loop {
            let mut rb = RecordBuf::default();
            match r.read_record_buf(&h, &mut rb) {
                Ok(0) => break,
                Ok(_) => v.push(rb),
                Err(e) => return Err((v.len(), format!("read_record_buf: {} ", reason(&e)))),
            }
        }
        Ok((h, v))
    }
    if c_bgzf { go(bam::io::Reader::new(file)) } else { go(bam::io::Reader::from(file)) }
}

fn read_lazy(c_bgzf: bool, file: &[u8]) -> Result<Vec<bam::Record>, (usize, String)> {
    fn go<R: std::io::Read>(mut r: bam::io::Reader<R>) -> Result<Vec<bam::Record>, (usize, String)> {
        r.read_header().map_err(|e| (0usize, format!("read_header: {e}")))?;
        let mut v = Vec::new();
        loop {
            let mut rec = bam::Record::default();
            match r.read_record(&mut rec) {
                Ok(0) => break,
                Ok(_) => v.push(rec),
                Err(e) => return Err((v.len(), format!("read_record: {}", reason(&e)))),
            }
        }
        Ok(v)
    }
    if c_bgzf { go(bam::io::Reader::new(file)) } else { go(bam::io::Reader::from(file)) }
}

/// The way users read: ONE reader, ONE reused buffer. Returns, per path, what each record looked
/// like right after it was read (`Err` = reading failed at that index).
struct Reused {
    /// `read_record_buf(&header, &mut same_buf)` in a loop
    loop_buf: Result<Vec<RecDesc>, (usize, String)>,
    /// `reader.record_bufs(&header)`
    iter_buf: Result<Vec<RecDesc>, (usize, String)>,
    /// `read_record(&mut same_record)` in a loop, described through the inherent accessors
    loop_lazy: Result<Vec<Result<RecDesc, String>>, (usize, String)>,
    /// `reader.records()`
    iter_lazy: Result<Vec<Result<RecDesc, String>>, (usize, String)>,
    /// `same_buf.try_clone_from_alignment_record(&header, &lazy)` over the lazy records in order
    clone_into: Result<Vec<RecDesc>, (usize, String)>,
}

fn read_reused(c_bgzf: bool, file: &[u8]) -> Reused {
    fn go<R: std::io::Read>(mk: &dyn Fn() -> bam::io::Reader<R>) -> Reused {
        let loop_buf = (|| {
            let mut r = mk();
            let h = r.read_header().map_err(|e| (0usize, format!("read_header: {e}")))?;
            let mut same = RecordBuf::default();
            let mut v = Vec::new();
            loop {
                match r.read_record_buf(&h, &mut same) {
                    Ok(0) => break,
                    Ok(_) => v.push(describe_record(&same)),
                    Err(e) => return Err((v.len(), reason(&e))),
                }
            }
            Ok(v)
        })();
        let iter_buf = (|| {
            let mut r = mk();
            let h = r.read_header().map_err(|e| (0usize, format!("read_header: {e}")))?;
            let mut v = Vec::new();
            for x in r.record_bufs(&h) {
                match x {
                    Ok(rb) => v.push(describe_record(&rb)),
                    Err(e) => return Err((v.len(), reason(&e))),
                }
            }
            Ok(v)
        })();
        let mut clone_into: Result<Vec<RecDesc>, (usize, String)> = Ok(Vec::new());
        let loop_lazy = (|| {
            let mut r = mk();
            let h = r.read_header().map_err(|e| (0usize, format!("read_header: {e}")))?;
            let mut same = bam::Record::default();
            let mut target = RecordBuf::default();
            let mut v = Vec::new();
            loop {
                match r.read_record(&mut same) {
                    Ok(0) => break,
                    Ok(_) => {
                        v.push(describe_inherent(&same));
                        if let Ok(list) = clone_into.as_mut() {
                            match target.try_clone_from_alignment_record(&h, &same) {
                                Ok(()) => list.push(describe_record(&target)),
                                Err(e) => clone_into = Err((list.len(), reason(&e))),
                            }
                        }
                    }
                    Err(e) => return Err((v.len(), reason(&e))),
                }
            }
            Ok(v)
        })();
        let iter_lazy = (|| {
            let mut r = mk();
            r.read_header().map_err(|e| (0usize, format!("read_header: {e}")))?;
            let mut v = Vec::new();
            for x in r.records() {
                match x {
                    Ok(rec) => v.push(describe_inherent(&rec)),
                    Err(e) => return Err((v.len(), reason(&e))),
                }
            }
            Ok(v)
        })();
        Reused { loop_buf, iter_buf, loop_lazy, iter_lazy, clone_into }
    }
    if c_bgzf { go(&|| bam::io::Reader::new(file)) } else { go(&|| bam::io::Reader::from(file)) }
}

/// Describes a lazy record through its *inherent* accessors only.
fn describe_inherent(r: &bam::Record) -> Result<RecDesc, String> {
    let mut d = RecDesc { name: r.name().map(|n| n.to_vec()), flags: u16::from(r.flags()), tlen: r.template_length(), ..Default::default() };
    d.ref_id = r.reference_sequence_id().transpose().map_err(|e| format!("reference_sequence_id: {e}"))?;
    d.pos = r.alignment_start().transpose().map_err(|e| format!("alignment_start: {e}"))?.map(|p| usize::from(p) as u64);
    d.mapq = r.mapping_quality().map(u8::from);
    let c = r.cigar();
    for op in c.iter() {
        let op = op.map_err(|e| format!("cigar: {e}"))?;
        d.cigar.push((gensam::conv::char_of(op.kind()), op.len() as u32));
    }
    if c.len() != d.cigar.len() || c.is_empty() != d.cigar.is_empty() || c.as_bytes().len() != 4 * d.cigar.len() {
        return Err(format!("cigar: len() = {}, as_bytes = {} bytes, iterator yields {}", c.len(), c.as_bytes().len(), d.cigar.len()));
    }
    d.mate_ref_id = r.mate_reference_sequence_id().transpose().map_err(|e| format!("mate_reference_sequence_id: {e}"))?;
    d.mate_pos = r.mate_alignment_start().transpose().map_err(|e| format!("mate_alignment_start: {e}"))?.map(|p| usize::from(p) as u64);
    let s = r.sequence();
    d.seq = s.iter().collect();
    if s.len() != d.seq.len() || s.is_empty() != d.seq.is_empty() || s.as_bytes().len() != d.seq.len().div_ceil(2) {
        return Err(format!("sequence: len() = {}, as_bytes = {} bytes, iterator yields {}", s.len(), s.as_bytes().len(), d.seq.len()));
    }
    for (i, b) in d.seq.iter().enumerate() {
        if s.get(i) != Some(*b) {
            return Err(format!("sequence: get({i}) = {:?}, iterator yields {:?} (length {})", s.get(i).map(|c| c as char), *b as char, d.seq.len()));
        }
    }
    if s.get(d.seq.len()).is_some() {
        return Err("sequence: get(len) is not None".into());
    }
    // reverse iteration and split_at_checked are part of the lazy view too
    let rev: Vec<u8> = s.iter().rev().collect();
    if rev.iter().rev().copied().collect::<Vec<u8>>() != d.seq {
        return Err(format!("sequence: reverse iteration disagrees with forward iteration (length {})", d.seq.len()));
    }
    let q = r.quality_scores();
    let qv: Vec<u8> = q.iter().collect();
    if q.len() != qv.len() || q.is_empty() != qv.is_empty() || q.as_bytes() != &qv[..] {
        return Err(format!("quality_scores: len() = {}, iterator yields {}", q.len(), qv.len()));
    }
    d.qual = if qv.is_empty() { None } else { Some(qv) };
    let data = r.data();
    for f in data.iter() {
        let (t, v) = f.map_err(|e| format!("data: {e}"))?;
        d.aux.push((*t.as_ref(), describe_lazy_value(&v).map_err(|e| format!("data: {e}"))?));
    }
    if data.is_empty() != d.aux.is_empty() {
        return Err(format!("data: is_empty() = {} with {} fields", data.is_empty(), d.aux.len()));
    }
    for (t, v) in &d.aux {
        match data.get(t) {
            Some(Ok(g)) => {
                let g = describe_lazy_value(&g).map_err(|e| format!("data.get: {e}"))?;
                if format!("{g:?}") != format!("{v:?}") {
                    return Err(format!("data: get({}) disagrees with the iterator", String::from_utf8_lossy(t)));
                }
            }
            _ => return Err(format!("data: get({}) fails for a tag the iterator yields", String::from_utf8_lossy(t))),
        }
    }
    if data.get(b"!!").is_some() {
        return Err("data: get of an absent tag is not None".into());
    }
    Ok(d)
}

/// `lazy` has exactly the fields of `eager` plus a CG:B,I field (the retained long-CIGAR carrier).
fn only_extra_cg(eager: &RecDesc, lazy: &RecDesc) -> bool {
    if lazy.aux.len() != eager.aux.len() + 1 {
        return false;
    }
    let rest: Vec<&(gensam::Tag2, AuxDesc)> = lazy.aux.iter().filter(|e| !(e.0 == *b"CG" && matches!(e.1, AuxDesc::BU32(_)))).collect();
    rest.len() == eager.aux.len() && rest.iter().zip(&eager.aux).all(|(a, b)| a.0 == b.0 && format!("{:?}", a.1) == format!("{:?}", b.1))
}

fn run_case(c: &Case, idx: u64) -> CaseOut {
    let mut out = CaseOut::new();
    let (hdr, descs) = build_case(c);
    out.evaluations = descs.len() as u64;
    let header = to_header(&hdr);
    let recs: Vec<RecordBuf> = descs.iter().map(|(d, _)| to_record_buf(d, &hdr)).collect();
    let cfg = format!("{}{}", if c.with_dict { "dict" } else { "nodict" }, if c.bgzf { "+bgzf" } else { "+raw" });

    let Some(w) = write_file(c, &header, &recs, &mut out) else {
        out.inconclusive.push("header rejected or writer panicked: no file to judge".into());
        return out;
    };

    // accounting of accepted / rejected records
    let mut accepted: Vec<usize> = Vec::new();
    for (i, res) in w.results.iter().enumerate() {
        let (d, inv) = &descs[i];
        match (res, inv) {
            (Ok(()), None) => {
                accepted.push(i);
                out.count("accepted_valid", 1);
            }
            (Ok(()), Some(k)) => {
                accepted.push(i);
                out.count(&format!("accepted_invalid[{k:?}]"), 1);
                if k.cannot_fit_bam() {
                    out.violation_with(
                        format!("accepted-out-of-range:{k:?}"),
                        format!("the writer accepted a record whose {k:?} value has no BAM encoding ({cfg}): {}", short_rec(d)),
                        json!({"record": i}),
                    );
                }
            }
            (Err(why), None) => out.count(&format!("rejected_valid[{why}]"), 1),
            (Err(why), Some(k)) => {
                out.count(&format!("rejected[{k:?}]"), 1);
                out.count(&format!("reject_reason[{k:?}: {why}]"), 1);
            }
        }
    }
    out.count(&format!("records[{cfg}]"), descs.len() as u64);
    for &i in &accepted {
        out.fps.push(fnv1a(format!("{}|{cfg}", rec_class(&descs[i].0)).as_bytes()));
        for a in gensam::aux_classes(&descs[i].0) {
            out.fps.push(fnv1a(format!("{a}|{cfg}").as_bytes()));
            out.count(&format!("{a}"), 1);
        }
    }

    // the uncompressed stream, independently
    let stream: Vec<u8> = if c.bgzf {
        match vcore::bgzf::walk(&w.file) {
            Ok(wk) => wk.concat(),
            Err(e) => {
                out.violation("raw:bgzf-walk-failed", format!("independent BGZF walker rejects the BAM file: {e}"));
                return out;
            }
        }
    } else {
        w.file.clone()
    };
    let split = match split_bam_stream(&stream) {
        Ok(s) => s,
        Err(e) => {
            out.violation("raw:split-failed", format!("independent BAM splitter rejects the stream ({cfg}): {e}"));
            return out;
        }
    };
    if split.records.len() != accepted.len() {
        out.violation(
            "raw:record-count",
            format!("{} records accepted by the writer, {} blocks in the stream ({cfg})", accepted.len(), split.records.len()),
        );
        return out;
    }
    // binary reference list == dictionary
    let want_refs: Vec<(Vec<u8>, i32)> = hdr.sq.iter().map(|s| (s.name.clone(), s.len as i32)).collect();
    if split.refs != want_refs {
        out.violation("raw:reference-list", format!("binary reference list {:?} != dictionary {:?}", split.refs.len(), want_refs.len()));
    }

    // (i) eager read-back
    let eager = match guard::catch(|| read_eager(c.bgzf, &w.file)) {
        Err(p) => {
            out.violation(format!("panic:{}", p.sig), format!("eager reader panicked: {} at {}:{}", p.message, p.file, p.line));
            return out;
        }
        Ok(Err((at, e))) => {
            let d = accepted.get(at).map(|&i| short_rec(&descs[i].0)).unwrap_or_default();
            out.violation_with(
                format!("eager-read-fails:{}", e.split(':').next().unwrap_or("?")),
                format!("reading back accepted record #{at} fails ({cfg}): {e}; record: {d}"),
                json!({"record": accepted.get(at)}),
            );
            return out;
        }
        Ok(Ok(x)) => x,
    };
    let (rheader, erecs) = eager;
    if describe_header(&rheader) != hdr {
        out.violation("header-readback", format!("header read back differs from the one written ({cfg})"));
    }
    if erecs.len() != accepted.len() {
        out.violation("eager-record-count", format!("{} accepted, {} read back ({cfg})", accepted.len(), erecs.len()));
        return out;
    }
    let edescs: Vec<RecDesc> = erecs.iter().map(describe_record).collect();
    for (k, &i) in accepted.iter().enumerate() {
        let exp = bam_normal_form(&descs[i].0);
        if let Some(d) = diff_records(&exp, &edescs[k], &Cmp::EXACT) {
            out.violation_with(
                format!("eager-readback:{}", d.field),
                format!("accepted record reads back different in {} ({cfg}): {}; written: {}", d.field, d.detail, short_rec(&descs[i].0)),
                json!({"record": i}),
            );
        }
        out.count("compared_eager", 1);
        if descs[i].0.cigar.len() > 65_535 {
            out.count("cg_overflow_records_read_back", 1);
        }
    }

    // (ii) raw bytes
    for (k, &i) in accepted.iter().enumerate() {
        let d = &descs[i].0;
        let body = &stream[split.records[k].clone()];
        let (parts, raw, spare) = match decode_bam_record(body) {
            Ok(x) => x,
            Err(e) => {
                out.violation_with("raw:decode-failed", format!("independent decoder rejects the record ({cfg}): {e}; written: {}", short_rec(d)), json!({"record": i}));
                continue;
            }
        };
        out.count("compared_raw", 1);
        let core = &parts.core;
        let name_len = d.name.as_ref().map(|n| n.len()).unwrap_or(1) + 1;
        if core.l_read_name as usize != name_len {
            out.violation_with("raw:l_read_name", format!("l_read_name = {} for a name of {} bytes + NUL", core.l_read_name, name_len - 1), json!({"record": i}));
        }
        if core.l_seq as usize != d.seq.len() {
            out.violation_with("raw:l_seq", format!("l_seq = {} for {} bases", core.l_seq, d.seq.len()), json!({"record": i}));
        }
        if let Some(b) = expected_bin(d) {
            // SAMv1 4.2.1 treats *unmapped* reads as length 1 even if they carry a CIGAR; the
            // statement speaks of "the record's span". Where the two readings differ, no verdict.
            let ambiguous = d.flags & 0x4 != 0 && d.ref_len() > 1;
            if ambiguous {
                out.count("bin_not_judged_unmapped_flag_with_span", 1);
            } else {
                out.count("bin_checked", 1);
                if core.bin as u32 != b {
                    out.violation_with(
                        "raw:bin",
                        format!("stored bin {} != reg2bin {} of span {:?} ({cfg}); record: {}", core.bin, b, gensam::span(d), short_rec(d)),
                        json!({"record": i}),
                    );
                }
            }
        } else {
            out.count("bin_not_judged_coordinate_ge_2^29", 1);
        }
        if let Some(n) = spare {
            if n != 0 {
                out.count("odd_length_spare_nibble_nonzero", 1);
            }
        }
        let mut exp = bam_normal_form(d);
        exp.mapq = Some(d.mapq.unwrap_or(255));
        let mut raw = raw;
        if d.cigar.len() > 65_535 {
            out.count("cg_overflow_records_raw", 1);
            // placeholder kSmN with k = l_seq, m = reference length; real CIGAR in CG:B,I
            let want = vec![(b'S', d.seq.len() as u32), (b'N', d.ref_len() as u32)];
            if core.n_cigar_op != 2 || raw.cigar != want {
                out.violation_with(
                    "raw:cg-convention:placeholder",
                    format!("{} operations: n_cigar_op = {}, CIGAR field {:?}, expected {:?}", d.cigar.len(), core.n_cigar_op, &raw.cigar[..raw.cigar.len().min(4)], want),
                    json!({"record": i}),
                );
            }
            let cg: Vec<&(gensam::Tag2, AuxDesc)> = raw.aux.iter().filter(|e| e.0 == *b"CG").collect();
            let want_cg: Vec<u32> = d.cigar.iter().map(|(k, n)| (n << 4) | gensam::CIGAR_OPS.iter().position(|c| c == k).unwrap() as u32).collect();
            match cg.as_slice() {
                [(_, AuxDesc::BU32(v))] if *v == want_cg => {}
                [(_, other)] => out.violation_with(
                    "raw:cg-convention:tag-value",
                    format!("CG field is {} with {:?} elements, expected B,I with {} packed operations", other.type_code(), other.array_len(), want_cg.len()),
                    json!({"record": i}),
                ),
                x => out.violation_with("raw:cg-convention:tag-count", format!("{} CG fields in the record", x.len()), json!({"record": i})),
            }
            // compare the rest with the real CIGAR put back and CG removed
            raw.cigar = d.cigar.clone();
            raw.aux.retain(|e| e.0 != *b"CG");
        } else if core.n_cigar_op as usize != d.cigar.len() {
            out.violation_with("raw:n_cigar_op", format!("n_cigar_op = {} for {} operations", core.n_cigar_op, d.cigar.len()), json!({"record": i}));
        }
        if let Some(df) = diff_records(&exp, &raw, &Cmp::EXACT) {
            out.violation_with(
                format!("raw:decode-ne-expected:{}", df.field),
                format!("the stored bytes decode (independently) to a different {} ({cfg}): {}; written: {}", df.field, df.detail, short_rec(d)),
                json!({"record": i}),
            );
        }
    }

    // (iii) lazy accessors against the eager decode of the same bytes
    let lazy = match guard::catch(|| read_lazy(c.bgzf, &w.file)) {
        Err(p) => {
            out.violation(format!("panic:{}", p.sig), format!("lazy reader panicked: {}", p.message));
            return out;
        }
        Ok(Err((at, e))) => {
            out.violation(format!("lazy-read-fails:{}", e.split(':').next().unwrap_or("?")), format!("read_record fails at record #{at} ({cfg}): {e}"));
            return out;
        }
        Ok(Ok(v)) => v,
    };
    if lazy.len() != erecs.len() {
        out.violation("lazy-record-count", format!("{} records eagerly, {} lazily", erecs.len(), lazy.len()));
        return out;
    }
    for (k, rec) in lazy.iter().enumerate() {
        let i = accepted[k];
        let e = &edescs[k];
        let long = descs[i].0.cigar.len() > 65_535;
        let views: [(&str, Result<Result<RecDesc, String>, guard::PanicInfo>); 3] = [
            ("inherent", guard::catch(|| describe_inherent(rec))),
            ("trait", guard::catch(|| describe_alignment_record(rec, &rheader))),
            (
                "try_from_alignment_record",
                guard::catch(|| RecordBuf::try_from_alignment_record(&rheader, rec).map(|rb| describe_record(&rb)).map_err(|e| format!("convert: {e}"))),
            ),
        ];
        for (path, v) in views {
            out.count(&format!("compared_lazy[{path}]"), 1);
            match v {
                Err(p) => out.violation_with(format!("panic:{}", p.sig), format!("lazy accessor ({path}) panicked: {} at {}:{}", p.message, p.file, p.line), json!({"record": i})),
                Ok(Err(msg)) => out.violation_with(
                    format!("lazy-accessor-fails:{path}:{}", msg.split(':').next().unwrap_or("?")),
                    format!("lazy view ({path}) of an accepted record fails: {msg}; record: {}", short_rec(&descs[i].0)),
                    json!({"record": i}),
                ),
                Ok(Ok(l)) => {
                    if let Some(df) = diff_records(e, &l, &Cmp::EXACT) {
                        if long && df.field == "aux:count" && only_extra_cg(e, &l) {
                            out.violation_with(
                                "lazy-ne-eager:data-retains-CG-of-long-cigar",
                                format!(
                                    "lazy data() of a record with {} CIGAR operations still yields the CG:B,I carrier field ({} fields) while cigar() already returns the real CIGAR; the eager decode removes it ({} fields)",
                                    descs[i].0.cigar.len(),
                                    l.aux.len(),
                                    e.aux.len()
                                ),
                                json!({"record": i}),
                            );
                        } else {
                            out.violation_with(
                                format!("lazy-ne-eager:{path}:{}", df.field),
                                format!("lazy view ({path}) differs from the eager decode of the same bytes in {}: {}; record: {}", df.field, df.detail, short_rec(&descs[i].0)),
                                json!({"record": i}),
                            );
                        }
                    }
                }
            }
        }
    }

    // (iii-b) the same file read the way users read it: one reader, one reused buffer
    match guard::catch(|| read_reused(c.bgzf, &w.file)) {
        Err(p) => out.violation(format!("panic:{}", p.sig), format!("reading through a reused buffer panicked: {} at {}:{}", p.message, p.file, p.line)),
        Ok(ru) => {
            let prev = |k: usize| if k == 0 { "<first record>".to_string() } else { short_rec(&descs[accepted[k - 1]].0) };
            for (path, res) in [("read_record_buf", &ru.loop_buf), ("record_bufs", &ru.iter_buf), ("try_clone_from_alignment_record", &ru.clone_into)] {
                match res {
                    Err((at, e)) => out.violation(format!("reused-buffer:{path}:fails"), format!("{path} through one reused buffer fails at record #{at} ({cfg}): {e}")),
                    Ok(v) if v.len() != accepted.len() => out.violation(format!("reused-buffer:{path}:record-count"), format!("{} accepted, {} read ({cfg})", accepted.len(), v.len())),
                    Ok(v) => {
                        for (k, got) in v.iter().enumerate() {
                            out.count(&format!("compared_reused[{path}]"), 1);
                            let i = accepted[k];
                            let exp = bam_normal_form(&descs[i].0);
                            if let Some(df) = diff_records(&exp, got, &Cmp::EXACT) {
                                if path == "try_clone_from_alignment_record" && descs[i].0.cigar.len() > 65_535 && df.field == "aux:count" && only_extra_cg(&exp, got) {
                                    out.violation_with("lazy-ne-eager:data-retains-CG-of-long-cigar", "try_clone_from_alignment_record of a lazy long-CIGAR record keeps the CG carrier field", json!({"record": i}));
                                    continue;
                                }
                                out.violation_with(
                                    format!("reused-buffer:{path}:{}", df.field),
                                    format!(
                                        "a record read with {path} into a REUSED buffer differs from what was written in {} ({cfg}): {}; written: {}; the record read just before: {}",
                                        df.field,
                                        df.detail,
                                        short_rec(&descs[i].0),
                                        prev(k)
                                    ),
                                    json!({"record": i}),
                                );
                            }
                        }
                    }
                }
            }
            for (path, res) in [("read_record", &ru.loop_lazy), ("records", &ru.iter_lazy)] {
                match res {
                    Err((at, e)) => out.violation(format!("reused-record:{path}:fails"), format!("{path} through one reused record fails at record #{at} ({cfg}): {e}")),
                    Ok(v) if v.len() != accepted.len() => out.violation(format!("reused-record:{path}:record-count"), format!("{} accepted, {} read ({cfg})", accepted.len(), v.len())),
                    Ok(v) => {
                        for (k, got) in v.iter().enumerate() {
                            out.count(&format!("compared_reused[{path}]"), 1);
                            let i = accepted[k];
                            match got {
                                Err(msg) => out.violation_with(
                                    format!("reused-record:{path}:accessor-fails:{}", msg.split(':').next().unwrap_or("?")),
                                    format!("lazy view of a record read with {path} into a reused record fails: {msg}; record: {}", short_rec(&descs[i].0)),
                                    json!({"record": i}),
                                ),
                                Ok(l) => {
                                    if let Some(df) = diff_records(&edescs[k], l, &Cmp::EXACT) {
                                        if descs[i].0.cigar.len() > 65_535 && df.field == "aux:count" && only_extra_cg(&edescs[k], l) {
                                            out.violation_with("lazy-ne-eager:data-retains-CG-of-long-cigar", "lazy data() of a long-CIGAR record keeps the CG carrier field (reused record)", json!({"record": i}));
                                            continue;
                                        }
                                        out.violation_with(
                                            format!("reused-record:{path}:{}", df.field),
                                            format!(
                                                "a record read with {path} into a REUSED bam::Record differs from the eager decode in {}: {}; record: {}; the record read just before: {}",
                                                df.field,
                                                df.detail,
                                                short_rec(&descs[i].0),
                                                prev(k)
                                            ),
                                            json!({"record": i}),
                                        );
                                    }
                                }
                            }
                        }
                    }
                }
            }
        }
    }

    // (iv) the lazy record written again
    let mut w2 = bam::io::Writer::from(Vec::new());
    let mut accepted2: Vec<usize> = Vec::new();
    let ok = guard::catch(|| -> Result<(), String> {
        w2.write_header(&rheader).map_err(|e| format!("write_header: {e}"))?;
        for (k, rec) in lazy.iter().enumerate() {
            match w2.write_record(&rheader, rec) {
                Ok(()) => accepted2.push(k),
                Err(e) => out.count(&format!("rewrite_rejected[{}]", reason(&e)), 1),
            }
        }
        Ok(())
    });
    match ok {
        Err(p) => {
            out.violation(format!("panic:{}", p.sig), format!("write_record of a lazy record panicked: {} at {}:{}", p.message, p.file, p.line));
            return out;
        }
        Ok(Err(e)) => {
            out.violation("rewrite-header-failed", e);
            return out;
        }
        Ok(Ok(())) => {}
    }
    let file2 = w2.into_inner();
    // judge record by record so that one unreadable record does not hide the others
    match split_bam_stream(&file2) {
        Err(e) => out.violation("rewrite:split-failed", format!("independent splitter rejects the re-written stream: {e}")),
        Ok(s2) if s2.records.len() != accepted2.len() => out.violation("rewrite:record-count", format!("{} re-written, {} blocks", accepted2.len(), s2.records.len())),
        Ok(s2) => {
            for (j, &k) in accepted2.iter().enumerate() {
                let i = accepted[k];
                let mut one = Vec::new();
                one.extend_from_slice(&(s2.records[j].len() as u32).to_le_bytes());
                one.extend_from_slice(&file2[s2.records[j].clone()]);
                let got = guard::catch(|| {
                    // a reader over exactly this record block
                    let mut r = bam::io::Reader::from(&one[..]);
                    let mut rb = RecordBuf::default();
                    r.read_record_buf(&rheader, &mut rb).map(|_| rb)
                });
                out.count("compared_rewritten", 1);
                let long = descs[i].0.cigar.len() > 65_535;
                match got {
                    Err(p) => out.violation_with(format!("panic:{}", p.sig), format!("reading a re-written record panicked: {}", p.message), json!({"record": i})),
                    Ok(Err(e)) => {
                        let why = reason(&e);
                        let sig = if long && why.contains("duplicate tag") {
                            "rewrite-unreadable:long-cigar:duplicate-CG".to_string()
                        } else {
                            format!("rewrite-unreadable:{}", why.chars().take(40).collect::<String>())
                        };
                        out.violation_with(
                            sig,
                            format!(
                                "a lazy bam::Record ({} CIGAR operations) written with write_record cannot be read back: {why}; record: {}",
                                descs[i].0.cigar.len(),
                                short_rec(&descs[i].0)
                            ),
                            json!({"record": i}),
                        );
                    }
                    Ok(Ok(rb)) => {
                        let exp = bam_normal_form(&descs[i].0);
                        if let Some(df) = diff_records(&exp, &describe_record(&rb), &Cmp::EXACT) {
                            out.violation_with(
                                format!("rewrite-readback:{}", df.field),
                                format!("a lazy record written again reads back different in {}: {}; record: {}", df.field, df.detail, short_rec(&descs[i].0)),
                                json!({"record": i}),
                            );
                        }
                    }
                }
            }
        }
    }
    if idx % 37 == 0 {
        out.sample = Some(json!({"case": case_json(c), "records": descs.len(), "accepted": accepted.len(),
            "first": accepted.first().map(|&i| short_rec(&descs[i].0))}));
    }
    out
}

fn main() {
    let ctx = Ctx::from_args();
    let ctx = vcore::cases::replay_request(&ctx).map(|r| r.1).unwrap_or(ctx);
    let mut rep = Report::new(
        "case = batch of records of gensam's full SAM data model (names 1..254/missing over [!-?A-~], 12 flag bits, positions up to 2^31 incl. \
         2^29 and 2^31 edges, MAPQ 0..255, CIGARs of 0/1/few/100..2000/65535/65536/65537/70000 operations over all 9 kinds, odd/even/zero SEQ over \
         the 16-letter alphabet plus lower case and foreign bytes, QUAL present/missing, every aux type A c C s S i I f Z H B:cCsSiIf at range \
         edges incl. empty arrays, -0, subnormals, inf, NaN) plus ~7% out-of-range records of 13 classes, written under (dictionary | no \
         dictionary) x (Writer::new BGZF | Writer::from raw); deterministic boundary corpus and adjacency corpus (rich -> missing -> rich, long -> short -> long neighbours for every optional part) \
         under all 4 combinations + VERIF_SEED-seeded random part in which every ~6th record is followed by a stripped variant; evaluation = one record handed to the writer; distinct = distinct (gensam::rec_class of an accepted record [name length class, reference presence, position class, MAPQ class, CIGAR count class, number of kinds, SEQ parity + letter class, QUAL presence, mate class, aux count class], configuration) plus distinct (aux type [+ empty/long array], configuration); \
         non-trivial = accepted records (each is read back eagerly, decoded independently from the raw bytes, viewed lazily through 3 paths, read again through ONE reader with ONE reused buffer \
         [read_record_buf loop, record_bufs(), read_record loop, records(), try_clone_from_alignment_record into one target] and re-written)",
    );
    rep.assumptions.push("oracles: the generator's description + gensam's BAM decoder/reg2bin written from SAMv1 4.2/5.3; BGZF layer undone by vcore's independent walker".into());
    rep.assumptions.push("aux equality in BAM = same tag order, same declared type (c/C/s/S/i/I kept apart), same value; floats bit-identical (NaN = any NaN)".into());
    rep.assumptions.push("tag CG is never generated (reserved for the long-CIGAR convention); stored bin is not judged for records with flag 0x4 and a CIGAR span > 1 (SAMv1 4.2.1 says length 1 for unmapped reads, the statement says the record's span) nor for coordinates >= 2^29".into());
    rep.assumptions.push("l_seq, block_size and B-array counts are 32-bit: values beyond them are not reachable with feasible memory and are not exercised".into());
    let cases = gen_cases(&ctx);
    let f = |i: u64| -> CaseOut { run_case(&cases[i as usize], i) };
    run_cases(&ctx, &mut rep, cases.len() as u64, 120.0, &f, &|i| case_json(&cases[i as usize]));
    if ctx.replay.is_none() {
        let counters = rep.counters.clone();
        let g = |k: &str| counters.get(k).copied().unwrap_or(0);
        let quick = ctx.quick();
        rep.floor("accepted_valid", g("accepted_valid"), if quick { 20_000 } else { 500_000 }.min(ctx.budget("records", 30_000, 1_500_000) * 6 / 10));
        rep.floor("compared_eager", g("compared_eager"), g("accepted_valid"));
        rep.floor("compared_raw", g("compared_raw"), g("accepted_valid"));
        rep.floor("compared_lazy[inherent]", g("compared_lazy[inherent]"), g("accepted_valid"));
        rep.floor("compared_lazy[trait]", g("compared_lazy[trait]"), g("accepted_valid"));
        for p in ["read_record_buf", "record_bufs", "read_record", "records", "try_clone_from_alignment_record"] {
            rep.floor(&format!("compared_reused[{p}]"), g(&format!("compared_reused[{p}]")), g("accepted_valid"));
        }
        rep.floor("bin_checked", g("bin_checked"), 1000);
        rep.floor("cg_overflow_records_raw", g("cg_overflow_records_raw"), 8);
        let rejected: u64 = counters.iter().filter(|(k, _)| k.starts_with("rejected[")).map(|(_, v)| *v).sum();
        rep.floor("rejected_out_of_range_records", rejected, 300);
        for c in ["dict+bgzf", "dict+raw", "nodict+bgzf", "nodict+raw"] {
            rep.floor(&format!("records[{c}]"), g(&format!("records[{c}]")), 300);
        }
    }
    rep.finish(&ctx);
}
