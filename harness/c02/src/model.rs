//! Flat-array reference model of a BGZF file, built from the *independent* walker only.
//!
//! `U` = concatenation of the inflated members; a cursor is a flat offset `p` in `0..=|U|`.
//! `flat(raw virtual position)` maps every position that names a byte boundary of the file to
//! its flat offset:
//!   * `(offset of block i, u)` with `u < len_i`                → `start_i + u`
//!   * `(offset of block i, len_i)` (incl. empty blocks, u = 0)  → `start_i + len_i`
//!     (for `len_i > 0` this is the non-canonical name of the boundary that a reader reports as
//!     `(offset of block i+1, 0)`; the monitor never seeks there itself, `gzi::Index::query` may)
//!   * `(file length, 0)`                                        → `|U|`
//! Everything else is not a byte boundary (`None`).

use vcore::bgzf as ob;

#[derive(Clone, Debug)]
pub struct Blk {
    pub off: u64,
    pub size: u64,
    pub len: usize,
    pub start: u64,
}

#[derive(Clone, Copy, Debug, PartialEq, Eq, PartialOrd, Ord)]
pub enum Class {
    MidBlock,
    BlockLastByte,
    BlockStart,
    EmptyMid,
    /// first block of the trailing run of empty blocks (what a reader reports after the last byte)
    EndAtEofMarker,
    /// a later block of the trailing run of empty blocks (several EOF markers)
    EndInnerEofMarker,
    /// `(file length, 0)` of a file that does not end with an empty block
    FileEndNoEof,
    /// `(file length, 0)` of a file that ends with at least one empty block
    AfterEofMarker,
    BlockEndNonCanonical,
    NotABoundary,
}

impl Class {
    pub fn name(self) -> &'static str {
        match self {
            Class::MidBlock => "mid-block",
            Class::BlockLastByte => "block-last-byte",
            Class::BlockStart => "block-start",
            Class::EmptyMid => "empty-block-mid-file",
            Class::EndAtEofMarker => "end-at-eof-marker",
            Class::EndInnerEofMarker => "end-at-later-eof-marker",
            Class::FileEndNoEof => "file-end-without-eof-marker",
            Class::AfterEofMarker => "after-eof-marker",
            Class::BlockEndNonCanonical => "block-end-noncanonical",
            Class::NotABoundary => "not-a-boundary",
        }
    }

    /// the compressed offset of the target is the file length: no frame can be read there
    pub fn is_file_end(self) -> bool {
        matches!(self, Class::FileEndNoEof | Class::AfterEofMarker)
    }
}

pub fn raw(c: u64, u: u64) -> u64 {
    debug_assert!(u <= 0xffff);
    (c << 16) | u
}

pub fn show(rawv: u64) -> String {
    format!("({},{})", rawv >> 16, rawv & 0xffff)
}

pub struct Model {
    pub blocks: Vec<Blk>,
    pub u: Vec<u8>,
    pub file_len: u64,
    /// index of the first block of the trailing run of empty blocks (== blocks.len() if none)
    pub trail: usize,
}

impl Model {
    pub fn from_file(file: &[u8]) -> Result<Model, String> {
        let w = ob::walk(file)?;
        let mut blocks = Vec::with_capacity(w.members.len());
        for (m, s) in w.members.iter().zip(&w.starts) {
            blocks.push(Blk { off: m.offset, size: m.size, len: m.data.len(), start: *s });
        }
        // members are contiguous and cover the file (the walker guarantees it; cheap re-check)
        let mut at = 0u64;
        for b in &blocks {
            if b.off != at {
                return Err(format!("harness: member at {} does not start where the previous one ended ({at})", b.off));
            }
            at += b.size;
        }
        if at != file.len() as u64 {
            return Err(format!("harness: members cover {at} of {} bytes", file.len()));
        }
        let mut trail = blocks.len();
        while trail > 0 && blocks[trail - 1].len == 0 {
            trail -= 1;
        }
        Ok(Model { u: w.concat(), blocks, file_len: file.len() as u64, trail })
    }

    pub fn total(&self) -> u64 {
        self.u.len() as u64
    }

    pub fn has_trailing_empty(&self) -> bool {
        self.trail < self.blocks.len()
    }

    pub fn block_at_offset(&self, c: u64) -> Option<usize> {
        self.blocks.binary_search_by_key(&c, |b| b.off).ok()
    }

    /// index of the (non-empty) block that contains flat byte `q` (`q < |U|`)
    pub fn block_of_byte(&self, q: u64) -> usize {
        self.blocks.partition_point(|b| b.start + b.len as u64 <= q)
    }

    pub fn flat(&self, rawv: u64) -> Option<u64> {
        let (c, u) = (rawv >> 16, (rawv & 0xffff) as usize);
        if let Some(i) = self.block_at_offset(c) {
            let b = &self.blocks[i];
            if u <= b.len { Some(b.start + u as u64) } else { None }
        } else if c == self.file_len && u == 0 {
            Some(self.total())
        } else {
            None
        }
    }

    pub fn classify(&self, rawv: u64) -> Class {
        let (c, u) = (rawv >> 16, (rawv & 0xffff) as usize);
        if let Some(i) = self.block_at_offset(c) {
            let b = &self.blocks[i];
            if b.len == 0 {
                if u != 0 {
                    Class::NotABoundary
                } else if i < self.trail {
                    Class::EmptyMid
                } else if i == self.trail {
                    Class::EndAtEofMarker
                } else {
                    Class::EndInnerEofMarker
                }
            } else if u == 0 {
                Class::BlockStart
            } else if u + 1 == b.len {
                Class::BlockLastByte
            } else if u < b.len {
                Class::MidBlock
            } else if u == b.len {
                Class::BlockEndNonCanonical
            } else {
                Class::NotABoundary
            }
        } else if c == self.file_len && u == 0 {
            if self.has_trailing_empty() { Class::AfterEofMarker } else { Class::FileEndNoEof }
        } else {
            Class::NotABoundary
        }
    }

    /// The canonical virtual position of flat offset `q`: inside the block that holds byte `q`, or,
    /// for `q == |U|`, the start of the trailing empty run / the file end.
    pub fn canonical(&self, q: u64) -> u64 {
        if q < self.total() {
            let b = &self.blocks[self.block_of_byte(q)];
            raw(b.off, q - b.start)
        } else if self.has_trailing_empty() {
            raw(self.blocks[self.trail].off, 0)
        } else {
            raw(self.file_len, 0)
        }
    }

    /// gzi entries for every block but the first (the implicit `(0, 0)`), as the walker sees them.
    pub fn gzi_full(&self) -> Vec<(u64, u64)> {
        self.blocks.iter().skip(1).map(|b| (b.off, b.start)).collect()
    }

    /// htslib-writer style: no entries for the trailing run of empty blocks (EOF markers).
    pub fn gzi_no_trailing(&self) -> Vec<(u64, u64)> {
        self.blocks.iter().take(self.trail).skip(1).map(|b| (b.off, b.start)).collect()
    }

    /// Layout signature for the distinct count: length classes of the blocks (run-length capped).
    pub fn shape(&self) -> String {
        let mut s = String::new();
        let mut n = 0usize;
        for b in &self.blocks {
            let c = match b.len {
                0 => "0",
                1 => "1",
                2 => "2",
                3..=255 => "s",
                256..=65279 => "m",
                65280 => "W",
                65281..=65534 => "l",
                65535 => "F-",
                _ => "F",
            };
            n += 1;
            if n <= 24 {
                // member sizes at the BSIZE width boundaries are part of the shape
                match b.size {
                    256 | 257 | 32768 | 32769 | 65535 | 65536 => s.push_str(&format!("[bsize={:#06x}]", b.size - 1)),
                    _ => {}
                }
                s.push_str(c);
                s.push(',');
            }
        }
        if n > 24 {
            s.push_str(&format!("+{}", (n - 24).min(99)));
        }
        s
    }

    pub fn describe(&self) -> String {
        let lens: Vec<String> = self
            .blocks
            .iter()
            .take(40)
            .map(|b| if b.size >= 65535 { format!("{}@{}(member of {} bytes)", b.len, b.off, b.size) } else { format!("{}@{}", b.len, b.off) })
            .collect();
        format!(
            "file of {} bytes, {} blocks [len@offset: {}{}], |U|={}, trailing empty blocks: {}",
            self.file_len,
            self.blocks.len(),
            lens.join(" "),
            if self.blocks.len() > 40 { " …" } else { "" },
            self.total(),
            self.blocks.len() - self.trail
        )
    }
}
