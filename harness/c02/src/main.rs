//! C02 — BGZF virtual positions name bytes: tell/seek/gzi are mutually consistent.
//!
//! Monitor: the real `bgzf::io::Reader` (and `IndexedReader`, `MultithreadedReader`) over a
//! `std::io::Cursor` is driven in lock step with a flat-array reference model that is built from
//! the *independent* member walker only (`model.rs`). After every operation the returned data,
//! the return count / error, and the flat offset denoted by `virtual_position()` are compared
//! (`drive.rs`). Case kinds:
//!   * `hist`    — random (and a few scripted) histories of 10–200 operations over one layout;
//!   * `exhaust` — seek to every byte boundary (dense in small blocks, boundary offsets + samples
//!                 in large ones) from fresh, forward-reused, shuffled-reused and MT readers;
//!   * `scan`    — seek to every in-block offset of one 65 535/65 536-byte block;
//!   * `writer`  — write/flush histories on the real writer with `virtual_position()` sampled
//!                 before every write; each sample must map to the number of bytes written so far
//!                 and a reader that seeks there must deliver the stream from exactly that byte.

mod drive;
mod layout;
mod model;

use std::{collections::BTreeSet, io::Write, sync::Arc};

use noodles_bgzf::{self as bgzf, gzi};
use serde_json::{Value, json};
use vcore::{CaseOut, Ctx, Report, Rng, Tier, guard, payload, rng::fnv1a, run_cases};

use drive::{Driver, Flavor};
use layout::{Built, LayoutSpec};
use model::{Class, Model, raw, show};

#[derive(Clone, Debug)]
enum SOp {
    ReadAll(usize),
    Read(usize),
    ReadExact(usize),
    Fill(u64),
    /// seek to the first target of that class (skipped if the layout has none)
    SeekClass(Class),
    /// seek to the canonical position of a flat offset
    SeekFlat(u64),
    Gzi(u64),
}

#[derive(Clone, Debug)]
enum Case {
    Hist { name: &'static str, layout: LayoutSpec, flavor: Flavor, gzi: &'static str, nops: usize, hseed: u64, script: Option<Vec<SOp>> },
    Exhaust { layouts: Vec<LayoutSpec>, hseed: u64, dense_limit: usize },
    Scan { layout: LayoutSpec, block: usize, lo: usize, hi: usize },
    Writer { total: usize, class: String, split: String, flush_every: usize, level: u8, end: &'static str, raw_write: bool, pseed: u64 },
}

fn case_json(c: &Case) -> Value {
    match c {
        Case::Hist { name, layout, flavor, gzi, nops, hseed, script } => json!({
            "kind": "hist", "name": name, "layout": layout.to_json(), "reader": flavor.name(), "gzi": gzi, "nops": nops,
            "hseed": hseed, "script": script.as_ref().map(|s| format!("{s:?}"))}),
        Case::Exhaust { layouts, hseed, dense_limit } => json!({
            "kind": "exhaust", "layouts": layouts.iter().map(|l| l.to_json()).collect::<Vec<_>>(), "hseed": hseed, "dense_limit": dense_limit}),
        Case::Scan { layout, block, lo, hi } => json!({"kind": "scan", "layout": layout.to_json(), "block": block, "offsets": [lo, hi]}),
        Case::Writer { total, class, split, flush_every, level, end, raw_write, pseed } => json!({
            "kind": "writer", "total": total, "class": class, "split": split, "flush_every": flush_every, "level": level,
            "end": end, "raw_write": raw_write, "pseed": pseed}),
    }
}

// ---------------------------------------------------------------------------------------------
// gzi index variants

fn make_index(m: &Model, variant: &str) -> Result<gzi::Index, String> {
    let entries = match variant {
        "no-trailing" => m.gzi_no_trailing(),
        _ => m.gzi_full(),
    };
    let idx = gzi::Index::from(entries);
    if variant == "full-roundtrip" {
        // written with gzi::io::Writer and read back with gzi::io::Reader
        let r = guard::catch(|| -> std::io::Result<gzi::Index> {
            let mut w = gzi::io::Writer::new(Vec::new());
            w.write_index(&idx)?;
            let bytes = w.into_inner();
            gzi::io::Reader::new(&bytes[..]).read_index()
        });
        return match r {
            Ok(Ok(i)) => Ok(i),
            Ok(Err(e)) => Err(format!("gzi index write/read failed: {e}")),
            Err(p) => Err(format!("gzi index write/read panicked: {}", p.message)),
        };
    }
    Ok(idx)
}

fn absorb(out: &mut CaseOut, d: Driver<'_>) {
    for (k, n) in &d.stats {
        out.count(k, *n);
    }
    out.count("operations", d.nops);
    for (sig, desc) in d.viols {
        if !out.violations.iter().any(|v| v.0 == sig) {
            out.violation(sig, desc);
        }
    }
}

// ---------------------------------------------------------------------------------------------
// random histories

struct Targets {
    nonempty: Vec<usize>,
    empty_mid: Vec<usize>,
}

impl Targets {
    fn new(m: &Model) -> Self {
        let mut t = Targets { nonempty: vec![], empty_mid: vec![] };
        for (i, b) in m.blocks.iter().enumerate() {
            if b.len > 0 {
                t.nonempty.push(i);
            } else if i < m.trail {
                t.empty_mid.push(i);
            }
        }
        t
    }

    fn first_of(&self, m: &Model, class: Class) -> Option<u64> {
        match class {
            Class::MidBlock => self.nonempty.iter().map(|&i| &m.blocks[i]).find(|b| b.len >= 3).map(|b| raw(b.off, (b.len / 2) as u64)),
            Class::BlockLastByte => self.nonempty.iter().map(|&i| &m.blocks[i]).find(|b| b.len >= 2).map(|b| raw(b.off, (b.len - 1) as u64)),
            Class::BlockStart => self.nonempty.first().map(|&i| raw(m.blocks[i].off, 0)),
            Class::EmptyMid => self.empty_mid.first().map(|&i| raw(m.blocks[i].off, 0)),
            Class::EndAtEofMarker => m.has_trailing_empty().then(|| raw(m.blocks[m.trail].off, 0)),
            Class::EndInnerEofMarker => (m.trail + 1 < m.blocks.len()).then(|| raw(m.blocks[m.trail + 1].off, 0)),
            Class::FileEndNoEof => (!m.has_trailing_empty()).then(|| raw(m.file_len, 0)),
            Class::AfterEofMarker => m.has_trailing_empty().then(|| raw(m.file_len, 0)),
            _ => None,
        }
    }

    /// A random seek target: `(raw, origin label)`.
    fn pick(&self, m: &Model, d: &Driver<'_>, rng: &mut Rng) -> (u64, &'static str) {
        let any = |rng: &mut Rng| m.canonical(rng.below(m.total() + 1));
        let w = rng.below(100);
        if w < 28 {
            // mid-block: uniform over bytes, or uniform over blocks first
            if self.nonempty.is_empty() {
                return (any(rng), "model");
            }
            if rng.bool() {
                (m.canonical(rng.below(m.total())), "model")
            } else {
                let b = &m.blocks[*rng.pick(&self.nonempty)];
                (raw(b.off, rng.below(b.len as u64)), "model")
            }
        } else if w < 42 {
            match self.nonempty.is_empty() {
                true => (any(rng), "model"),
                false => (raw(m.blocks[*rng.pick(&self.nonempty)].off, 0), "model"),
            }
        } else if w < 52 {
            match self.nonempty.is_empty() {
                true => (any(rng), "model"),
                false => {
                    let b = &m.blocks[*rng.pick(&self.nonempty)];
                    (raw(b.off, (b.len - 1) as u64), "model")
                }
            }
        } else if w < 62 {
            match self.empty_mid.is_empty() {
                true => (any(rng), "model"),
                false => (raw(m.blocks[*rng.pick(&self.empty_mid)].off, 0), "model"),
            }
        } else if w < 70 {
            (m.canonical(m.total()), "model")
        } else if w < 74 {
            if m.trail + 1 < m.blocks.len() {
                (raw(m.blocks[rng.urange(m.trail + 1, m.blocks.len() - 1)].off, 0), "model")
            } else {
                (m.canonical(m.total()), "model")
            }
        } else if w < 80 {
            (raw(m.file_len, 0), "model")
        } else if !d.reported.is_empty() {
            (*rng.pick(&d.reported), "reported-by-the-reader-earlier")
        } else {
            (any(rng), "model")
        }
    }
}

fn pick_size(d: &Driver<'_>, rng: &mut Rng) -> usize {
    let rb = d.rem_in_block() as usize;
    match rng.below(17) {
        0 => 0,
        1 => 1,
        2 | 3 => rng.urange(2, 16),
        4 | 5 => rng.urange(17, 300),
        6 => rng.urange(301, 5000),
        7 => 65535,
        8 | 9 => 65536,
        10 => 65537,
        11 => 131072,
        12 | 13 => rb,
        14 => rb + 1,
        15 => rb.saturating_sub(1),
        _ => rng.urange(5000, 70000),
    }
}

fn pick_gzi_offset(m: &Model, rng: &mut Rng) -> u64 {
    let total = m.total();
    let start = |rng: &mut Rng| if m.blocks.is_empty() { 0 } else { m.blocks[rng.usize_below(m.blocks.len())].start };
    match rng.below(10) {
        0 => 0,
        1 => total,
        2 => total.saturating_sub(1),
        3 | 4 => start(rng),
        5 => start(rng).saturating_sub(1),
        6 => (start(rng) + 1).min(total),
        _ => rng.below(total + 1),
    }
}

fn run_script(d: &mut Driver<'_>, t: &Targets, script: &[SOp]) {
    for op in script {
        if d.dead {
            break;
        }
        match op {
            SOp::ReadAll(n) => d.read_all(*n),
            SOp::Read(n) => {
                d.read(*n);
            }
            SOp::ReadExact(n) => d.read_exact(*n),
            SOp::Fill(sel) => d.fill_consume(*sel),
            SOp::SeekClass(c) => {
                if let Some(r) = t.first_of(d.m, *c) {
                    if d.flavor != Flavor::Indexed {
                        d.seek_v(r, false, "model");
                    }
                }
            }
            SOp::SeekFlat(q) => {
                if d.flavor != Flavor::Indexed {
                    let r = d.m.canonical((*q).min(d.m.total()));
                    d.seek_v(r, false, "model");
                }
            }
            SOp::Gzi(off) => d.seek_u((*off).min(d.m.total()), false),
        }
    }
}

fn run_random(d: &mut Driver<'_>, t: &Targets, nops: usize, rng: &mut Rng) {
    let m = d.m;
    for _ in 0..nops {
        if d.dead {
            break;
        }
        let at_end = d.p == m.total();
        let w = rng.below(100);
        // 0 read, 1 read_exact, 2 fill/consume, 3 seek, 4 gzi seek
        let mut kind = if at_end {
            match w {
                0..=54 => 3,
                55..=74 => 4,
                75..=86 => 0,
                87..=92 => 1,
                _ => 2,
            }
        } else {
            match w {
                0..=31 => 0,
                32..=44 => 1,
                45..=61 => 2,
                62..=86 => 3,
                _ => 4,
            }
        };
        if kind == 3 && d.flavor == Flavor::Indexed {
            kind = 4;
        }
        match kind {
            0 => {
                let n = pick_size(d, rng);
                d.read(n);
            }
            1 => {
                let rem = (m.total() - d.p) as usize;
                let n = if rng.chance(1, 9) { rem + 1 + rng.skewed(70000) as usize } else { pick_size(d, rng).min(200_000) };
                d.read_exact(n);
            }
            2 => d.fill_consume(rng.next_u64()),
            3 => {
                let (r, origin) = t.pick(m, d, rng);
                d.seek_v(r, rng.bool(), origin);
            }
            _ => {
                let off = pick_gzi_offset(m, rng);
                d.seek_u(off, rng.bool());
            }
        }
    }
}

fn shape_fp(kind: &str, shape: &str, extra: &str) -> u64 {
    fnv1a(format!("{kind}|{shape}|{extra}").as_bytes())
}

fn build_or_inconclusive(spec: &LayoutSpec, out: &mut CaseOut) -> Option<Built> {
    match layout::build(spec) {
        Ok(b) => Some(b),
        Err(e) => {
            out.inconclusive.push(format!("layout could not be established ({e}): {}", spec.to_json()));
            None
        }
    }
}

/// evidence: how many histories / layouts contained a member of a given total size (BSIZE + 1)
fn count_member_sizes(m: &Model, what: &str, out: &mut CaseOut) {
    for size in [256u64, 257, 32768, 32769, 65535, 65536] {
        if m.blocks.iter().any(|b| b.size == size) {
            out.count(&format!("{what}_with_member_of_{size}_bytes(BSIZE={:#06x})", size - 1), 1);
        }
    }
}

fn run_hist(layout: &LayoutSpec, flavor: Flavor, gzi_variant: &str, nops: usize, hseed: u64, script: &Option<Vec<SOp>>) -> CaseOut {
    let mut out = CaseOut::new();
    let Some(b) = build_or_inconclusive(layout, &mut out) else { return out };
    let index = match make_index(&b.model, gzi_variant) {
        Ok(i) => i,
        Err(e) => {
            out.inconclusive.push(e);
            return out;
        }
    };
    let t = Targets::new(&b.model);
    let mut d = Driver::new(&b.model, &b.file, flavor, gzi_variant, index);
    let mut rng = Rng::new(hseed, 0x415, 0);
    match script {
        Some(s) => run_script(&mut d, &t, s),
        None => run_random(&mut d, &t, nops, &mut rng),
    }
    out.count("histories", 1);
    out.count(&format!("histories[{}]", flavor.name()), 1);
    out.count(&format!("gzi_index_variant[{gzi_variant}]"), 1);
    out.max("max_history_operations", d.nops);
    count_member_sizes(&b.model, "histories", &mut out);
    out.max("max_blocks_in_a_layout", b.model.blocks.len() as u64);
    out.fp = shape_fp("hist", &b.model.shape(), &format!("{}|{gzi_variant}", flavor.name()));
    absorb(&mut out, d);
    out
}

// ---------------------------------------------------------------------------------------------
// exhaustive seeks

fn targets_of(m: &Model, dense_limit: usize, rng: &mut Rng) -> Vec<u64> {
    let mut v = Vec::new();
    for b in &m.blocks {
        if b.len == 0 {
            v.push(raw(b.off, 0));
        } else if b.len <= dense_limit {
            for u in 0..b.len {
                v.push(raw(b.off, u as u64));
            }
        } else {
            let mut us: BTreeSet<usize> = [0, 1, 2, b.len - 3, b.len - 2, b.len - 1].into_iter().collect();
            for _ in 0..3 {
                us.insert(rng.usize_below(b.len));
            }
            for u in us {
                v.push(raw(b.off, u as u64));
            }
        }
    }
    v.push(raw(m.file_len, 0));
    v
}

/// After a seek: the stream must continue from exactly the model cursor.
fn verify_after_seek(d: &mut Driver<'_>, i: usize) {
    if d.dead {
        return;
    }
    let rem = d.m.total() - d.p;
    if rem == 0 {
        d.read(16);
        d.fill_consume(1);
        return;
    }
    let rb = d.rem_in_block();
    // cross into the next block when that is cheap
    let k = if rb <= 4 { rb + 3 } else { 8 };
    match i % 3 {
        0 => d.read_exact(k.min(rem) as usize),
        1 => {
            d.read(k as usize);
        }
        _ => d.fill_consume(5 + ((k.min(rb)) << 8)),
    }
}

fn exhaust_layout(b: &Built, dense_limit: usize, rng: &mut Rng, out: &mut CaseOut) {
    let m = &b.model;
    let targets = targets_of(m, dense_limit, rng);
    let index = gzi::Index::from(m.gzi_full());
    let mut shuffled = targets.clone();
    rng.shuffle(&mut shuffled);
    // A: one reader, targets in file order
    let mut a = Driver::new(m, &b.file, Flavor::Plain, "full", index.clone());
    for (i, &t) in targets.iter().enumerate() {
        a.seek_v(t, i % 2 == 0, "model");
        verify_after_seek(&mut a, i);
    }
    absorb(out, a);
    // B: one reader, shuffled order, now and then run to the very end first
    let mut r = Driver::new(m, &b.file, Flavor::Plain, "full", index.clone());
    for (i, &t) in shuffled.iter().enumerate() {
        if i % 5 == 2 {
            r.read_all(70000);
        }
        r.seek_v(t, i % 2 == 1, "model");
        verify_after_seek(&mut r, i + 1);
    }
    absorb(out, r);
    // C: a fresh reader per target
    for (i, &t) in targets.iter().enumerate() {
        let mut c = Driver::new(m, &b.file, Flavor::Plain, "full", index.clone());
        c.seek_v(t, false, "model");
        verify_after_seek(&mut c, i + 2);
        absorb(out, c);
    }
    // D: the multithreaded reader, reused, every 5th shuffled target plus the end targets
    let mut dm = Driver::new(m, &b.file, Flavor::Mt, "full", index.clone());
    for (i, &t) in shuffled.iter().enumerate() {
        if i % 5 == 0 || m.classify(t) >= Class::EndAtEofMarker {
            dm.seek_v(t, true, "model");
            verify_after_seek(&mut dm, i);
        }
    }
    absorb(out, dm);
    // E: seek by uncompressed offset to every flat offset the targets denote
    let mut e = Driver::new(m, &b.file, Flavor::Indexed, "full", index);
    for &t in &shuffled {
        let q = m.flat(t).unwrap();
        e.seek_u(q, false);
        verify_after_seek(&mut e, q as usize);
    }
    absorb(out, e);
    count_member_sizes(m, "exhaust_layouts", out);
    out.count("exhaust_layouts", 1);
    out.count("exhaust_targets", targets.len() as u64);
    out.fps.push(shape_fp("exhaust", &m.shape(), ""));
}

fn run_scan(layout: &LayoutSpec, block: usize, lo: usize, hi: usize) -> CaseOut {
    let mut out = CaseOut::new();
    let Some(b) = build_or_inconclusive(layout, &mut out) else { return out };
    let m = &b.model;
    let blk = m.blocks[block].clone();
    let index = gzi::Index::from(m.gzi_full());
    let mut d = Driver::new(m, &b.file, Flavor::Plain, "full", index.clone());
    let mut g = Driver::new(m, &b.file, Flavor::Indexed, "full", index.clone());
    for u in lo..hi.min(blk.len) {
        d.seek_v(raw(blk.off, u as u64), u % 2 == 0, "model");
        verify_after_seek(&mut d, u);
        if u % 4 == 0 {
            g.seek_u(blk.start + u as u64, false);
            verify_after_seek(&mut g, u + 1);
        }
        if u % 64 == 0 {
            let mut f = Driver::new(m, &b.file, Flavor::Plain, "full", index.clone());
            f.seek_v(raw(blk.off, u as u64), false, "model");
            verify_after_seek(&mut f, u);
            absorb(&mut out, f);
        }
    }
    out.count("scan_offsets", (hi.min(blk.len) - lo.min(blk.len)) as u64);
    out.fp = shape_fp("scan", &m.shape(), &format!("{block}|{lo}"));
    absorb(&mut out, d);
    absorb(&mut out, g);
    out
}

// ---------------------------------------------------------------------------------------------
// writer side

#[allow(clippy::too_many_arguments)]
fn run_writer(total: usize, class: &str, split: &str, flush_every: usize, level: u8, end: &str, raw_write: bool, pseed: u64) -> CaseOut {
    let mut out = CaseOut::new();
    let mut rng = Rng::new(pseed, 0x77, 0);
    let data = payload::make(class, total, &mut rng);
    let pieces = payload::split_pattern(split, total, &mut rng);
    let lvl = bgzf::io::writer::CompressionLevel::new(level).expect("level 0..=9");
    // (raw virtual position, bytes handed to the writer before the sample)
    let mut samples: Vec<(u64, u64)> = Vec::new();
    let r = guard::catch(|| -> std::io::Result<Vec<u8>> {
        let mut w = bgzf::io::writer::Builder::default().set_compression_level(lvl).build_from_writer(Vec::new());
        let mut off = 0usize;
        for (i, &n) in pieces.iter().enumerate() {
            let piece = &data[off..off + n];
            if raw_write {
                let mut p = piece;
                loop {
                    samples.push((u64::from(w.virtual_position()), (off + n - p.len()) as u64));
                    let k = w.write(p)?;
                    p = &p[k..];
                    if p.is_empty() {
                        break;
                    }
                    if k == 0 {
                        return Err(std::io::Error::other("write returned 0"));
                    }
                }
            } else {
                samples.push((u64::from(w.virtual_position()), off as u64));
                w.write_all(piece)?;
            }
            off += n;
            if flush_every > 0 && (i + 1) % flush_every == 0 {
                w.flush()?;
            }
        }
        samples.push((u64::from(w.virtual_position()), total as u64));
        match end {
            "finish" => w.finish(),
            "no_eof" => {
                w.flush()?;
                samples.push((u64::from(w.virtual_position()), total as u64));
                Ok(w.into_inner())
            }
            _ => {
                w.try_finish()?;
                w.finish()
            }
        }
    });
    let file = match r {
        Ok(Ok(f)) => f,
        Ok(Err(e)) => {
            out.inconclusive.push(format!("the writer failed on a Vec sink: {e}"));
            return out;
        }
        Err(p) => {
            out.violation(format!("panic:{}", p.sig), format!("the writer panicked: {}", p.message));
            return out;
        }
    };
    let m = match Model::from_file(&file) {
        Ok(m) if m.u == data => m,
        Ok(_) => {
            out.inconclusive.push("the writer's output does not inflate to the payload (C01's business); positions cannot be judged".into());
            return out;
        }
        Err(e) => {
            out.inconclusive.push(format!("the independent walker rejects the writer's output ({e}; C01's business)"));
            return out;
        }
    };
    out.count("writer_histories", 1);
    out.count("writer_positions_sampled", samples.len() as u64);
    out.max("max_blocks_in_a_layout", m.blocks.len() as u64);
    let describe = |s: &(u64, u64)| format!("virtual_position() = {} sampled after {} of {total} bytes had been written; {}", show(s.0), s.1, m.describe());
    // (1) every sample names exactly the byte that was written next
    let mut seekable: Vec<(u64, u64)> = Vec::new();
    for s in &samples {
        match m.flat(s.0) {
            Some(q) if q == s.1 => {
                if s.1 < total as u64 && !matches!(m.classify(s.0), Class::BlockEndNonCanonical | Class::NotABoundary) {
                    seekable.push(*s);
                } else if s.1 < total as u64 {
                    out.count("writer_samples_noncanonical(not sought)", 1);
                }
            }
            Some(q) => {
                out.violation("writer-vpos-names-other-byte", format!("the position names flat offset {q}, not {}: {}", s.1, describe(s)));
                return out;
            }
            None => {
                out.violation("writer-vpos-not-a-byte-boundary", format!("the position names no byte boundary of the finished file: {}", describe(s)));
                return out;
            }
        }
    }
    out.count("writer_positions_mapped_to_written_count", samples.len() as u64);
    // (2) readers that seek there deliver the stream from exactly that byte
    seekable.dedup();
    let stride = seekable.len().div_ceil(100).max(1);
    let chosen: Vec<(u64, u64)> = seekable
        .iter()
        .enumerate()
        .filter(|(i, s)| i % stride == 0 || *i + 3 >= seekable.len() || (s.0 & 0xffff) == 0)
        .map(|(_, s)| *s)
        .take(160)
        .collect();
    let file: Arc<[u8]> = Arc::from(file.into_boxed_slice());
    let index = gzi::Index::from(m.gzi_full());
    let mut reused = Driver::new(&m, &file, Flavor::Plain, "full", index.clone());
    let mut order = chosen.clone();
    rng.shuffle(&mut order);
    for (i, s) in order.iter().enumerate() {
        reused.seek_v(s.0, i % 2 == 0, "sampled-from-the-writer");
        let rem = (total as u64 - s.1) as usize;
        reused.read_exact(rem.min(300));
    }
    absorb(&mut out, reused);
    for (i, s) in chosen.iter().enumerate() {
        let flavor = if i % 8 == 7 { Flavor::Mt } else { Flavor::Plain };
        let mut d = Driver::new(&m, &file, flavor, "full", index.clone());
        d.seek_v(s.0, flavor == Flavor::Mt, "sampled-from-the-writer");
        let rem = (total as u64 - s.1) as usize;
        if i + 4 >= chosen.len() || rem <= 70_000 {
            // the whole remaining tail
            d.read_all(if i % 2 == 0 { 65536 } else { 8192 });
            if !d.dead && d.p != total as u64 {
                out.violation("tail-ends-early", format!("after seeking to the sampled position the reader reached end of data at {} of {total}: {}", d.p, describe(s)));
            }
            out.count("writer_positions_whole_tail_compared", 1);
        } else {
            // a bounded prefix that crosses at least one block boundary
            d.read_exact(66_000.min(rem));
            out.count("writer_positions_prefix_compared", 1);
        }
        out.count("writer_positions_sought", 1);
        absorb(&mut out, d);
    }
    out.fp = shape_fp("writer", &m.shape(), &format!("{split}|{flush_every}|{end}|{raw_write}"));
    out
}

// ---------------------------------------------------------------------------------------------
// case generation

fn built(lens: &[u32], enc: u8, eofs: u8, class: &str, cseed: u64) -> LayoutSpec {
    LayoutSpec::Built { lens: lens.to_vec(), enc, eofs, class: class.to_string(), cseed }
}

fn random_layout(rng: &mut Rng) -> LayoutSpec {
    let eofs = match rng.below(20) {
        0..=5 => 0,
        6..=16 => 1,
        17..=18 => 2,
        _ => 3,
    };
    let enc = rng.below(4) as u8;
    let cseed = rng.next_u64() >> 1;
    let class = |rng: &mut Rng| rng.pick(layout::DISTINCT_SMALL).to_string();
    match rng.below(20) {
        0 => LayoutSpec::Built { lens: vec![], enc, eofs: rng.below(3) as u8, class: "dna".into(), cseed },
        1..=4 => {
            let n = rng.urange(1, 8);
            let lens = (0..n).map(|_| if rng.chance(1, 4) { 0 } else { rng.urange(1, 8) as u32 }).collect();
            LayoutSpec::Built { lens, enc, eofs, class: class(rng), cseed }
        }
        5..=9 => {
            let n = rng.urange(1, 12);
            let lens = (0..n)
                .map(|_| match rng.below(20) {
                    0..=2 => 0,
                    3 => 1,
                    4 => 2,
                    _ => rng.urange(3, 300) as u32,
                })
                .collect();
            LayoutSpec::Built { lens, enc, eofs, class: class(rng), cseed }
        }
        10..=12 => {
            let n = rng.urange(1, 5);
            let lens = (0..n)
                .map(|_| match rng.below(9) {
                    0 => 0,
                    1 => 1,
                    2 => 2,
                    3 => 65535,
                    4 | 5 => 65536,
                    6 => 65280,
                    7 => 65279,
                    _ => rng.urange(3, 65534) as u32,
                })
                .collect();
            LayoutSpec::Built { lens, enc, eofs, class: rng.pick(layout::DISTINCT_BIG).to_string(), cseed }
        }
        13 => {
            // members at the BSIZE width boundaries mixed with small / empty ones
            let n = rng.urange(1, 6);
            let members = (0..n)
                .map(|_| match rng.below(12) {
                    0 | 1 => X,
                    2 => Y,
                    3 => Z,
                    4 => Z1,
                    5 => W,
                    6 => *rng.pick(&[(225u32, 256u32), (226, 257), (32737, 32768), (32738, 32769)]),
                    7 | 8 => (0, 0),
                    _ => (rng.urange(1, 300) as u32, 0),
                })
                .collect();
            LayoutSpec::Sized { members, eofs, class: rng.pick(&["dna", "text", "qualities", "two_symbols"]).to_string(), cseed: rng.below(6) + 300 }
        }
        14..=15 => {
            let n = rng.urange(3, 12);
            let lens = (0..n)
                .map(|_| match rng.below(20) {
                    0..=13 => rng.urange(30000, 65536) as u32,
                    14..=16 => 65536,
                    17 => 0,
                    _ => rng.urange(1, 300) as u32,
                })
                .collect();
            LayoutSpec::Built { lens, enc, eofs, class: rng.pick(layout::DISTINCT_BIG).to_string(), cseed }
        }
        _ => {
            let split = rng.pick(payload::SPLITS).to_string();
            let flush_every = *rng.pick(&[0usize, 0, 1, 2, 5]);
            let tiny = split == "ones" || split == "small";
            let total = if tiny && flush_every > 0 {
                rng.skewed(3000) as usize
            } else if tiny {
                rng.skewed(70000) as usize
            } else {
                rng.skewed(400_000) as usize
            };
            let end = match rng.below(20) {
                0..=11 => "finish",
                12..=16 => "no_eof",
                _ => "double_eof",
            };
            LayoutSpec::Writer { total, class: class(rng), split, flush_every, level: rng.below(10) as u8, end: end.into(), pseed: cseed }
        }
    }
}

const ENUM_LENS: [u32; 5] = [0, 1, 2, 65535, 65536];
const DENSE_LENS: [u32; 4] = [0, 1, 2, 5];

fn enumerate(alphabet: &[u32], max_blocks: usize, f: &mut dyn FnMut(&[u32])) {
    fn rec(alphabet: &[u32], max: usize, cur: &mut Vec<u32>, f: &mut dyn FnMut(&[u32])) {
        f(cur);
        if cur.len() == max {
            return;
        }
        for &l in alphabet {
            cur.push(l);
            rec(alphabet, max, cur, f);
            cur.pop();
        }
    }
    rec(alphabet, max_blocks, &mut Vec::new(), f);
}

fn witness_cases(cases: &mut Vec<Case>) {
    let hw = built(&[5, 5], 2, 0, "text", 11);
    let hw_eof = built(&[5, 5], 2, 1, "text", 11);
    let mut push = |name: &'static str, layout: &LayoutSpec, flavor: Flavor, script: Vec<SOp>| {
        cases.push(Case::Hist { name, layout: layout.clone(), flavor, gzi: "full", nops: script.len(), hseed: 0, script: Some(script) });
    };
    for flavor in [Flavor::Plain, Flavor::Mt] {
        // §1 of DESIGN.md: read everything of "hello"+"world" without EOF marker, seek to the end position, read
        push("witness:seek-to-end-without-eof-marker", &hw, flavor, vec![SOp::ReadAll(4096), SOp::SeekClass(Class::FileEndNoEof), SOp::Read(16), SOp::Fill(1)]);
        // the same defect with an EOF marker: the position a reader reports after the EOF marker
        push("witness:seek-past-eof-marker", &hw_eof, flavor, vec![SOp::Read(1), SOp::SeekClass(Class::AfterEofMarker), SOp::Read(16), SOp::Fill(1)]);
        // ... and on a reader that has not loaded any block yet
        push("witness:fresh-reader-seek-to-file-end", &hw, flavor, vec![SOp::SeekClass(Class::FileEndNoEof), SOp::Read(16)]);
        push("witness:fresh-reader-seek-past-eof-marker", &hw_eof, flavor, vec![SOp::SeekClass(Class::AfterEofMarker), SOp::Read(16)]);
        // control: the canonical end position of a file with EOF marker is fine
        push("control:seek-to-eof-marker", &hw_eof, flavor, vec![SOp::ReadAll(4096), SOp::SeekClass(Class::EndAtEofMarker), SOp::Read(16), SOp::SeekFlat(3), SOp::ReadAll(7)]);
    }
    // the >= 64 KiB direct-decode path at the end of a file without EOF marker
    push("witness:direct-read-at-end-without-eof-marker", &built(&[5, 7], 2, 0, "text", 12), Flavor::Plain, vec![SOp::ReadAll(4096), SOp::Read(65536), SOp::Read(131072), SOp::Read(16)]);
    push("witness:direct-read-exact-at-end-without-eof-marker", &built(&[3, 65536], 2, 0, "dna", 13), Flavor::Plain, vec![SOp::ReadAll(4096), SOp::ReadExact(65536), SOp::SeekFlat(1), SOp::ReadExact(65538 + 65536)]);
    push("control:direct-read-at-end-with-eof-marker", &built(&[5, 7], 2, 1, "text", 12), Flavor::Plain, vec![SOp::ReadAll(4096), SOp::Read(65536), SOp::Read(131072), SOp::Gzi(12), SOp::Read(65536)]);
}

fn corpus_layouts() -> Vec<LayoutSpec> {
    let mut v = vec![
        built(&[], 0, 0, "dna", 1),
        built(&[], 0, 1, "dna", 1),
        built(&[], 0, 3, "dna", 1),
        built(&[0, 0, 0], 0, 0, "dna", 2),
        built(&[0, 7, 0, 0, 4, 0], 0, 1, "text", 3),
        built(&[0, 7, 0, 0, 4, 0], 2, 0, "text", 3),
        built(&[1, 1, 1, 1, 1, 1, 1, 1], 1, 1, "random", 4),
        built(&[1, 0, 1, 0, 1], 0, 2, "random", 4),
        built(&[65536], 0, 1, "dna", 5),
        built(&[65536], 2, 0, "dna", 5),
        built(&[65536, 65536, 65536], 3, 1, "text", 6),
        built(&[65536, 0, 65536, 0], 1, 0, "skewed", 7),
        built(&[65535, 65536, 1, 65536], 2, 1, "qualities", 8),
        built(&[0, 65536, 2, 0, 65535], 0, 0, "two_symbols", 9),
        built(&[65280, 65280, 100], 2, 1, "dna", 10),
        built(&[300, 0, 300, 65536, 0, 1, 65536, 65536, 9], 3, 2, "dna", 14),
        built(&[70, 80, 90, 100], 2, 0, "random", 15),
    ];
    for (i, end) in ["finish", "no_eof", "double_eof"].iter().enumerate() {
        v.push(LayoutSpec::Writer { total: 200_000, class: "dna".into(), split: "mixed".into(), flush_every: 2, level: 6, end: end.to_string(), pseed: 20 + i as u64 });
        v.push(LayoutSpec::Writer { total: 1000, class: "text".into(), split: "small".into(), flush_every: 1, level: 1, end: end.to_string(), pseed: 30 + i as u64 });
        v.push(LayoutSpec::Writer { total: 65280 * 3, class: "random".into(), split: "all".into(), flush_every: 0, level: 0, end: end.to_string(), pseed: 40 + i as u64 });
    }
    v
}

/// Members at the BSIZE width boundaries (total member size = BSIZE + 1). `(len, total)`:
/// stored payloads of total - 31 bytes hit the size exactly; a 65 536-byte payload (ISIZE 65536)
/// gets a stored prefix + padding + deflated tail of exactly the required size.
const X: (u32, u32) = (65505, 65536); // BSIZE 0xffff, stored
const Y: (u32, u32) = (65504, 65535); // BSIZE 0xfffe, stored
const Z: (u32, u32) = (65536, 65536); // ISIZE 65536 and BSIZE 0xffff
const Z1: (u32, u32) = (65536, 65535); // ISIZE 65536 and BSIZE 0xfffe
const W: (u32, u32) = (65506, 0); // one byte more than a stored member can hold: deflated, small

fn sized(members: &[(u32, u32)], eofs: u8, class: &str, cseed: u64) -> LayoutSpec {
    LayoutSpec::Sized { members: members.to_vec(), eofs, class: class.to_string(), cseed }
}

fn sized_layouts() -> Vec<LayoutSpec> {
    let s = |n: u32| (n, 0u32);
    vec![
        // first / only
        sized(&[X], 0, "dna", 201),
        sized(&[X], 1, "dna", 201),
        sized(&[X, s(5), s(0), s(7)], 1, "text", 202),
        sized(&[Z, s(4), s(0), s(9)], 0, "dna", 203),
        sized(&[Z], 1, "qualities", 204),
        // middle, followed by small and empty members
        sized(&[s(5), s(0), X, s(0), s(3), Y], 0, "dna", 205),
        sized(&[s(7), Z, Z1, s(2)], 1, "two_symbols", 206),
        sized(&[s(1), Y, s(0), s(0), s(1), X, s(1)], 2, "text", 207),
        // last, with and without EOF marker
        sized(&[s(3), X], 0, "dna", 208),
        sized(&[s(3), X], 1, "dna", 208),
        sized(&[s(2), Z], 0, "text", 209),
        sized(&[s(2), Z1], 1, "text", 209),
        // several in a row
        sized(&[X, X, Y, Z, s(10)], 1, "dna", 210),
        sized(&[W, X, W], 1, "dna", 211),
        // BSIZE 0x00ff/0x0100, 0x7fff/0x8000, 0xfffe/0xffff in one file, both orders
        sized(&[(225, 256), (226, 257), (32737, 32768), (32738, 32769), Y, X, s(10)], 1, "dna", 212),
        sized(&[s(10), X, Y, (32738, 32769), (32737, 32768), (226, 257), (225, 256)], 0, "text", 213),
        sized(&[(225, 256), s(0), (226, 257), s(0), (225, 256)], 1, "qualities", 214),
    ]
}

const GZI_VARIANTS: [&str; 3] = ["full", "no-trailing", "full-roundtrip"];

fn gen_cases(ctx: &Ctx) -> Vec<Case> {
    let mut cases = Vec::new();
    let thorough = ctx.tier == Tier::Thorough;
    // (a) witnesses of the known defects + controls (deterministic, seed-independent)
    witness_cases(&mut cases);
    // (b) corpus layouts x reader flavour x gzi variant, random histories with fixed seeds
    for (i, l) in corpus_layouts().iter().enumerate() {
        for (j, flavor) in [Flavor::Plain, Flavor::Indexed, Flavor::Mt, Flavor::Plain].iter().enumerate() {
            cases.push(Case::Hist { name: "corpus", layout: l.clone(), flavor: *flavor, gzi: GZI_VARIANTS[(i + j) % 3], nops: 120, hseed: 1000 + (i * 4 + j) as u64, script: None });
        }
    }
    // (b') members at the BSIZE width boundaries: every reader flavour x gzi variant, two histories each
    for (i, l) in sized_layouts().iter().enumerate() {
        for (j, flavor) in [Flavor::Plain, Flavor::Indexed, Flavor::Mt, Flavor::Plain, Flavor::Mt, Flavor::Indexed].iter().enumerate() {
            cases.push(Case::Hist { name: "bsize-boundary", layout: l.clone(), flavor: *flavor, gzi: GZI_VARIANTS[(i + j) % 3], nops: 150, hseed: 3000 + (i * 6 + j) as u64, script: None });
        }
        // sequential pass with positions sampled after every operation, then the boundary seeks
        cases.push(Case::Hist {
            name: "bsize-boundary:sequential",
            layout: l.clone(),
            flavor: if i % 2 == 0 { Flavor::Plain } else { Flavor::Mt },
            gzi: "full",
            nops: 6,
            hseed: 0,
            script: Some(vec![SOp::ReadAll(70000), SOp::SeekFlat(0), SOp::ReadAll(4096), SOp::SeekFlat(65505), SOp::Fill(1), SOp::ReadAll(65536)]),
        });
    }
    // (c) seeded random histories
    let n = ctx.budget("hist", 3600, 100_000);
    let mut rng = Rng::new(ctx.seed, 0xC02, 0);
    for i in 0..n {
        let flavor = match rng.below(20) {
            0..=13 => Flavor::Plain,
            14..=17 => Flavor::Indexed,
            _ => Flavor::Mt,
        };
        cases.push(Case::Hist {
            name: "random",
            layout: random_layout(&mut rng),
            flavor,
            gzi: GZI_VARIANTS[rng.usize_below(3)],
            nops: rng.urange(10, 200),
            hseed: ctx.seed.wrapping_mul(0x9E37_79B9).wrapping_add(i),
            script: None,
        });
    }
    // (d) exhaustive seeks: all layouts over ENUM_LENS up to max_blocks, with and without EOF marker
    let max_blocks = ctx.budget("exh_blocks", 3, 6) as usize;
    let mut batch: Vec<LayoutSpec> = Vec::new();
    let mut k = 0u64;
    let flush = |batch: &mut Vec<LayoutSpec>, cases: &mut Vec<Case>, k: &mut u64, dense: usize| {
        if !batch.is_empty() {
            *k += 1;
            cases.push(Case::Exhaust { layouts: std::mem::take(batch), hseed: ctx.seed ^ (*k << 16), dense_limit: dense });
        }
    };
    enumerate(&ENUM_LENS, max_blocks, &mut |lens| {
        for eofs in 0..=1u8 {
            let enc = ((lens.len() + eofs as usize) % 3) as u8;
            batch.push(built(lens, enc, eofs, "dna", 77));
            if batch.len() >= 4 {
                flush(&mut batch, &mut cases, &mut k, 300);
            }
        }
    });
    flush(&mut batch, &mut cases, &mut k, 300);
    // members at the BSIZE width boundaries, sought by all five reader disciplines
    for l in sized_layouts() {
        batch.push(l);
        if batch.len() >= 2 {
            flush(&mut batch, &mut cases, &mut k, 300);
        }
    }
    flush(&mut batch, &mut cases, &mut k, 300);
    // small blocks: every byte boundary of every layout over DENSE_LENS up to 4 (quick) / 5 blocks
    enumerate(&DENSE_LENS, if thorough { 5 } else { 4 }, &mut |lens| {
        for eofs in 0..=2u8 {
            if eofs == 2 && lens.len() > 2 {
                continue;
            }
            batch.push(built(lens, ((lens.len() + eofs as usize) % 3) as u8, eofs, "random", 78));
            if batch.len() >= 24 {
                flush(&mut batch, &mut cases, &mut k, 300);
            }
        }
    });
    flush(&mut batch, &mut cases, &mut k, 300);
    // random larger layouts, dense in blocks up to 300 bytes
    let n = ctx.budget("exh_random", 160, 4000);
    let mut rng = Rng::new(ctx.seed, 0xE8A, 0);
    for _ in 0..n {
        let mut l = random_layout(&mut rng);
        if let LayoutSpec::Writer { total, .. } = &mut l {
            *total = (*total).min(150_000);
        }
        batch.push(l);
        if batch.len() >= 2 {
            flush(&mut batch, &mut cases, &mut k, 300);
        }
    }
    flush(&mut batch, &mut cases, &mut k, 300);
    // (e) every in-block offset of a full / nearly full block
    let mut scans: Vec<(LayoutSpec, usize)> = vec![(built(&[65536], 0, 1, "dna", 90), 0), (built(&[3, 65535, 65536], 0, 1, "text", 91), 1)];
    if thorough {
        scans.push((built(&[65536, 65536], 2, 0, "dna", 92), 1));
        scans.push((built(&[0, 65535, 0], 1, 0, "skewed", 93), 1));
        scans.push((built(&[65280, 65280], 2, 1, "qualities", 94), 0));
    }
    for (l, block) in scans {
        let mut lo = 0usize;
        while lo < 65536 {
            cases.push(Case::Scan { layout: l.clone(), block, lo, hi: lo + 2048 });
            lo += 2048;
        }
    }
    // (f) writer histories
    let n = ctx.budget("writer", 320, 8000);
    let mut rng = Rng::new(ctx.seed, 0x3217, 0);
    for (i, len) in [0usize, 1, 65279, 65280, 65281, 130559, 130560, 130561, 200_000].iter().enumerate() {
        for (j, split) in ["all", "halves", "mixed", "blocks"].iter().enumerate() {
            cases.push(Case::Writer {
                total: *len,
                class: layout::DISTINCT_SMALL[(i + j) % layout::DISTINCT_SMALL.len()].to_string(),
                split: split.to_string(),
                flush_every: [0, 1, 3][(i + j) % 3],
                level: ((i * 3 + j) % 10) as u8,
                end: ["finish", "no_eof", "double_eof"][(i + j) % 3],
                raw_write: (i + j) % 2 == 0,
                pseed: 500 + (i * 4 + j) as u64,
            });
        }
    }
    for i in 0..n {
        let split = rng.pick(payload::SPLITS).to_string();
        let flush_every = *rng.pick(&[0usize, 0, 1, 2, 5, 17]);
        let tiny = split == "ones" || split == "small";
        let total = match rng.below(10) {
            0 => *rng.pick(&payload::boundary_lengths()),
            1..=3 => rng.skewed(5000) as usize,
            4..=6 => rng.urange(60000, 140000),
            _ => rng.skewed(400_000) as usize,
        };
        let total = if tiny && flush_every > 0 && flush_every < 17 { total.min(3000) } else if tiny { total.min(80_000) } else { total };
        cases.push(Case::Writer {
            total,
            class: rng.pick(layout::DISTINCT_SMALL).to_string(),
            split,
            flush_every,
            level: rng.below(10) as u8,
            end: match rng.below(10) {
                0..=6 => "finish",
                7..=8 => "no_eof",
                _ => "double_eof",
            },
            raw_write: rng.bool(),
            pseed: ctx.seed.wrapping_mul(77).wrapping_add(i),
        });
    }
    cases
}

fn run_case(c: &Case) -> CaseOut {
    match c {
        Case::Hist { layout, flavor, gzi, nops, hseed, script, .. } => run_hist(layout, *flavor, gzi, *nops, *hseed, script),
        Case::Exhaust { layouts, hseed, dense_limit } => {
            let mut out = CaseOut::new();
            out.evaluations = 0;
            let mut rng = Rng::new(*hseed, 0xE8, 0);
            for l in layouts {
                if let Some(b) = build_or_inconclusive(l, &mut out) {
                    exhaust_layout(&b, *dense_limit, &mut rng, &mut out);
                    out.evaluations += 1;
                }
            }
            out
        }
        Case::Scan { layout, block, lo, hi } => run_scan(layout, *block, *lo, *hi),
        Case::Writer { total, class, split, flush_every, level, end, raw_write, pseed } => run_writer(*total, class, split, *flush_every, *level, end, *raw_write, *pseed),
    }
}

/// Sanitizer stage (Miri, thorough tier): a handful of tiny histories run in-process (Miri cannot
/// spawn the child processes `run_cases` uses). Cheap insurance only: the cursor arithmetic of the
/// reader is safe code; what Miri watches is zlib-rs inflate/crc32 and the block buffer handling
/// under seek / direct-decode call patterns.
fn miri_stage(ctx: &Ctx, rep: &mut Report) {
    let n = ctx.budget("miri_cases", 30, 30);
    let mut rng = Rng::new(ctx.seed, 0x3141, 0);
    for i in 0..n {
        let nblocks = rng.urange(1, 4);
        let lens: Vec<u32> = (0..nblocks).map(|_| if rng.chance(1, 4) { 0 } else { rng.urange(1, 6) as u32 }).collect();
        let layout = built(&lens, [0u8, 0, 1][(i % 3) as usize], (i % 2 != 0) as u8, "random", 4000 + i);
        let flavor = match i % 10 {
            3 | 7 => Flavor::Indexed,
            9 => Flavor::Mt,
            _ => Flavor::Plain,
        };
        let out = run_hist(&layout, flavor, GZI_VARIANTS[(i % 3) as usize], 12, ctx.seed.wrapping_add(i), &None);
        rep.evaluations += 1;
        if out.fp != 0 {
            rep.distinct.insert(out.fp);
        }
        for (k, v) in &out.counters {
            rep.count(k, *v);
        }
        for (k, v) in &out.maxima {
            rep.max(k, *v);
        }
        for (sig, desc, _) in out.violations {
            rep.violation(sig, format!("{desc} [miri stage, history #{i}: {}]", layout.to_json()), None);
        }
        rep.inconclusive.extend(out.inconclusive);
    }
    let h = rep.counters.get("histories").copied().unwrap_or(0);
    rep.floor("histories", h, n.min(10));
}

fn main() {
    // the multithreaded reader inflates on the global rayon pool; cases already run in one child
    // process per core
    let _ = rayon::ThreadPoolBuilder::new().num_threads(2).build_global();
    let ctx = Ctx::from_args();
    let ctx = vcore::cases::replay_request(&ctx).map(|r| r.1).unwrap_or(ctx);
    let mut rep = Report::new(
        "case kinds: hist = one block layout (harness-built stored/deflated members incl. empty, 1-byte, 65535/65536-byte blocks, \
         0..3 EOF markers; members whose total size sits at the BSIZE width boundaries 0x00ff/0x0100, 0x7fff/0x8000, 0xfffe/0xffff \
         incl. ISIZE 65536 with BSIZE 0xffff; or produced by the real writer with flushes, with/without/with two EOF markers) x reader (Reader, \
         IndexedReader, MultithreadedReader over Cursor) x gzi variant (all blocks / without trailing empty blocks / written and \
         read back through gzi::io) x a history of 10-200 operations {read(n), read_exact(n), fill_buf+consume, seek(vpos of a byte \
         boundary by class or reported earlier by the reader), seek by uncompressed offset}; exhaust = every byte boundary of a \
         layout (all in-block offsets of blocks <= 300 bytes, 0,1,2,len-3..len-1 + 3 random offsets of larger ones, every empty \
         block, the file end) sought by a forward-reused, a shuffled-reused, a fresh, an MT and (by flat offset) an indexed reader; \
         scan = every in-block offset of one 65535/65536-byte block; writer = write/flush history with virtual_position() sampled \
         before every write. Deterministic corpus + witnesses + VERIF_SEED-seeded random part. distinct = distinct (case kind, \
         sequence of block length classes 0/1/2/3-255/256-65279/65280/65281-65534/65535/65536, reader, gzi variant | writer split, \
         flush policy, end mode); every case compares data and positions, so all are non-trivial",
    );
    rep.assumptions.push("the reference model is built only from the independent walker (miniz_oxide inflate, own CRC32) and the generator's own payload".into());
    rep.assumptions.push("tolerances: how many bytes read() returns (1..=n) and how much a failing read_exact consumes are not prescribed (the model re-synchronises from the reported position, which must lie in [p, |U|]); seek by uncompressed offset to |U| may fail with InvalidData when the last indexed block holds 65536 bytes (in-block offset 65536 is not expressible); (block, len) is accepted as a name of the boundary after the block if a reader ever reports it".into());
    rep.assumptions.push("the counter reads_ge_64k_at_exhausted_block(direct-decode path) is inferred, not observed: it counts read(n >= 65536) calls issued while, by the monitor's bookkeeping of loaded blocks, the reader's current block was used up (noodles has no hook on that path); the mutant C02-direct-read-not-consumed confirms that the path is really taken".into());
    rep.assumptions.push("never generated (out of scope by the statement, C15's business): virtual positions that name no byte boundary, uncompressed offsets > |U|".into());
    if ctx.stage == "miri" {
        miri_stage(&ctx, &mut rep);
        rep.finish(&ctx);
    }
    let cases = gen_cases(&ctx);
    let f = |i: u64| -> CaseOut {
        let c = &cases[i as usize];
        let mut o = run_case(c);
        if i % 397 == 0 {
            o.sample = Some(case_json(c));
        }
        o
    };
    run_cases(&ctx, &mut rep, cases.len() as u64, 120.0, &f, &|i| case_json(&cases[i as usize]));
    if ctx.replay.is_none() {
        // shapes of the harness-built layouts (computed from the generated length lists)
        let mut shapes = BTreeSet::new();
        let mut add = |l: &LayoutSpec| {
            match l {
                LayoutSpec::Built { lens, eofs, .. } => {
                    shapes.insert(fnv1a(format!("{lens:?}|{eofs}").as_bytes()));
                }
                LayoutSpec::Sized { members, eofs, .. } => {
                    shapes.insert(fnv1a(format!("sized{members:?}|{eofs}").as_bytes()));
                }
                LayoutSpec::Writer { .. } => {}
            }
        };
        for c in &cases {
            match c {
                Case::Hist { layout, .. } | Case::Scan { layout, .. } => add(layout),
                Case::Exhaust { layouts, .. } => layouts.iter().for_each(&mut add),
                Case::Writer { .. } => {}
            }
        }
        rep.extra.insert("distinct_harness_built_layouts(block length list, EOF markers)".into(), json!(shapes.len()));
        let max_blocks = ctx.budget("exh_blocks", 3, 6);
        rep.extra.insert(
            "exhaustively_enumerated_subspace".into(),
            json!(format!("all layouts of 0..={max_blocks} blocks with lengths in {ENUM_LENS:?} x (no / one EOF marker), targets as stated in the rule")),
        );
        let floors: Vec<(&str, u64)> = vec![
            ("histories", if ctx.quick() { 2000 } else { 50_000 }),
            ("operations", 150_000),
            ("positions_compared", 150_000),
            ("ops[read]", 20_000),
            ("ops[read_exact]", 5_000),
            ("ops[fill_buf]", 5_000),
            ("ops[consume]", 5_000),
            ("ops[seek]", 20_000),
            ("ops[gzi_seek]", 5_000),
            ("seeks[mid-block]", 2_000),
            ("seeks[block-start]", 1_000),
            ("seeks[block-last-byte]", 1_000),
            ("seeks[empty-block-mid-file]", 500),
            ("seeks[end-at-eof-marker]", 500),
            ("seeks[file-end-without-eof-marker]", 200),
            ("seeks[after-eof-marker]", 200),
            ("seek_origin[reported-by-the-reader-earlier]", 1_000),
            ("reads_ge_64k_at_exhausted_block(direct-decode path)", 500),
            ("gzi_index_variant[full-roundtrip]", 100),
            ("writer_positions_sampled", 5_000),
            ("writer_positions_sought", 2_000),
            ("exhaust_layouts", 300),
            ("histories_with_member_of_65536_bytes(BSIZE=0xffff)", 100),
            ("histories_with_member_of_65535_bytes(BSIZE=0xfffe)", 50),
            ("histories_with_member_of_32768_bytes(BSIZE=0x7fff)", 10),
            ("histories_with_member_of_32769_bytes(BSIZE=0x8000)", 10),
            ("histories_with_member_of_256_bytes(BSIZE=0x00ff)", 10),
            ("histories_with_member_of_257_bytes(BSIZE=0x0100)", 10),
            ("exhaust_layouts_with_member_of_65536_bytes(BSIZE=0xffff)", 10),
            ("scan_offsets", 100_000),
        ];
        for (k, need) in floors {
            let got = rep.counters.get(k).copied().unwrap_or(0);
            rep.floor(k, got, need);
        }
    }
    rep.finish(&ctx);
}
