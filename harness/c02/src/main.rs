//! C02 — stub (to be implemented).

fn main() {
    eprintln!("c02: not implemented");
    std::process::exit(2);
}
