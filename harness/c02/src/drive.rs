//! The lock-step driver: every operation is executed on the real reader and on the flat-array
//! model, and compared immediately (data, return counts, error/no error, denoted position,
//! monotonicity of the raw virtual position between sequential operations).

use std::{
    collections::{BTreeMap, VecDeque},
    io::{self, BufRead, Cursor, Read, Seek, SeekFrom},
    sync::Arc,
};

use noodles_bgzf::{self as bgzf, gzi};
use vcore::guard;

use crate::model::{Class, Model, raw, show};

pub type Src = Cursor<Arc<[u8]>>;

#[derive(Clone, Copy, Debug, PartialEq, Eq)]
pub enum Flavor {
    Plain,
    Indexed,
    Mt,
}

impl Flavor {
    pub fn name(self) -> &'static str {
        match self {
            Flavor::Plain => "reader",
            Flavor::Indexed => "indexed-reader",
            Flavor::Mt => "mt-reader",
        }
    }
    /// signature suffix: the plain reader and the indexed reader share all code
    fn suffix(self) -> &'static str {
        match self {
            Flavor::Plain => "",
            Flavor::Indexed => "",
            Flavor::Mt => "@mt",
        }
    }
}

pub enum Rd {
    Plain(bgzf::io::Reader<Src>),
    Indexed(bgzf::io::IndexedReader<Src>),
    Mt(bgzf::io::MultithreadedReader<Src>),
}

impl Rd {
    pub fn new(flavor: Flavor, file: &Arc<[u8]>, index: &gzi::Index) -> Rd {
        let src = Cursor::new(file.clone());
        match flavor {
            Flavor::Plain => Rd::Plain(bgzf::io::Reader::new(src)),
            Flavor::Indexed => Rd::Indexed(bgzf::io::IndexedReader::new(src, index.clone())),
            Flavor::Mt => Rd::Mt(bgzf::io::MultithreadedReader::new(src)),
        }
    }

    fn vpos(&self, via_trait: bool) -> u64 {
        match self {
            Rd::Plain(r) => u64::from(if via_trait { bgzf::io::Read::virtual_position(r) } else { r.virtual_position() }),
            Rd::Indexed(r) => u64::from(r.virtual_position()),
            Rd::Mt(r) => u64::from(if via_trait { bgzf::io::Read::virtual_position(r) } else { r.virtual_position() }),
        }
    }

    fn read(&mut self, b: &mut [u8]) -> io::Result<usize> {
        match self {
            Rd::Plain(r) => r.read(b),
            Rd::Indexed(r) => r.read(b),
            Rd::Mt(r) => r.read(b),
        }
    }

    fn read_exact(&mut self, b: &mut [u8]) -> io::Result<()> {
        match self {
            Rd::Plain(r) => r.read_exact(b),
            Rd::Indexed(r) => r.read_exact(b),
            Rd::Mt(r) => r.read_exact(b),
        }
    }

    fn fill_buf(&mut self) -> io::Result<&[u8]> {
        match self {
            Rd::Plain(r) => r.fill_buf(),
            Rd::Indexed(r) => r.fill_buf(),
            Rd::Mt(r) => r.fill_buf(),
        }
    }

    fn consume(&mut self, n: usize) {
        match self {
            Rd::Plain(r) => r.consume(n),
            Rd::Indexed(r) => r.consume(n),
            Rd::Mt(r) => r.consume(n),
        }
    }

    fn seek_v(&mut self, rawv: u64, via_trait: bool) -> io::Result<u64> {
        let v = bgzf::VirtualPosition::from(rawv);
        match self {
            Rd::Plain(r) => if via_trait { bgzf::io::Seek::seek_to_virtual_position(r, v) } else { r.seek(v) }.map(u64::from),
            Rd::Mt(r) => bgzf::io::Seek::seek_to_virtual_position(r, v).map(u64::from),
            Rd::Indexed(_) => unreachable!("harness: the indexed reader has no seek by virtual position"),
        }
    }

    fn seek_u(&mut self, index: &gzi::Index, off: u64, via_trait: bool) -> io::Result<u64> {
        match self {
            Rd::Plain(r) => {
                if via_trait {
                    bgzf::io::Seek::seek_with_index(r, index, SeekFrom::Start(off))
                } else {
                    r.seek_by_uncompressed_position(index, off)
                }
            }
            Rd::Mt(r) => bgzf::io::Seek::seek_with_index(r, index, SeekFrom::Start(off)),
            Rd::Indexed(r) => r.seek(SeekFrom::Start(off)),
        }
    }
}

const SENTINEL: u8 = 0xA5;

pub struct Driver<'m> {
    pub m: &'m Model,
    rd: Rd,
    pub flavor: Flavor,
    index: gzi::Index,
    index_entries: Vec<(u64, u64)>,
    index_name: String,
    pub p: u64,
    last_raw: u64,
    /// bookkeeping for the evidence only: flat end of the block the reader loaded last
    held_end: Option<u64>,
    touched: bool,
    prev: String,
    log: VecDeque<String>,
    pub stats: BTreeMap<String, u64>,
    pub viols: Vec<(String, String)>,
    pub dead: bool,
    pub reported: Vec<u64>,
    buf: Vec<u8>,
    pub nops: u64,
}

impl<'m> Driver<'m> {
    pub fn new(m: &'m Model, file: &Arc<[u8]>, flavor: Flavor, index_name: &str, index: gzi::Index) -> Self {
        let index_entries = index.as_ref().to_vec();
        let rd = Rd::new(flavor, file, &index);
        let mut d = Driver {
            m,
            rd,
            flavor,
            index,
            index_entries,
            index_name: index_name.to_string(),
            p: 0,
            last_raw: 0,
            held_end: None,
            touched: false,
            prev: "start".into(),
            log: VecDeque::new(),
            stats: BTreeMap::new(),
            viols: Vec::new(),
            dead: false,
            reported: Vec::new(),
            buf: Vec::new(),
            nops: 0,
        };
        // a fresh reader is at flat offset 0
        d.check_vpos("new", false);
        d
    }

    pub fn stat(&mut self, k: &str, n: u64) {
        *self.stats.entry(k.to_string()).or_insert(0) += n;
    }

    fn note(&mut self, s: String) {
        if self.log.len() >= 14 {
            self.log.pop_front();
        }
        self.log.push_back(s);
    }

    fn desc(&self, what: &str) -> String {
        let ops: Vec<&str> = self.log.iter().map(|s| s.as_str()).collect();
        format!("{what}; {} over Cursor; model cursor p={}; {}; last operations: {}", self.flavor.name(), self.p, self.m.describe(), ops.join(" → "))
    }

    /// generic violation: reader and model may have diverged, the history ends
    fn fail(&mut self, sig: String, what: String) {
        let sig = format!("{sig}{}", self.flavor.suffix());
        let d = self.desc(&what);
        if !self.viols.iter().any(|v| v.0 == sig) {
            self.viols.push((sig, d));
        }
        self.dead = true;
    }

    /// violation of a diagnosed class after which the history can continue
    fn record(&mut self, sig: &str, what: String) {
        let sig = format!("{sig}{}", self.flavor.suffix());
        let d = self.desc(&what);
        if !self.viols.iter().any(|v| v.0 == sig) {
            self.viols.push((sig, d));
        }
    }

    /// coarse context of an operation for signatures (the description carries the exact history)
    fn ctx(&self) -> &'static str {
        if self.prev.starts_with("seek[") || self.prev == "resync" {
            "after-seek"
        } else if self.prev.starts_with("gzi_seek") {
            "after-gzi-seek"
        } else if self.prev == "start" {
            "first-operation"
        } else {
            "sequential"
        }
    }

    fn exhausted(&self) -> bool {
        self.held_end.is_none_or(|e| self.p >= e)
    }

    fn block_end_of_byte(&self, q: u64) -> u64 {
        let b = &self.m.blocks[self.m.block_of_byte(q)];
        b.start + b.len as u64
    }

    /// bytes left in the block that holds byte `p` (0 at end of data)
    pub fn rem_in_block(&self) -> u64 {
        if self.p < self.m.total() { self.block_end_of_byte(self.p) - self.p } else { 0 }
    }

    fn check_vpos(&mut self, op: &str, sequential: bool) {
        let ctx = self.ctx().to_string();
        self.check_vpos_ctx(op, &ctx, sequential);
    }

    fn check_vpos_ctx(&mut self, op: &str, ctx: &str, sequential: bool) {
        if self.dead {
            return;
        }
        let via_trait = self.nops % 3 == 1;
        let rd = &self.rd;
        let got = match guard::catch(|| rd.vpos(via_trait)) {
            Ok(g) => g,
            Err(pi) => {
                self.fail(format!("panic:{}", pi.sig), format!("virtual_position() panicked after {op}: {}", pi.message));
                return;
            }
        };
        self.stat("positions_compared", 1);
        match self.m.flat(got) {
            None => {
                let (s, w) = (
                    format!("vpos-not-a-byte-boundary:{op}:{ctx}"),
                    format!("after {op} the reader reports {} which names no byte boundary of the file", show(got)),
                );
                self.fail(s, w);
                return;
            }
            Some(q) if q != self.p => {
                let (s, w) = (
                    format!("vpos-mismatch:{op}:{ctx}"),
                    format!("after {op} the reader reports {} = flat offset {q}, the model is at {} (canonical {})", show(got), self.p, show(self.m.canonical(self.p))),
                );
                self.fail(s, w);
                return;
            }
            _ => {}
        }
        if sequential && got < self.last_raw {
            let (s, w) = (
                format!("vpos-decreased:{op}:{ctx}"),
                format!("raw virtual position went from {} to {} across the sequential operation {op}", show(self.last_raw), show(got)),
            );
            self.fail(s, w);
            return;
        }
        if self.m.classify(got) == Class::BlockEndNonCanonical {
            self.stat("noncanonical_positions_reported", 1);
        }
        self.last_raw = got;
        if self.reported.len() < 48 {
            self.reported.push(got);
        } else {
            let i = (self.nops as usize * 7 + 3) % 48;
            self.reported[i] = got;
        }
    }

    fn after_progress(&mut self, before: u64, loads_when_exhausted: bool) {
        if self.p > before {
            self.held_end = Some(self.block_end_of_byte(self.p - 1));
            self.touched = true;
        } else if loads_when_exhausted && self.exhausted() {
            self.touched = true;
            self.held_end = if self.p < self.m.total() { Some(self.block_end_of_byte(self.p)) } else { None };
        }
    }

    pub fn read(&mut self, n: usize) -> usize {
        if self.dead {
            return 0;
        }
        self.nops += 1;
        let tag = if n >= 65536 { "read[ge64k]" } else { "read[lt64k]" };
        let direct_eligible = n >= 65536 && self.exhausted();
        // (vec! of a u8 is a memset; Vec::resize is an element-wise loop, which matters under Miri)
        self.buf = vec![SENTINEL; n];
        let (rd, buf) = (&mut self.rd, &mut self.buf);
        let r = guard::catch(|| rd.read(&mut buf[..]));
        let k = match r {
            Err(pi) => {
                self.note(format!("read({n}) panicked"));
                self.fail(format!("panic:{}", pi.sig), format!("read({n}) panicked: {}", pi.message));
                return 0;
            }
            Ok(Err(e)) => {
                self.note(format!("read({n}) -> Err({:?})", e.kind()));
                self.fail(format!("unexpected-io-error:{tag}:{:?}:{}", e.kind(), self.ctx()), format!("read({n}) on a valid file failed: {e}"));
                return 0;
            }
            Ok(Ok(k)) => k,
        };
        self.note(format!("read({n}) -> {k}"));
        self.stat("ops[read]", 1);
        self.stat(if n >= 65536 { "reads[n>=65536]" } else if n == 0 { "reads[n=0]" } else { "reads[0<n<65536]" }, 1);
        if direct_eligible {
            self.stat("reads_ge_64k_at_exhausted_block(direct-decode path)", 1);
        }
        let rem = self.m.total() - self.p;
        if k > n {
            self.fail(format!("read-count-exceeds-buffer:{tag}"), format!("read({n}) returned {k}"));
            return 0;
        }
        if rem == 0 {
            if k != 0 {
                // diagnosis of the direct-decode path at the end of a file without an empty last block
                let untouched = self.buf[..k].iter().all(|&b| b == SENTINEL);
                let last_len = self.m.blocks.last().map(|b| b.len).unwrap_or(0);
                if n >= 65536 && !self.m.has_trailing_empty() && k == last_len && untouched {
                    self.record(
                        "direct-read-at-end-without-eof-marker-returns-stale-block-length",
                        format!("read({n}) at end of data returned {k} (= length of the last block) without writing the buffer; the file has no EOF marker"),
                    );
                    self.prev = tag.into();
                    return 0;
                }
                self.fail(format!("nonzero-read-at-end:{tag}:{}", self.ctx()), format!("read({n}) at end of data returned {k} bytes"));
                return 0;
            }
        } else if k == 0 && n > 0 {
            self.fail(format!("zero-read-before-end:{tag}:{}", self.ctx()), format!("read({n}) returned 0 with {rem} bytes of data left"));
            return 0;
        } else if k as u64 > rem {
            self.fail(format!("read-beyond-end:{tag}:{}", self.ctx()), format!("read({n}) returned {k} bytes, only {rem} are left"));
            return 0;
        } else {
            let want = &self.m.u[self.p as usize..self.p as usize + k];
            if self.buf[..k] != *want {
                let at = self.buf[..k].iter().zip(want).position(|(a, b)| a != b).unwrap();
                self.fail(
                    format!("data-mismatch:{tag}:{}", self.ctx()),
                    format!("read({n}) returned {k} bytes that differ from U[{}..] at index {at} (got {:#04x}, want {:#04x})", self.p, self.buf[at], want[at]),
                );
                return 0;
            }
            self.stat("bytes_compared", k as u64);
        }
        let before = self.p;
        self.p += k as u64;
        self.after_progress(before, n < 65536);
        self.check_vpos(tag, true);
        self.prev = tag.into();
        k
    }

    pub fn read_exact(&mut self, n: usize) {
        if self.dead {
            return;
        }
        self.nops += 1;
        let tag = "read_exact";
        // (vec! of a u8 is a memset; Vec::resize is an element-wise loop, which matters under Miri)
        self.buf = vec![SENTINEL; n];
        let (rd, buf) = (&mut self.rd, &mut self.buf);
        let r = guard::catch(|| rd.read_exact(&mut buf[..]));
        let rem = self.m.total() - self.p;
        self.stat("ops[read_exact]", 1);
        let before = self.p;
        match r {
            Err(pi) => {
                self.note(format!("read_exact({n}) panicked"));
                self.fail(format!("panic:{}", pi.sig), format!("read_exact({n}) panicked: {}", pi.message));
                return;
            }
            Ok(Ok(())) => {
                self.note(format!("read_exact({n}) -> Ok"));
                if n as u64 > rem {
                    let last_len = self.m.blocks.last().map(|b| b.len).unwrap_or(0);
                    if !self.m.has_trailing_empty() && last_len == 65536 && (n as u64 - rem) % 65536 == 0 && self.flavor != Flavor::Mt {
                        self.record(
                            "direct-read-exact-at-end-without-eof-marker-succeeds-with-stale-block-length",
                            format!("read_exact({n}) succeeded although only {rem} bytes were left; the file has no EOF marker and its last block holds 65536 bytes"),
                        );
                        self.p = self.m.total();
                        self.held_end = None;
                        self.check_vpos(tag, true);
                        self.prev = tag.into();
                        return;
                    }
                    self.fail(format!("read-exact-unexpected-success:{}", self.ctx()), format!("read_exact({n}) succeeded although only {rem} bytes were left"));
                    return;
                }
                let want = &self.m.u[self.p as usize..self.p as usize + n];
                if self.buf[..] != *want {
                    let at = self.buf.iter().zip(want).position(|(a, b)| a != b).unwrap();
                    self.fail(
                        format!("data-mismatch:{tag}:{}", self.ctx()),
                        format!("read_exact({n}) delivered bytes that differ from U[{}..] at index {at} (got {:#04x}, want {:#04x})", self.p, self.buf[at], want[at]),
                    );
                    return;
                }
                self.stat("bytes_compared", n as u64);
                self.p += n as u64;
            }
            Ok(Err(e)) => {
                self.note(format!("read_exact({n}) -> Err({:?})", e.kind()));
                if n as u64 <= rem {
                    self.fail(format!("read-exact-unexpected-failure:{:?}:{}", e.kind(), self.ctx()), format!("read_exact({n}) failed ({e}) although {rem} bytes were left"));
                    return;
                }
                if e.kind() != io::ErrorKind::UnexpectedEof {
                    self.fail(format!("read-exact-wrong-error-kind:{:?}:{}", e.kind(), self.ctx()), format!("read_exact({n}) with {rem} bytes left failed with {e}, not UnexpectedEof"));
                    return;
                }
                self.stat("read_exact_unexpected_eof_as_modelled", 1);
                // How much a failed read_exact consumed is unspecified: re-synchronise the model
                // cursor from the reader's report, which must lie in [p, |U|].
                let rd = &self.rd;
                match guard::catch(|| rd.vpos(false)).ok().and_then(|g| self.m.flat(g)) {
                    Some(q) if q >= self.p && q <= self.m.total() => self.p = q,
                    other => {
                        self.fail(format!("vpos-after-failed-read-exact:{}", self.ctx()), format!("after the failed read_exact({n}) the reader's position maps to {other:?}, outside [{}, {}]", self.p, self.m.total()));
                        return;
                    }
                }
            }
        }
        self.after_progress(before, n > 0);
        self.check_vpos(tag, true);
        self.prev = tag.into();
    }

    /// fill_buf followed by consume calls chosen by `sel`
    pub fn fill_consume(&mut self, sel: u64) {
        if self.dead {
            return;
        }
        self.nops += 1;
        let rem = self.m.total() - self.p;
        let (rd, m, p) = (&mut self.rd, self.m, self.p as usize);
        let r = guard::catch(|| {
            rd.fill_buf().map(|s| {
                let l = s.len();
                let bad = if l as u64 > rem { Some(usize::MAX) } else { s.iter().zip(&m.u[p..p + l]).position(|(a, b)| a != b) };
                (l, bad)
            })
        });
        self.stat("ops[fill_buf]", 1);
        let l = match r {
            Err(pi) => {
                self.note("fill_buf() panicked".into());
                self.fail(format!("panic:{}", pi.sig), format!("fill_buf() panicked: {}", pi.message));
                return;
            }
            Ok(Err(e)) => {
                self.note(format!("fill_buf() -> Err({:?})", e.kind()));
                self.fail(format!("unexpected-io-error:fill_buf:{:?}:{}", e.kind(), self.ctx()), format!("fill_buf() on a valid file failed: {e}"));
                return;
            }
            Ok(Ok((l, bad))) => {
                self.note(format!("fill_buf() -> {l} bytes"));
                if rem > 0 && l == 0 {
                    self.fail(format!("fill-buf-empty-before-end:{}", self.ctx()), format!("fill_buf() is empty with {rem} bytes of data left"));
                    return;
                }
                match bad {
                    Some(usize::MAX) => {
                        self.fail(format!("fill-buf-beyond-end:{}", self.ctx()), format!("fill_buf() shows {l} bytes, only {rem} are left"));
                        return;
                    }
                    Some(at) => {
                        self.fail(format!("data-mismatch:fill_buf:{}", self.ctx()), format!("fill_buf() shows {l} bytes that differ from U[{}..] at index {at}", self.p));
                        return;
                    }
                    None => {}
                }
                self.stat("bytes_compared", l as u64);
                l
            }
        };
        let before = self.p;
        self.after_progress(before, true);
        self.check_vpos("fill_buf", true);
        self.prev = "fill_buf".into();
        let amounts: Vec<usize> = match sel % 6 {
            0 => vec![0],
            1 | 2 => vec![l],
            3 => vec![l.min(1)],
            4 => vec![if l > 0 { (sel >> 8) as usize % (l + 1) } else { 0 }],
            _ => {
                let a = if l > 0 { (sel >> 8) as usize % (l + 1) } else { 0 };
                vec![a, l - a]
            }
        };
        for a in amounts {
            if self.dead {
                return;
            }
            let rd = &mut self.rd;
            if let Err(pi) = guard::catch(|| rd.consume(a)) {
                self.note(format!("consume({a}) panicked"));
                self.fail(format!("panic:{}", pi.sig), format!("consume({a}) panicked: {}", pi.message));
                return;
            }
            self.note(format!("consume({a})"));
            self.stat("ops[consume]", 1);
            self.p += a as u64;
            self.check_vpos("consume", true);
            self.prev = "consume".into();
        }
    }

    fn bookkeep_seek(&mut self, target_block: Option<usize>) {
        // first non-empty block at or after the target block (what a reader has to load)
        self.held_end = target_block
            .and_then(|i| self.m.blocks[i..].iter().find(|b| b.len > 0))
            .map(|b| b.start + b.len as u64);
    }

    /// seek to a virtual position that names a byte boundary; `origin` only labels the evidence
    pub fn seek_v(&mut self, rawv: u64, via_trait: bool, origin: &str) {
        if self.dead {
            return;
        }
        self.nops += 1;
        let class = self.m.classify(rawv);
        assert!(
            !matches!(class, Class::NotABoundary | Class::BlockEndNonCanonical),
            "harness: seek target {} is out of the property's scope",
            show(rawv)
        );
        let target = self.m.flat(rawv).unwrap();
        let tag = format!("seek[{}]", class.name());
        let rd = &mut self.rd;
        let r = guard::catch(|| rd.seek_v(rawv, via_trait));
        self.stat("ops[seek]", 1);
        self.stat(&format!("seeks[{}]", class.name()), 1);
        self.stat(&format!("seek_origin[{origin}]"), 1);
        match r {
            Err(pi) => {
                self.note(format!("seek{} panicked", show(rawv)));
                self.fail(format!("panic:{}", pi.sig), format!("seek to {} ({}) panicked: {}", show(rawv), class.name(), pi.message));
                return;
            }
            Ok(Err(e)) => {
                self.note(format!("seek{} -> Err({:?})", show(rawv), e.kind()));
                self.fail(format!("seek-failed:{tag}:{:?}", e.kind()), format!("seek to {} ({}) failed: {e}", show(rawv), class.name()));
                return;
            }
            Ok(Ok(ret)) => {
                self.note(format!("seek{}[{}]", show(rawv), class.name()));
                // the returned value is a reported position: it has to denote the target byte
                // (noodles echoes the argument; a canonicalised position would be just as good)
                if self.m.flat(ret) != Some(target) {
                    self.fail(format!("seek-returned-position-of-other-byte:{tag}"), format!("seek to {} (flat offset {target}) returned {} = flat offset {:?}", show(rawv), show(ret), self.m.flat(ret)));
                    return;
                }
            }
        }
        let fresh = !self.touched;
        self.p = target;
        self.bookkeep_seek(self.m.block_at_offset(rawv >> 16));
        if !class.is_file_end() {
            self.touched = true;
        }
        // denoted position right after the seek
        let rd = &self.rd;
        let got = match guard::catch(|| rd.vpos(false)) {
            Ok(g) => g,
            Err(pi) => {
                self.fail(format!("panic:{}", pi.sig), format!("virtual_position() panicked after {tag}: {}", pi.message));
                return;
            }
        };
        self.stat("positions_compared", 1);
        let q = self.m.flat(got);
        if q != Some(self.p) {
            if class.is_file_end() {
                self.diagnose_file_end_seek(class, rawv, got, q, fresh);
            } else {
                let what = format!(
                    "after the seek to {} ({}, flat offset {}) the reader reports {} = flat offset {q:?}",
                    show(rawv),
                    class.name(),
                    self.p,
                    show(got)
                );
                self.fail(format!("vpos-mismatch:{tag}"), what);
            }
            return;
        }
        self.last_raw = got;
        self.prev = tag;
    }

    /// The seek target was `(file length, 0)` and the reported position is wrong. Find out what
    /// the reader does next, derive the signature, and put the reader back into a clean state.
    fn diagnose_file_end_seek(&mut self, class: Class, rawv: u64, got: u64, q: Option<u64>, fresh: bool) {
        let mut b = [0u8; 16];
        let rd = &mut self.rd;
        let k = guard::catch(|| rd.read(&mut b)).ok().and_then(|r| r.ok());
        let total = self.m.total();
        let what = format!(
            "seek to {} ({}; flat offset {total} = end of data): the reader then reports {} = flat offset {q:?} and read(16) returns {k:?}",
            show(rawv),
            class.name(),
            show(got)
        );
        let mut known = None;
        if let (Some(q), Some(k)) = (q, k) {
            // What is delivered is the reader's block *buffer*: the bytes of the block it held before
            // the seek, or older garbage if that block had been decoded straight into a caller's
            // buffer (>= 64 KiB read) — so the content is not compared, only "bytes at end of data".
            let _ = q;
            if k > 0 {
                known = Some(if class == Class::FileEndNoEof {
                    "seek-to-end-without-eof-marker-redelivers-stale-block"
                } else {
                    "seek-past-eof-marker-redelivers-stale-block"
                });
            } else if k == 0 && got == 0 {
                // only a reader whose block is still the default one (nothing loaded yet) can get here:
                // a loaded non-empty block would have been re-delivered (k > 0)
                let _ = fresh;
                known = Some("seek-to-file-end-on-fresh-reader-reports-position-zero");
            }
        }
        match known {
            None => self.fail(format!("vpos-mismatch:seek[{}]", class.name()), what),
            Some(sig) => {
                let what = if sig.ends_with("stale-block") {
                    format!("{what} — the content of the block buffer the reader held before the seek (expected: 0 bytes, end of data)")
                } else {
                    what
                };
                self.record(sig, what);
                self.resync();
            }
        }
    }

    /// Seek to the first block: reloads everything, so the history can continue after a diagnosed
    /// defect of the file-end seek.
    fn resync(&mut self) {
        if self.m.blocks.is_empty() {
            self.dead = true;
            return;
        }
        let rd = &mut self.rd;
        let ok = matches!(guard::catch(|| rd.seek_v(raw(0, 0), false)), Ok(Ok(_)));
        if !ok {
            self.dead = true;
            return;
        }
        self.note("resync: seek(0,0)".into());
        self.p = 0;
        self.touched = true;
        self.bookkeep_seek(Some(0));
        self.prev = "resync".into();
        self.check_vpos("resync", false);
    }

    /// true iff `query(|U|)` cannot be expressed: the last indexed block holds 65 536 bytes, so the
    /// in-block offset does not fit into 16 bits and the index has no later entry to use instead
    fn gzi_end_unrepresentable(&self) -> bool {
        let last = self.index_entries.last().map(|e| e.1).unwrap_or(0);
        self.m.total() - last >= 65536
    }

    pub fn seek_u(&mut self, off: u64, via_trait: bool) {
        if self.dead {
            return;
        }
        assert!(off <= self.m.total(), "harness: gzi seek beyond the end of data is out of scope");
        self.nops += 1;
        let class = self.m.classify(self.m.canonical(off));
        let tag = format!("gzi_seek[{}]", class.name());
        let (rd, index) = (&mut self.rd, &self.index);
        let r = guard::catch(|| rd.seek_u(index, off, via_trait));
        self.stat("ops[gzi_seek]", 1);
        self.stat(&format!("gzi_seeks[{}]", class.name()), 1);
        match r {
            Err(pi) => {
                self.note(format!("gzi_seek({off}) panicked"));
                self.fail(format!("panic:{}", pi.sig), format!("seek by uncompressed offset {off} panicked: {}", pi.message));
                return;
            }
            Ok(Err(e)) => {
                self.note(format!("gzi_seek({off}) -> Err({:?})", e.kind()));
                if off == self.m.total() && e.kind() == io::ErrorKind::InvalidData && self.gzi_end_unrepresentable() {
                    // format-inherent: (last block, 65536) is not a virtual position
                    self.stat("gzi_seek_to_end_unrepresentable(tolerated)", 1);
                    // the query fails before the reader is touched: nothing may have moved
                    self.check_vpos(&tag, true);
                    return;
                }
                self.fail(format!("gzi-seek-failed:{tag}:{:?}:index={}", e.kind(), self.index_name), format!("seek by uncompressed offset {off} of {} failed: {e}", self.m.total()));
                return;
            }
            Ok(Ok(ret)) => {
                self.note(format!("gzi_seek({off})[{}]", class.name()));
                if ret != off {
                    self.fail(format!("gzi-seek-returned-other-offset:{tag}:index={}", self.index_name), format!("seek by uncompressed offset {off} returned {ret}"));
                    return;
                }
            }
        }
        self.p = off;
        self.touched = true;
        // the index entry used names the block that holds byte `off` or an earlier boundary
        self.held_end = if off < self.m.total() { Some(self.block_end_of_byte(off)) } else { None };
        let ctx = format!("index={}", self.index_name);
        self.check_vpos_ctx(&tag, &ctx, false);
        self.prev = tag;
    }

    /// read(n) in a loop until it returns 0 (what `read_to_end` does, with a fixed buffer size)
    pub fn read_all(&mut self, chunk: usize) {
        let mut guard_n = 0u64;
        while !self.dead {
            let k = self.read(chunk);
            guard_n += 1;
            if k == 0 || guard_n > 1_000_000 {
                break;
            }
        }
    }
}
