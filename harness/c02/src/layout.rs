//! Block layouts: built by the harness' own member builder (stored / deflated members, so layouts
//! the noodles writer never emits are covered) or produced by the real `bgzf::io::Writer`.

use std::{
    collections::HashMap,
    io::Write,
    sync::{Arc, Mutex, OnceLock},
};

use noodles_bgzf as bgzf;
use serde_json::{Value, json};
use vcore::{Rng, bgzf as ob, payload};

use crate::model::Model;

/// payload classes whose windows identify their position (no constant / short-period data)
pub const DISTINCT_SMALL: &[&str] = &["dna", "text", "skewed", "qualities", "two_symbols", "random", "random_with_repeats"];
/// ... that also compress well enough for a 65 536-byte member
pub const DISTINCT_BIG: &[&str] = &["dna", "text", "skewed", "qualities", "two_symbols"];

#[derive(Clone, Debug)]
pub enum LayoutSpec {
    /// explicit inflated block lengths; `enc`: 0 = stored, 1 = deflate(1), 2 = deflate(6), 3 = mixed per block
    Built { lens: Vec<u32>, enc: u8, eofs: u8, class: String, cseed: u64 },
    /// explicit members `(inflated length, required total member size)`: the member is built so that
    /// its compressed size (BSIZE + 1) is exactly the required total (0 = no requirement, deflate(1)).
    /// Covers BSIZE width boundaries (0x00ff/0x0100, 0x7fff/0x8000, 0xfffe/0xffff) that neither the
    /// plain stored/deflated builder nor the noodles writer hits.
    Sized { members: Vec<(u32, u32)>, eofs: u8, class: String, cseed: u64 },
    /// real writer: `total` payload bytes, split pattern, flush after every k-th write (0 = never),
    /// end = "finish" | "no_eof" (flush + into_inner) | "double_eof" (try_finish + finish)
    Writer { total: usize, class: String, split: String, flush_every: usize, level: u8, end: String, pseed: u64 },
}

impl LayoutSpec {
    pub fn to_json(&self) -> Value {
        match self {
            LayoutSpec::Built { lens, enc, eofs, class, cseed } => {
                json!({"kind": "built", "lens": lens, "enc": enc, "eofs": eofs, "class": class, "cseed": cseed})
            }
            LayoutSpec::Sized { members, eofs, class, cseed } => {
                json!({"kind": "sized", "members(len,total)": members, "eofs": eofs, "class": class, "cseed": cseed})
            }
            LayoutSpec::Writer { total, class, split, flush_every, level, end, pseed } => {
                json!({"kind": "writer", "total": total, "class": class, "split": split, "flush_every": flush_every,
                       "level": level, "end": end, "pseed": pseed})
            }
        }
    }
}

pub struct Built {
    pub file: Arc<[u8]>,
    pub model: Model,
}

type Key = (u64, String, usize, usize, u8);
type Entry = Arc<(Vec<u8>, Vec<u8>)>;

fn cache() -> &'static Mutex<HashMap<Key, Entry>> {
    static C: OnceLock<Mutex<HashMap<Key, Entry>>> = OnceLock::new();
    C.get_or_init(|| Mutex::new(HashMap::new()))
}

/// (inflated data, member bytes) of block `j` with `len` bytes; content is a function of
/// `(cseed, class, len, j)` only, so enumerated layouts share members through the cache.
fn member(cseed: u64, class: &str, len: usize, j: usize, enc: u8) -> Entry {
    let key = (cseed, class.to_string(), len, j, enc);
    if let Some(e) = cache().lock().unwrap().get(&key) {
        return e.clone();
    }
    let mut rng = Rng::new(cseed, len as u64, j as u64);
    let data = payload::make(class, len, &mut rng);
    let want = match enc {
        0 => ob::Enc::Stored,
        1 => ob::Enc::Deflate(1),
        _ => ob::Enc::Deflate(6),
    };
    let m = ob::build_member(&data, want)
        .or_else(|| ob::build_member(&data, ob::Enc::Deflate(6)))
        .or_else(|| ob::build_member(&data, ob::Enc::Stored))
        .unwrap_or_else(|| panic!("harness: block of {len} bytes of class {class} does not fit into a BGZF member"));
    let e = Arc::new((data, m));
    let mut c = cache().lock().unwrap();
    if c.len() > 400 {
        c.clear();
    }
    c.insert(key, e.clone());
    e
}

/// `Err` = the layout could not be established (walker rejects the real writer's output, or its
/// inflation differs from the payload): C01's business, inconclusive here.
fn wrap_member(data: &[u8], cdata: &[u8]) -> Vec<u8> {
    let size = 18 + cdata.len() + 8;
    assert!(size <= 65536);
    let mut m = Vec::with_capacity(size);
    m.extend_from_slice(&[0x1f, 0x8b, 0x08, 0x04, 0, 0, 0, 0, 0, 0xff, 6, 0, b'B', b'C', 2, 0]);
    m.extend_from_slice(&((size - 1) as u16).to_le_bytes());
    m.extend_from_slice(cdata);
    m.extend_from_slice(&ob::crc32(data).to_le_bytes());
    m.extend_from_slice(&(data.len() as u32).to_le_bytes());
    m
}

/// non-final stored DEFLATE blocks (RFC 1951 3.2.4); they end byte-aligned, so another raw DEFLATE
/// stream may follow
fn stored_nonfinal(data: &[u8], out: &mut Vec<u8>) {
    for c in data.chunks(65535) {
        out.push(0);
        let n = c.len() as u16;
        out.extend_from_slice(&n.to_le_bytes());
        out.extend_from_slice(&(!n).to_le_bytes());
        out.extend_from_slice(c);
    }
}

/// A BGZF member for `data` whose total size is exactly `total` bytes (BSIZE = total - 1):
/// one final stored block if that is the size; otherwise stored non-final blocks for a prefix,
/// 0..3 empty non-final stored blocks (`00 00 00 ff ff`) as padding, and a miniz-deflated tail whose
/// length is searched so that the sizes add up.
pub fn build_member_exact(data: &[u8], total: usize) -> Option<Vec<u8>> {
    let l = data.len();
    if total < 18 + 8 + 2 || total > 65536 || l > 65536 {
        return None;
    }
    let need = total - 26;
    if l <= 65535 && l + 5 == need {
        return Some(wrap_member(data, &ob::stored_deflate(data)));
    }
    for rem in 1..=l.min(6000) {
        let r = l - rem;
        let tail = vcore_deflate(&data[r..]);
        let prefix = r + 5 * r.div_ceil(65535);
        let base = prefix + tail.len();
        if base <= need && (need - base) % 5 == 0 && (need - base) / 5 <= 3 {
            let mut cdata = Vec::with_capacity(need);
            stored_nonfinal(&data[..r], &mut cdata);
            for _ in 0..(need - base) / 5 {
                cdata.extend_from_slice(&[0, 0, 0, 0xff, 0xff]);
            }
            cdata.extend_from_slice(&tail);
            debug_assert_eq!(cdata.len(), need);
            return Some(wrap_member(data, &cdata));
        }
    }
    None
}

fn vcore_deflate(data: &[u8]) -> Vec<u8> {
    // the same independent encoder vcore::bgzf::build_member uses (miniz_oxide), reached through it:
    // strip the 18-byte header and the 8-byte trailer of a deflate(6) member
    let m = ob::build_member(data, ob::Enc::Deflate(6)).expect("small tail fits");
    m[18..m.len() - 8].to_vec()
}

fn sized_member(cseed: u64, class: &str, len: usize, total: usize, j: usize) -> Entry {
    let key = (cseed, format!("{class}#{total}"), len, j, 9);
    if let Some(e) = cache().lock().unwrap().get(&key) {
        return e.clone();
    }
    let mut rng = Rng::new(cseed, len as u64, j as u64);
    let data = payload::make(class, len, &mut rng);
    let m = if total == 0 {
        ob::build_member(&data, ob::Enc::Deflate(1)).or_else(|| ob::build_member(&data, ob::Enc::Stored)).expect("harness: member does not fit")
    } else {
        build_member_exact(&data, total)
            .unwrap_or_else(|| panic!("harness: no member of exactly {total} bytes for {len} bytes of class {class} (seed {cseed}, block {j})"))
    };
    assert!(total == 0 || m.len() == total);
    let e = Arc::new((data, m));
    cache().lock().unwrap().insert(key, e.clone());
    e
}

pub fn build(spec: &LayoutSpec) -> Result<Built, String> {
    let (file, expect): (Vec<u8>, Vec<u8>) = match spec {
        LayoutSpec::Built { lens, enc, eofs, class, cseed } => {
            let mut file = Vec::new();
            let mut u = Vec::new();
            let mut rng = Rng::new(*cseed, 0xE2C, 0);
            for (j, &len) in lens.iter().enumerate() {
                let e = if *enc == 3 { rng.below(3) as u8 } else { *enc };
                // big blocks need a compressible class; stored members hold at most 65 505 bytes
                let class: &str = if len as usize > 60000 && !DISTINCT_BIG.contains(&class.as_str()) { "dna" } else { class };
                let m = member(*cseed, class, len as usize, j, e);
                u.extend_from_slice(&m.0);
                file.extend_from_slice(&m.1);
            }
            for _ in 0..*eofs {
                file.extend_from_slice(&ob::EOF_MARKER);
            }
            (file, u)
        }
        LayoutSpec::Sized { members, eofs, class, cseed } => {
            let mut file = Vec::new();
            let mut u = Vec::new();
            for (j, &(len, total)) in members.iter().enumerate() {
                let m = sized_member(*cseed, class, len as usize, total as usize, j);
                u.extend_from_slice(&m.0);
                file.extend_from_slice(&m.1);
            }
            for _ in 0..*eofs {
                file.extend_from_slice(&ob::EOF_MARKER);
            }
            (file, u)
        }
        LayoutSpec::Writer { total, class, split, flush_every, level, end, pseed } => {
            let mut rng = Rng::new(*pseed, 0x3B1, 0);
            let data = payload::make(class, *total, &mut rng);
            let pieces = payload::split_pattern(split, *total, &mut rng);
            let lvl = bgzf::io::writer::CompressionLevel::new(*level).expect("level 0..=9");
            let mut w = bgzf::io::writer::Builder::default().set_compression_level(lvl).build_from_writer(Vec::new());
            let mut off = 0usize;
            for (i, &n) in pieces.iter().enumerate() {
                w.write_all(&data[off..off + n]).expect("harness: Vec sink cannot fail");
                off += n;
                if *flush_every > 0 && (i + 1) % *flush_every == 0 {
                    w.flush().expect("flush");
                }
            }
            let file = match end.as_str() {
                "finish" => w.finish().expect("finish"),
                "no_eof" => {
                    w.flush().expect("flush");
                    w.into_inner()
                }
                "double_eof" => {
                    w.try_finish().expect("try_finish");
                    w.finish().expect("finish")
                }
                e => panic!("bad end mode {e}"),
            };
            (file, data)
        }
    };
    let model = Model::from_file(&file).map_err(|e| format!("the independent walker rejects the layout: {e}"))?;
    if model.u != expect {
        return Err("the walker's inflation differs from the payload the layout was built from".into());
    }
    Ok(Built { file: Arc::from(file.into_boxed_slice()), model })
}
