//! Block layouts: built by the harness' own member builder (stored / deflated members, so layouts
//! the noodles writer never emits are covered) or produced by the real `bgzf::io::Writer`.

use std::{
    collections::HashMap,
    io::Write,
    sync::{Arc, Mutex, OnceLock},
};

use noodles_bgzf as bgzf;
use serde_json::{Value, json};
use vcore::{Rng, bgzf as ob, payload};

use crate::model::Model;

/// payload classes whose windows identify their position (no constant / short-period data)
pub const DISTINCT_SMALL: &[&str] = &["dna", "text", "skewed", "qualities", "two_symbols", "random", "random_with_repeats"];
/// ... that also compress well enough for a 65 536-byte member
pub const DISTINCT_BIG: &[&str] = &["dna", "text", "skewed", "qualities", "two_symbols"];

#[derive(Clone, Debug)]
pub enum LayoutSpec {
    /// explicit inflated block lengths; `enc`: 0 = stored, 1 = deflate(1), 2 = deflate(6), 3 = mixed per block
    Built { lens: Vec<u32>, enc: u8, eofs: u8, class: String, cseed: u64 },
    /// real writer: `total` payload bytes, split pattern, flush after every k-th write (0 = never),
    /// end = "finish" | "no_eof" (flush + into_inner) | "double_eof" (try_finish + finish)
    Writer { total: usize, class: String, split: String, flush_every: usize, level: u8, end: String, pseed: u64 },
}

impl LayoutSpec {
    pub fn to_json(&self) -> Value {
        match self {
            LayoutSpec::Built { lens, enc, eofs, class, cseed } => {
                json!({"kind": "built", "lens": lens, "enc": enc, "eofs": eofs, "class": class, "cseed": cseed})
            }
            LayoutSpec::Writer { total, class, split, flush_every, level, end, pseed } => {
                json!({"kind": "writer", "total": total, "class": class, "split": split, "flush_every": flush_every,
                       "level": level, "end": end, "pseed": pseed})
            }
        }
    }
}

pub struct Built {
    pub file: Arc<[u8]>,
    pub model: Model,
}

type Key = (u64, String, usize, usize, u8);
type Entry = Arc<(Vec<u8>, Vec<u8>)>;

fn cache() -> &'static Mutex<HashMap<Key, Entry>> {
    static C: OnceLock<Mutex<HashMap<Key, Entry>>> = OnceLock::new();
    C.get_or_init(|| Mutex::new(HashMap::new()))
}

/// (inflated data, member bytes) of block `j` with `len` bytes; content is a function of
/// `(cseed, class, len, j)` only, so enumerated layouts share members through the cache.
fn member(cseed: u64, class: &str, len: usize, j: usize, enc: u8) -> Entry {
    let key = (cseed, class.to_string(), len, j, enc);
    if let Some(e) = cache().lock().unwrap().get(&key) {
        return e.clone();
    }
    let mut rng = Rng::new(cseed, len as u64, j as u64);
    let data = payload::make(class, len, &mut rng);
    let want = match enc {
        0 => ob::Enc::Stored,
        1 => ob::Enc::Deflate(1),
        _ => ob::Enc::Deflate(6),
    };
    let m = ob::build_member(&data, want)
        .or_else(|| ob::build_member(&data, ob::Enc::Deflate(6)))
        .or_else(|| ob::build_member(&data, ob::Enc::Stored))
        .unwrap_or_else(|| panic!("harness: block of {len} bytes of class {class} does not fit into a BGZF member"));
    let e = Arc::new((data, m));
    let mut c = cache().lock().unwrap();
    if c.len() > 400 {
        c.clear();
    }
    c.insert(key, e.clone());
    e
}

/// `Err` = the layout could not be established (walker rejects the real writer's output, or its
/// inflation differs from the payload): C01's business, inconclusive here.
pub fn build(spec: &LayoutSpec) -> Result<Built, String> {
    let (file, expect): (Vec<u8>, Vec<u8>) = match spec {
        LayoutSpec::Built { lens, enc, eofs, class, cseed } => {
            let mut file = Vec::new();
            let mut u = Vec::new();
            let mut rng = Rng::new(*cseed, 0xE2C, 0);
            for (j, &len) in lens.iter().enumerate() {
                let e = if *enc == 3 { rng.below(3) as u8 } else { *enc };
                // big blocks need a compressible class; stored members hold at most 65 505 bytes
                let class: &str = if len as usize > 60000 && !DISTINCT_BIG.contains(&class.as_str()) { "dna" } else { class };
                let m = member(*cseed, class, len as usize, j, e);
                u.extend_from_slice(&m.0);
                file.extend_from_slice(&m.1);
            }
            for _ in 0..*eofs {
                file.extend_from_slice(&ob::EOF_MARKER);
            }
            (file, u)
        }
        LayoutSpec::Writer { total, class, split, flush_every, level, end, pseed } => {
            let mut rng = Rng::new(*pseed, 0x3B1, 0);
            let data = payload::make(class, *total, &mut rng);
            let pieces = payload::split_pattern(split, *total, &mut rng);
            let lvl = bgzf::io::writer::CompressionLevel::new(*level).expect("level 0..=9");
            let mut w = bgzf::io::writer::Builder::default().set_compression_level(lvl).build_from_writer(Vec::new());
            let mut off = 0usize;
            for (i, &n) in pieces.iter().enumerate() {
                w.write_all(&data[off..off + n]).expect("harness: Vec sink cannot fail");
                off += n;
                if *flush_every > 0 && (i + 1) % *flush_every == 0 {
                    w.flush().expect("flush");
                }
            }
            let file = match end.as_str() {
                "finish" => w.finish().expect("finish"),
                "no_eof" => {
                    w.flush().expect("flush");
                    w.into_inner()
                }
                "double_eof" => {
                    w.try_finish().expect("try_finish");
                    w.finish().expect("finish")
                }
                e => panic!("bad end mode {e}"),
            };
            (file, data)
        }
    };
    let model = Model::from_file(&file).map_err(|e| format!("the independent walker rejects the layout: {e}"))?;
    if model.u != expect {
        return Err("the walker's inflation differs from the payload the layout was built from".into());
    }
    Ok(Built { file: Arc::from(file.into_boxed_slice()), model })
}
