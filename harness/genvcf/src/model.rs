//! Plain description types of the VCF data model (no noodles types inside) and the tolerant
//! comparison the monitors use.

use std::fmt::Write as _;

/// `Number=` of an INFO/FORMAT definition. `LA/LR/LG/P/M` exist for FORMAT only (VCF >= 4.4/4.5).
#[derive(Clone, Copy, Debug, PartialEq, Eq, Hash)]
pub enum Num {
    Count(u32),
    A,
    R,
    G,
    Dot,
    LA,
    LR,
    LG,
    P,
    M,
}

impl Num {
    pub fn text(&self) -> String {
        match self {
            Num::Count(n) => n.to_string(),
            Num::A => "A".into(),
            Num::R => "R".into(),
            Num::G => "G".into(),
            Num::Dot => ".".into(),
            Num::LA => "LA".into(),
            Num::LR => "LR".into(),
            Num::LG => "LG".into(),
            Num::P => "P".into(),
            Num::M => "M".into(),
        }
    }

    /// Class name used in coverage counters: `0 1 n A R G . L P M`.
    pub fn class(&self) -> &'static str {
        match self {
            Num::Count(0) => "0",
            Num::Count(1) => "1",
            Num::Count(_) => "n",
            Num::A => "A",
            Num::R => "R",
            Num::G => "G",
            Num::Dot => ".",
            Num::LA | Num::LR | Num::LG => "L",
            Num::P => "P",
            Num::M => "M",
        }
    }

    pub fn is_scalar(&self) -> bool {
        matches!(self, Num::Count(1))
    }
}

#[derive(Clone, Copy, Debug, PartialEq, Eq, Hash)]
pub enum Ty {
    Flag,
    Integer,
    Float,
    Character,
    String,
}

impl Ty {
    pub fn text(&self) -> &'static str {
        match self {
            Ty::Flag => "Flag",
            Ty::Integer => "Integer",
            Ty::Float => "Float",
            Ty::Character => "Character",
            Ty::String => "String",
        }
    }
}

/// `##INFO=<...>` or `##FORMAT=<...>`.
#[derive(Clone, Debug, PartialEq)]
pub struct FieldDef {
    pub id: String,
    pub num: Num,
    pub ty: Ty,
    pub desc: String,
    pub idx: Option<usize>,
    /// optional fields (Source, Version, ...), in order
    pub extra: Vec<(String, String)>,
}

#[derive(Clone, Debug, PartialEq)]
pub struct FilterDef {
    pub id: String,
    pub desc: String,
    pub idx: Option<usize>,
    pub extra: Vec<(String, String)>,
}

#[derive(Clone, Debug, PartialEq)]
pub struct AltDef {
    pub id: String,
    pub desc: String,
    pub extra: Vec<(String, String)>,
}

#[derive(Clone, Debug, PartialEq)]
pub struct ContigDef {
    pub id: String,
    pub length: Option<usize>,
    pub md5: Option<String>,
    pub url: Option<String>,
    pub idx: Option<usize>,
    pub extra: Vec<(String, String)>,
}

/// Any other `##key=...` line. Lines with the same key are of the same kind; they need not be adjacent
/// and may repeat verbatim (noodles keeps one ordered collection per key).
#[derive(Clone, Debug, PartialEq)]
pub enum OtherLine {
    Unstructured { key: String, value: String },
    /// `##key=<ID=id,k=v,...>` (values of `fields` are written as quoted strings, except the
    /// `Number/Type/Values` fields of `META`)
    Structured { key: String, id: String, fields: Vec<(String, String)> },
}

impl OtherLine {
    pub fn key(&self) -> &str {
        match self {
            OtherLine::Unstructured { key, .. } | OtherLine::Structured { key, .. } => key,
        }
    }
}

#[derive(Clone, Debug, PartialEq)]
pub struct HeaderDesc {
    /// (4, 2) ..= (4, 5)
    pub fileformat: (u32, u32),
    pub infos: Vec<FieldDef>,
    pub filters: Vec<FilterDef>,
    pub formats: Vec<FieldDef>,
    pub alts: Vec<AltDef>,
    pub contigs: Vec<ContigDef>,
    pub others: Vec<OtherLine>,
    pub samples: Vec<String>,
}

impl HeaderDesc {
    pub fn info(&self, id: &str) -> Option<&FieldDef> {
        self.infos.iter().find(|d| d.id == id)
    }
    pub fn format(&self, id: &str) -> Option<&FieldDef> {
        self.formats.iter().find(|d| d.id == id)
    }
    pub fn at_least(&self, major: u32, minor: u32) -> bool {
        self.fileformat >= (major, minor)
    }
    pub fn has_explicit_idx(&self) -> bool {
        self.infos.iter().any(|d| d.idx.is_some())
            || self.formats.iter().any(|d| d.idx.is_some())
            || self.filters.iter().any(|d| d.idx.is_some())
            || self.contigs.iter().any(|d| d.idx.is_some())
    }
}

/// One allele call of a genotype. `phased` is the phasing *of this allele* (the separator written
/// before it; for the first allele the VCF >= 4.4 prefix / the BCF phase bit).
#[derive(Clone, Copy, Debug, PartialEq, Eq)]
pub struct GtAllele {
    pub allele: Option<u32>,
    pub phased: bool,
}

/// A typed value. Floats are kept as bit patterns so that comparisons are exact.
#[derive(Clone, Debug, PartialEq)]
pub enum Val {
    Flag,
    Int(i32),
    Float(u32),
    Char(char),
    Str(String),
    Ints(Vec<Option<i32>>),
    Floats(Vec<Option<u32>>),
    Chars(Vec<Option<char>>),
    Strs(Vec<Option<String>>),
    Gt(Vec<GtAllele>),
}

impl Val {
    pub fn kind(&self) -> &'static str {
        match self {
            Val::Flag => "Flag",
            Val::Int(_) => "Integer",
            Val::Float(_) => "Float",
            Val::Char(_) => "Character",
            Val::Str(_) => "String",
            Val::Ints(_) => "Integer[]",
            Val::Floats(_) => "Float[]",
            Val::Chars(_) => "Character[]",
            Val::Strs(_) => "String[]",
            Val::Gt(_) => "Genotype",
        }
    }

    pub fn is_array(&self) -> bool {
        matches!(self, Val::Ints(_) | Val::Floats(_) | Val::Chars(_) | Val::Strs(_))
    }

    pub fn array_len(&self) -> Option<usize> {
        match self {
            Val::Ints(v) => Some(v.len()),
            Val::Floats(v) => Some(v.len()),
            Val::Chars(v) => Some(v.len()),
            Val::Strs(v) => Some(v.len()),
            _ => None,
        }
    }

    /// An array consisting of exactly one missing entry (`.`): indistinguishable from a missing
    /// value in VCF text and in BCF.
    pub fn is_single_missing_array(&self) -> bool {
        match self {
            Val::Ints(v) => v.len() == 1 && v[0].is_none(),
            Val::Floats(v) => v.len() == 1 && v[0].is_none(),
            Val::Chars(v) => v.len() == 1 && v[0].is_none(),
            Val::Strs(v) => v.len() == 1 && v[0].is_none(),
            _ => false,
        }
    }
}

/// One data line.
#[derive(Clone, Debug, PartialEq)]
pub struct RecDesc {
    pub chrom: String,
    /// 1-based; 0 = the telomere position (`POS` 0, `variant_start() == None`)
    pub pos: u64,
    pub ids: Vec<String>,
    pub reference: String,
    pub alts: Vec<String>,
    /// f32 bit pattern
    pub qual: Option<u32>,
    /// empty = missing (`.`), `["PASS"]` = PASS
    pub filters: Vec<String>,
    /// in record order; `None` value = `KEY=.`
    pub info: Vec<(String, Option<Val>)>,
    /// FORMAT keys (empty iff the header has no samples)
    pub format: Vec<String>,
    /// one row per sample; a row may be shorter than `format` (trailing missing values dropped)
    pub samples: Vec<Vec<Option<Val>>>,
}

impl RecDesc {
    pub fn info_get(&self, key: &str) -> Option<&Option<Val>> {
        self.info.iter().find(|(k, _)| k == key).map(|(_, v)| v)
    }
    pub fn format_index(&self, key: &str) -> Option<usize> {
        self.format.iter().position(|k| k == key)
    }
}

/// Tolerances of a comparison (all format-inherent).
#[derive(Clone, Copy, Debug)]
pub struct Tol {
    /// every NaN equals every NaN (VCF text has one spelling of NaN)
    pub nan_any: bool,
    /// a sample row's trailing missing values may be dropped
    pub trailing_missing: bool,
    /// an array holding exactly one missing entry == a missing value
    pub single_missing_array: bool,
}

impl Tol {
    pub const TEXT: Tol = Tol { nan_any: true, trailing_missing: true, single_missing_array: true };
    /// floats by bit pattern
    pub const BITS: Tol = Tol { nan_any: false, trailing_missing: true, single_missing_array: true };
    pub const EXACT: Tol = Tol { nan_any: false, trailing_missing: false, single_missing_array: false };
}

fn f_eq(a: u32, b: u32, tol: &Tol) -> bool {
    a == b || (tol.nan_any && f32::from_bits(a).is_nan() && f32::from_bits(b).is_nan())
}

pub fn val_eq(a: &Val, b: &Val, tol: &Tol) -> bool {
    match (a, b) {
        (Val::Float(x), Val::Float(y)) => f_eq(*x, *y, tol),
        (Val::Floats(x), Val::Floats(y)) => {
            x.len() == y.len()
                && x.iter().zip(y).all(|(p, q)| match (p, q) {
                    (Some(p), Some(q)) => f_eq(*p, *q, tol),
                    (None, None) => true,
                    _ => false,
                })
        }
        _ => a == b,
    }
}

pub fn opt_val_eq(a: &Option<Val>, b: &Option<Val>, tol: &Tol) -> bool {
    let norm = |v: &Option<Val>| -> Option<Val> {
        match v {
            Some(x) if tol.single_missing_array && x.is_single_missing_array() => None,
            other => other.clone(),
        }
    };
    match (norm(a), norm(b)) {
        (None, None) => true,
        (Some(x), Some(y)) => val_eq(&x, &y, tol),
        _ => false,
    }
}

/// One differing field of two records.
#[derive(Clone, Debug)]
pub struct FieldDiff {
    /// `CHROM POS ID REF ALT QUAL FILTER INFO-keys INFO FORMAT-keys SAMPLE-count FORMAT`
    pub column: &'static str,
    /// INFO / FORMAT key, empty otherwise
    pub key: String,
    /// diagnostic class derived from the two values (see `classify`)
    pub class: String,
    pub detail: String,
}

pub fn show_val(v: &Option<Val>) -> String {
    match v {
        None => ".".into(),
        Some(Val::Float(b)) => format!("Float({:?}/{b:#010x})", f32::from_bits(*b)),
        Some(Val::Floats(x)) => {
            let mut s = String::from("Floats[");
            for (i, e) in x.iter().enumerate() {
                if i > 0 {
                    s.push(',');
                }
                match e {
                    Some(b) => {
                        let _ = write!(s, "{:?}/{b:#010x}", f32::from_bits(*b));
                    }
                    None => s.push('.'),
                }
            }
            s.push(']');
            s
        }
        Some(Val::Gt(g)) => {
            let mut s = String::from("Gt(");
            for a in g {
                s.push(if a.phased { '|' } else { '/' });
                match a.allele {
                    Some(n) => {
                        let _ = write!(s, "{n}");
                    }
                    None => s.push('.'),
                }
            }
            s.push(')');
            s
        }
        Some(other) => format!("{other:?}"),
    }
}

/// Diagnostic class of a value difference `expected -> got` (narrow, data-free).
pub fn classify(exp: &Option<Val>, got: &Option<Val>) -> String {
    match (exp, got) {
        (Some(e), None) => format!("{}->missing", e.kind()),
        (None, Some(g)) => format!("missing->{}", g.kind()),
        (None, None) => "none".into(),
        (Some(e), Some(g)) => {
            if e.kind() != g.kind() {
                return format!("{}->{}", e.kind(), g.kind());
            }
            match (e, g) {
                (Val::Gt(a), Val::Gt(b)) => {
                    if a.len() != b.len() {
                        "Genotype:ploidy".into()
                    } else if a.iter().zip(b).any(|(x, y)| x.allele != y.allele) {
                        "Genotype:allele".into()
                    } else {
                        let first = a[0].phased != b[0].phased;
                        let rest_missing = a.iter().zip(b).skip(1).any(|(x, y)| x.phased != y.phased && x.allele.is_none());
                        let rest_called = a.iter().zip(b).skip(1).any(|(x, y)| x.phased != y.phased && x.allele.is_some());
                        let first_missing = first && a[0].allele.is_none();
                        // a wrong phase bit of a missing allele also moves the implied first-allele
                        // phasing: name the root only
                        let mut parts = Vec::new();
                        if rest_missing || first_missing {
                            parts.push("missing-allele");
                        } else {
                            if first {
                                parts.push("first-allele");
                            }
                            if rest_called {
                                parts.push("called-allele");
                            }
                        }
                        format!("Genotype:phasing:{}", parts.join("+"))
                    }
                }
                (Val::Strs(a), Val::Strs(b)) => {
                    let j = |v: &Vec<Option<String>>| v.iter().map(|s| s.clone().unwrap_or_else(|| ".".into())).collect::<Vec<_>>().join(",");
                    if a.len() != b.len() {
                        if j(a) == j(b) { "String[]:resplit-on-comma".into() } else { "String[]:length".into() }
                    } else if a.iter().zip(b).all(|(x, y)| x == y || (x.as_deref() == Some(".") && y.is_none())) {
                        "String[]:lone-dot->missing".into()
                    } else {
                        "String[]:content".into()
                    }
                }
                (Val::Chars(a), Val::Chars(b)) => {
                    if a.len() != b.len() {
                        "Character[]:length".into()
                    } else if a.iter().zip(b).all(|(x, y)| x == y || (*x == Some('.') && y.is_none())) {
                        "Character[]:lone-dot->missing".into()
                    } else {
                        "Character[]:content".into()
                    }
                }
                (Val::Ints(a), Val::Ints(b)) => {
                    if a.len() != b.len() { "Integer[]:length".into() } else { "Integer[]:content".into() }
                }
                (Val::Floats(a), Val::Floats(b)) => {
                    if a.len() != b.len() { "Float[]:length".into() } else { "Float[]:content".into() }
                }
                _ => format!("{}:content", e.kind()),
            }
        }
    }
}

/// Field-wise comparison `exp` vs `got` under `tol`. Empty result = equal.
pub fn diff_records(exp: &RecDesc, got: &RecDesc, tol: &Tol) -> Vec<FieldDiff> {
    let mut out = Vec::new();
    let mut push = |column: &'static str, key: &str, class: String, detail: String| {
        out.push(FieldDiff { column, key: key.to_string(), class, detail });
    };
    if exp.chrom != got.chrom {
        push("CHROM", "", "content".into(), format!("{:?} vs {:?}", exp.chrom, got.chrom));
    }
    if exp.pos != got.pos {
        push("POS", "", "content".into(), format!("{} vs {}", exp.pos, got.pos));
    }
    if exp.ids != got.ids {
        push("ID", "", "content".into(), format!("{:?} vs {:?}", exp.ids, got.ids));
    }
    if exp.reference != got.reference {
        push("REF", "", "content".into(), format!("{:?} vs {:?}", exp.reference, got.reference));
    }
    if exp.alts != got.alts {
        push("ALT", "", "content".into(), format!("{:?} vs {:?}", exp.alts, got.alts));
    }
    let q_eq = match (exp.qual, got.qual) {
        (None, None) => true,
        (Some(a), Some(b)) => f_eq(a, b, tol),
        _ => false,
    };
    if !q_eq {
        let cls = match (exp.qual, got.qual) {
            (Some(_), None) => "value->missing",
            (None, Some(_)) => "missing->value",
            _ => "content",
        };
        push("QUAL", "", cls.into(), format!("{:?} vs {:?}", exp.qual.map(f32::from_bits), got.qual.map(f32::from_bits)));
    }
    if exp.filters != got.filters {
        push("FILTER", "", "content".into(), format!("{:?} vs {:?}", exp.filters, got.filters));
    }
    let ek: Vec<&String> = exp.info.iter().map(|e| &e.0).collect();
    let gk: Vec<&String> = got.info.iter().map(|e| &e.0).collect();
    if ek != gk {
        push("INFO-keys", "", "content".into(), format!("{ek:?} vs {gk:?}"));
    } else {
        for ((k, a), (_, b)) in exp.info.iter().zip(&got.info) {
            if !opt_val_eq(a, b, tol) {
                push("INFO", k, classify(a, b), format!("{} vs {}", show_val(a), show_val(b)));
            }
        }
    }
    if exp.format != got.format {
        push("FORMAT-keys", "", "content".into(), format!("{:?} vs {:?}", exp.format, got.format));
    } else if exp.samples.len() != got.samples.len() {
        push("SAMPLE-count", "", "content".into(), format!("{} vs {}", exp.samples.len(), got.samples.len()));
    } else {
        for (si, (ra, rb)) in exp.samples.iter().zip(&got.samples).enumerate() {
            let n = if tol.trailing_missing { exp.format.len() } else { ra.len().max(rb.len()) };
            if !tol.trailing_missing && ra.len() != rb.len() {
                push("FORMAT", "", "row-length".into(), format!("sample {si}: {} vs {} values", ra.len(), rb.len()));
                continue;
            }
            for fi in 0..n.max(ra.len()).max(rb.len()) {
                let a = ra.get(fi).cloned().unwrap_or(None);
                let b = rb.get(fi).cloned().unwrap_or(None);
                if !opt_val_eq(&a, &b, tol) {
                    let k = exp.format.get(fi).cloned().unwrap_or_else(|| format!("#{fi}"));
                    push("FORMAT", &k, classify(&a, &b), format!("sample {si}: {} vs {}", show_val(&a), show_val(&b)));
                }
            }
        }
    }
    out
}

/// Aspects in which two headers differ (empty = equal). `others` are compared grouped by key.
pub fn diff_headers(exp: &HeaderDesc, got: &HeaderDesc) -> Vec<(String, String)> {
    let mut out: Vec<(String, String)> = Vec::new();
    if exp.fileformat != got.fileformat {
        out.push(("fileformat".into(), format!("{:?} vs {:?}", exp.fileformat, got.fileformat)));
    }
    fn ids<T>(v: &[T], f: impl Fn(&T) -> &String) -> Vec<String> {
        v.iter().map(|x| f(x).clone()).collect()
    }
    macro_rules! cmp_list {
        ($name:literal, $a:expr, $b:expr, $id:expr, $body:expr) => {{
            let ia = ids($a, $id);
            let ib = ids($b, $id);
            if ia != ib {
                out.push((format!("{}.ids", $name), format!("{ia:?} vs {ib:?}")));
            } else {
                for (x, y) in $a.iter().zip($b.iter()) {
                    $body(x, y, &mut out);
                }
            }
        }};
    }
    let fd = |kind: &'static str| {
        move |x: &FieldDef, y: &FieldDef, out: &mut Vec<(String, String)>| {
            if x.num != y.num {
                out.push((format!("{kind}.Number"), format!("{}: {:?} vs {:?}", x.id, x.num, y.num)));
            }
            if x.ty != y.ty {
                out.push((format!("{kind}.Type"), format!("{}: {:?} vs {:?}", x.id, x.ty, y.ty)));
            }
            if x.desc != y.desc {
                out.push((format!("{kind}.Description"), format!("{}: {:?} vs {:?}", x.id, x.desc, y.desc)));
            }
            if x.idx != y.idx {
                out.push((format!("{kind}.IDX"), format!("{}: {:?} vs {:?}", x.id, x.idx, y.idx)));
            }
            if x.extra != y.extra {
                out.push((format!("{kind}.other-fields"), format!("{}: {:?} vs {:?}", x.id, x.extra, y.extra)));
            }
        }
    };
    cmp_list!("INFO", &exp.infos, &got.infos, |d: &FieldDef| &d.id, fd("INFO"));
    cmp_list!("FORMAT", &exp.formats, &got.formats, |d: &FieldDef| &d.id, fd("FORMAT"));
    cmp_list!("FILTER", &exp.filters, &got.filters, |d: &FilterDef| &d.id, |x: &FilterDef, y: &FilterDef, out: &mut Vec<(String, String)>| {
        if x.desc != y.desc {
            out.push(("FILTER.Description".into(), format!("{}: {:?} vs {:?}", x.id, x.desc, y.desc)));
        }
        if x.idx != y.idx {
            out.push(("FILTER.IDX".into(), format!("{}: {:?} vs {:?}", x.id, x.idx, y.idx)));
        }
        if x.extra != y.extra {
            out.push(("FILTER.other-fields".into(), format!("{}: {:?} vs {:?}", x.id, x.extra, y.extra)));
        }
    });
    cmp_list!("ALT", &exp.alts, &got.alts, |d: &AltDef| &d.id, |x: &AltDef, y: &AltDef, out: &mut Vec<(String, String)>| {
        if x.desc != y.desc {
            out.push(("ALT.Description".into(), format!("{}: {:?} vs {:?}", x.id, x.desc, y.desc)));
        }
        if x.extra != y.extra {
            out.push(("ALT.other-fields".into(), format!("{}: {:?} vs {:?}", x.id, x.extra, y.extra)));
        }
    });
    cmp_list!("contig", &exp.contigs, &got.contigs, |d: &ContigDef| &d.id, |x: &ContigDef, y: &ContigDef, out: &mut Vec<(String, String)>| {
        if x.length != y.length {
            out.push(("contig.length".into(), format!("{}: {:?} vs {:?}", x.id, x.length, y.length)));
        }
        if x.md5 != y.md5 {
            out.push(("contig.md5".into(), format!("{}: {:?} vs {:?}", x.id, x.md5, y.md5)));
        }
        if x.url != y.url {
            out.push(("contig.URL".into(), format!("{}: {:?} vs {:?}", x.id, x.url, y.url)));
        }
        if x.idx != y.idx {
            out.push(("contig.IDX".into(), format!("{}: {:?} vs {:?}", x.id, x.idx, y.idx)));
        }
        if x.extra != y.extra {
            out.push(("contig.other-fields".into(), format!("{}: {:?} vs {:?}", x.id, x.extra, y.extra)));
        }
    });
    // other lines: one ordered sequence per key (keys in order of first appearance)
    let keys_of = |v: &[OtherLine]| -> Vec<String> {
        let mut keys: Vec<String> = Vec::new();
        for l in v {
            if !keys.iter().any(|k| k == l.key()) {
                keys.push(l.key().to_string());
            }
        }
        keys
    };
    let (ka, kb) = (keys_of(&exp.others), keys_of(&got.others));
    if ka != kb {
        out.push(("other-lines.keys".into(), format!("{ka:?} vs {kb:?}")));
    }
    for k in &ka {
        let sa: Vec<&OtherLine> = exp.others.iter().filter(|l| l.key() == k).collect();
        let sb: Vec<&OtherLine> = got.others.iter().filter(|l| l.key() == k).collect();
        if sb.is_empty() || sa == sb {
            continue;
        }
        let kind = if matches!(sa[0], OtherLine::Unstructured { .. }) { "unstructured" } else { "structured" };
        let mut dedup: Vec<&OtherLine> = Vec::new();
        for l in &sa {
            if !dedup.contains(l) {
                dedup.push(l);
            }
        }
        let class = if sa.len() != sb.len() { if dedup == sb { "repeated-line-lost" } else { "count" } } else { "content-or-order" };
        out.push((format!("other-lines.{kind}.{class}"), format!("##{k}: {} vs {} lines: {sa:?} vs {sb:?}", sa.len(), sb.len())));
    }
    if exp.samples != got.samples {
        out.push(("samples".into(), format!("{:?} vs {:?}", exp.samples, got.samples)));
    }
    out
}
