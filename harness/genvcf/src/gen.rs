//! Generators of headers and records hitting the boundary classes of the C09/C10 quantifiers.

use vcore::Rng;

use crate::model::*;
use crate::text::implied_first_phasing;

/// Which strings / values are allowed.
#[derive(Clone, Copy, Debug, PartialEq, Eq)]
pub enum Model {
    /// Everything the VCF quantifier lists (reserved characters, lone `.`, undeclared keys, ...).
    Full,
    /// Values BCF can carry unchanged: no `,` `%` inside strings, no lone `.` string/character, no
    /// control characters, every contig/filter/INFO/FORMAT key declared in the header.
    Bcf,
    /// What everyday files contain: `[A-Za-z0-9_-]` strings, declared keys, finite floats.
    Common,
}

/// How `IDX=` is assigned to INFO/FILTER/FORMAT/contig lines.
#[derive(Clone, Copy, Debug, PartialEq, Eq)]
pub enum IdxMode {
    /// no IDX fields
    None,
    /// the indices the order of appearance gives anyway (`PASS` = 0)
    Natural,
    /// a permutation of `1..=n` (contigs: of `0..n`)
    Permuted,
    /// distinct indices with gaps, some above 127 and above 32767
    Sparse,
}

#[derive(Clone, Debug)]
pub struct HeaderOpts {
    /// `None` = drawn from 4.2..=4.5
    pub fileformat: Option<(u32, u32)>,
    pub max_samples: usize,
    pub idx: IdxMode,
    pub model: Model,
    /// ALT / other / META / PEDIGREE lines and optional fields
    pub extras: bool,
    /// lengths of generated contigs are at least this (used by `coordinate_sorted_set`)
    pub min_contig_len: Option<usize>,
    /// allow the FORMAT Number values VCF 4.5 adds (LA LR LG P M) in one 4.5 header out of six
    pub v45_numbers: bool,
}

impl Default for HeaderOpts {
    fn default() -> Self {
        HeaderOpts { fileformat: None, max_samples: 6, idx: IdxMode::None, model: Model::Full, extras: true, min_contig_len: None, v45_numbers: true }
    }
}

#[derive(Clone, Debug)]
pub struct RecOpts {
    pub model: Model,
    /// allow NaN floats
    pub nan: bool,
    /// allow integers in `-2^31 ..= -2^31+7` (invalid in VCF and BCF) at a low rate
    pub invalid_ints: bool,
    /// 1-in-`rare` records carry each of the rare shapes (missing INFO values, reserved characters in
    /// Character values, mixed ploidy, phased missing alleles, all-samples-missing arrays, ...)
    pub rare: u64,
}

impl HeaderOpts {
    /// everything the VCF quantifier lists (C09)
    pub fn full() -> Self {
        Self::default()
    }
    /// BCF-representable: declared contigs, no VCF 4.5-only Number values, given IDX mode (C10)
    pub fn bcf(idx: IdxMode) -> Self {
        HeaderOpts { idx, model: Model::Bcf, v45_numbers: false, ..Self::default() }
    }
    /// everyday headers: plain IDs, a few samples
    pub fn common() -> Self {
        HeaderOpts { model: Model::Common, extras: false, v45_numbers: false, max_samples: 4, ..Self::default() }
    }
    /// headers for index tests: contigs at least `min_len` long
    pub fn indexable(min_len: usize) -> Self {
        HeaderOpts { model: Model::Common, extras: false, v45_numbers: false, max_samples: 3, min_contig_len: Some(min_len), ..Self::default() }
    }
}

impl RecOpts {
    pub fn full() -> Self {
        Self::default()
    }
    pub fn bcf() -> Self {
        RecOpts { model: Model::Bcf, nan: true, invalid_ints: false, rare: 16 }
    }
    /// finite floats, plain strings, none of the rare shapes
    pub fn common() -> Self {
        RecOpts { model: Model::Common, nan: false, invalid_ints: false, rare: u64::MAX }
    }
}

impl Default for RecOpts {
    fn default() -> Self {
        RecOpts { model: Model::Full, nan: true, invalid_ints: false, rare: 12 }
    }
}

const LOWER: &[u8] = b"abcdefghijklmnopqrstuvwxyz";
const KEY_REST: &[u8] = b"abcdefghijklmnopqrstuvwxyzABCDEFGHIJKLMNOPQRSTUVWXYZ0123456789_.";
const ALNUM: &[u8] = b"abcdefghijklmnopqrstuvwxyzABCDEFGHIJKLMNOPQRSTUVWXYZ0123456789";

fn ident(rng: &mut Rng, min: usize, max: usize) -> String {
    // all reserved INFO/FORMAT keys are upper case, so a lower-case first letter never collides
    let mut s = String::new();
    s.push(if rng.chance(1, 10) { '_' } else { *rng.pick(LOWER) as char });
    let n = rng.urange(min.saturating_sub(1), max - 1);
    for _ in 0..n {
        s.push(*rng.pick(KEY_REST) as char);
    }
    s
}

fn word(rng: &mut Rng, n: usize) -> String {
    (0..n).map(|_| *rng.pick(ALNUM) as char).collect()
}

fn unique(rng: &mut Rng, used: &mut Vec<String>, f: impl Fn(&mut Rng) -> String) -> String {
    loop {
        let s = f(rng);
        if !used.contains(&s) {
            used.push(s.clone());
            return s;
        }
    }
}

/// Free text of header fields (Description etc.): printable, with quotes, backslashes, commas,
/// angle brackets, `=` and some non-ASCII.
fn header_text(rng: &mut Rng, model: Model) -> String {
    let n = rng.urange(0, 4);
    let mut parts: Vec<String> = Vec::new();
    for _ in 0..=n {
        let w = match if model == Model::Common { 0 } else { rng.below(12) } {
            0..=5 => { let n = rng.urange(1, 8); word(rng, n) }
            6 => "a \"quoted\" word".into(),
            7 => "back\\slash".into(),
            8 => "x=1,y=<2>".into(),
            9 => "Allélé fréquence µ".into(),
            10 => "semi;colon & 100%".into(),
            _ => "trailing\\".into(),
        };
        parts.push(w);
    }
    parts.join(" ")
}

fn extra_fields(rng: &mut Rng, model: Model, on: bool) -> Vec<(String, String)> {
    if !on || !rng.chance(1, 3) {
        return vec![];
    }
    let mut out = Vec::new();
    let keys = ["Source", "Version", "assembly", "species", "taxonomy", "Note"];
    let n = rng.urange(1, 3);
    let mut used = Vec::new();
    for _ in 0..n {
        let k = unique(rng, &mut used, |r| r.pick(&keys).to_string());
        out.push((k, header_text(rng, model)));
    }
    out
}

/// All INFO (Number x Type) combinations the quantifier names.
pub fn info_combos() -> Vec<(Num, Ty)> {
    let mut v = vec![(Num::Count(0), Ty::Flag)];
    for ty in [Ty::Integer, Ty::Float, Ty::Character, Ty::String] {
        for num in [Num::Count(1), Num::Count(2), Num::Count(3), Num::A, Num::R, Num::G, Num::Dot] {
            v.push((num, ty));
        }
    }
    v
}

pub fn format_combos(ext: bool) -> Vec<(Num, Ty)> {
    let mut v = Vec::new();
    for ty in [Ty::Integer, Ty::Float, Ty::Character, Ty::String] {
        for num in [Num::Count(1), Num::Count(2), Num::Count(4), Num::A, Num::R, Num::G, Num::Dot] {
            v.push((num, ty));
        }
        if ext {
            for num in [Num::LA, Num::LR, Num::LG, Num::P, Num::M] {
                v.push((num, ty));
            }
        }
    }
    v
}

const CONTIG_NAMES: &[&str] = &["1", "2", "X", "chr1", "chr2", "chrM", "GL000207.1", "HLA-A*01:01", "ctg|7", "scaffold_12;a", "c=d", "un:1-2", "NC_000001.11", "~tilde", "h#ash"];
const FILTER_NAMES: &[&str] = &["q10", "s50", "LowQual", "my.filter-1", "VQSRTrancheSNP99.00to99.90", "f:1", "x|y", "q=3", "ÅÄ"];
const SAMPLE_NAMES: &[&str] = &["NA00001", "NA00002", "S1", "S2", "sample 3", "s:4", "ü5", "S-6", "a=b", "HG002.bam", "x;y", "%s", "0"];

pub fn gen_header(rng: &mut Rng, o: &HeaderOpts) -> HeaderDesc {
    let ff = o.fileformat.unwrap_or_else(|| (4, 2 + rng.below(4) as u32));
    let common = o.model == Model::Common;
    let mut h = HeaderDesc { fileformat: ff, infos: vec![], filters: vec![], formats: vec![], alts: vec![], contigs: vec![], others: vec![], samples: vec![] };

    // INFO: span fields + a rotating window over every Number x Type
    let mut used: Vec<String> = Vec::new();
    if rng.chance(3, 4) || o.min_contig_len.is_some() {
        h.infos.push(FieldDef { id: "END".into(), num: Num::Count(1), ty: Ty::Integer, desc: "End position".into(), idx: None, extra: vec![] });
    }
    if rng.chance(3, 4) || o.min_contig_len.is_some() {
        let num = if ff >= (4, 4) { Num::A } else { Num::Dot };
        h.infos.push(FieldDef { id: "SVLEN".into(), num, ty: Ty::Integer, desc: "SV length".into(), idx: None, extra: vec![] });
    }
    if rng.chance(1, 3) {
        h.infos.push(FieldDef { id: "DP".into(), num: Num::Count(1), ty: Ty::Integer, desc: "Total depth".into(), idx: None, extra: vec![] });
    }
    if rng.chance(1, 3) {
        h.infos.push(FieldDef { id: "AF".into(), num: Num::A, ty: Ty::Float, desc: "Allele frequency".into(), idx: None, extra: vec![] });
    }
    let combos = info_combos();
    let start = rng.usize_below(combos.len());
    let n = rng.urange(if common { 3 } else { 5 }, 14);
    for i in 0..n {
        let (num, ty) = combos[(start + i * 7) % combos.len()];
        let num = match num {
            Num::Count(c) if c >= 2 => Num::Count(rng.urange(2, 5) as u32),
            other => other,
        };
        let id = unique(rng, &mut used, |r| if r.chance(1, 40) { "1000G".into() } else { ident(r, 1, 8) });
        let (num, ty) = if id == "1000G" { (Num::Count(0), Ty::Flag) } else { (num, ty) };
        h.infos.push(FieldDef { id, num, ty, desc: header_text(rng, o.model), idx: None, extra: extra_fields(rng, o.model, o.extras) });
    }
    rng.shuffle(&mut h.infos);

    // FILTER
    if rng.chance(1, 2) {
        h.filters.push(FilterDef { id: "PASS".into(), desc: "All filters passed".into(), idx: None, extra: vec![] });
    }
    let nf = rng.urange(0, 4);
    let mut fused = vec!["PASS".to_string()];
    for _ in 0..nf {
        let id = unique(rng, &mut fused, |r| if common { format!("f{}", r.below(50)) } else { r.pick(FILTER_NAMES).to_string() });
        h.filters.push(FilterDef { id, desc: header_text(rng, o.model), idx: None, extra: extra_fields(rng, o.model, o.extras) });
    }

    // samples
    let ns = match rng.below(10) {
        0 | 1 => 0,
        2..=4 => 1,
        5..=7 => rng.urange(2, 3),
        _ => rng.urange(4, o.max_samples.max(4)),
    }
    .min(o.max_samples);
    let mut sused = Vec::new();
    for i in 0..ns {
        let name = unique(rng, &mut sused, |r| if common || r.chance(1, 2) { format!("S{i}") } else { r.pick(SAMPLE_NAMES).to_string() });
        h.samples.push(name);
    }

    // FORMAT (defined even when there are no samples, as real files do)
    let mut kused: Vec<String> = Vec::new();
    if rng.chance(4, 5) {
        h.formats.push(FieldDef { id: "GT".into(), num: Num::Count(1), ty: Ty::String, desc: "Genotype".into(), idx: None, extra: vec![] });
    }
    if ff >= (4, 5) && rng.chance(1, 2) {
        h.formats.push(FieldDef { id: "LEN".into(), num: Num::Count(1), ty: Ty::Integer, desc: "Length of <*> reference block".into(), idx: None, extra: vec![] });
    }
    if rng.chance(1, 3) {
        h.formats.push(FieldDef { id: "DP".into(), num: Num::Count(1), ty: Ty::Integer, desc: "Read depth".into(), idx: None, extra: vec![] });
    }
    if rng.chance(1, 3) {
        h.formats.push(FieldDef { id: "AD".into(), num: Num::R, ty: Ty::Integer, desc: "Allelic depths".into(), idx: None, extra: vec![] });
    }
    // the Number values VCF 4.5 adds (LA/LR/LG/P/M) in one header out of six
    let fcombos = format_combos(o.v45_numbers && ff >= (4, 5) && rng.chance(1, 6));
    let fstart = rng.usize_below(fcombos.len());
    let nfmt = rng.urange(if common { 2 } else { 3 }, 10);
    for i in 0..nfmt {
        let (num, ty) = fcombos[(fstart + i * 5) % fcombos.len()];
        let num = match num {
            Num::Count(c) if c >= 2 => Num::Count(rng.urange(2, 5) as u32),
            other => other,
        };
        // now and then reuse an INFO id: INFO and FORMAT lines of one name share a BCF dictionary entry
        let id = if rng.chance(1, 6) && !used.is_empty() {
            let cand = rng.pick(&used).clone();
            if cand != "1000G" && !kused.contains(&cand) {
                kused.push(cand.clone());
                cand
            } else {
                unique(rng, &mut kused, |r| ident(r, 1, 8))
            }
        } else {
            unique(rng, &mut kused, |r| ident(r, 1, 8))
        };
        h.formats.push(FieldDef { id, num, ty, desc: header_text(rng, o.model), idx: None, extra: extra_fields(rng, o.model, o.extras) });
    }
    // GT stays where it is generated (first); shuffle the rest
    let gt = h.formats.iter().position(|d| d.id == "GT").map(|p| h.formats.remove(p));
    rng.shuffle(&mut h.formats);
    if let Some(gt) = gt {
        h.formats.insert(0, gt);
    }

    // contigs
    let nc = match (o.model, rng.below(6)) {
        (Model::Full, 0) => 0,
        (_, 0..=2) => 1,
        (_, 3 | 4) => rng.urange(2, 3),
        _ => rng.urange(4, 6),
    };
    let mut cused = Vec::new();
    for i in 0..nc {
        let id = unique(rng, &mut cused, |r| if common { format!("chr{}", i + 1) } else { r.pick(CONTIG_NAMES).to_string() });
        let minlen = o.min_contig_len.unwrap_or(0);
        let length = if o.min_contig_len.is_some() || rng.chance(2, 3) {
            Some(match rng.below(5) {
                0 => 1usize.max(minlen),
                1 => 16_569usize.max(minlen),
                2 => 248_956_422usize.max(minlen),
                3 => (1usize << 29).max(minlen),
                _ => (rng.skewed(1 << 31) as usize).max(1).max(minlen),
            })
        } else {
            None
        };
        let md5 = if o.extras && rng.chance(1, 4) { Some(format!("{:032x}", (rng.next_u64() as u128) << 64 | rng.next_u64() as u128)) } else { None };
        let url = if o.extras && rng.chance(1, 5) { Some("https://example.org/ref.fa?x=1&y=2".to_string()) } else { None };
        h.contigs.push(ContigDef { id, length, md5, url, idx: None, extra: extra_fields(rng, o.model, o.extras) });
    }

    if o.extras {
        for id in ["DEL", "DUP:TANDEM", "INS:ME:ALU", "CNV", "NON_REF", "*"] {
            if rng.chance(1, 3) {
                h.alts.push(AltDef { id: id.into(), desc: header_text(rng, o.model), extra: extra_fields(rng, o.model, true) });
            }
        }
        if rng.chance(1, 2) {
            h.others.push(OtherLine::Unstructured { key: "fileDate".into(), value: "20240131".into() });
        }
        if rng.chance(1, 2) {
            h.others.push(OtherLine::Unstructured { key: "source".into(), value: "prog v1.2 --opt=\"a b\",c <x>".into() });
            if rng.chance(1, 2) {
                h.others.push(OtherLine::Unstructured { key: "source".into(), value: "second tool; 100%".into() });
            }
        }
        if rng.chance(1, 3) {
            h.others.push(OtherLine::Unstructured { key: "reference".into(), value: "file:///seq/references/1000Genomes.fa".into() });
        }
        if rng.chance(1, 3) {
            let n = rng.urange(1, 2);
            for i in 0..n {
                h.others.push(OtherLine::Structured { key: "SAMPLE".into(), id: format!("Blood{i}"), fields: vec![("Genomes".into(), "Germline;Tumor".into()), ("Mixture".into(), ".3".into()), ("Description".into(), header_text(rng, o.model))] });
            }
        }
        if ff >= (4, 3) && rng.chance(1, 3) {
            h.others.push(OtherLine::Structured { key: "META".into(), id: "Tissue".into(), fields: vec![("Type".into(), "String".into()), ("Number".into(), ".".into()), ("Values".into(), "[Blood, Breast, Colon]".into())] });
        }
        if ff >= (4, 3) && rng.chance(1, 3) {
            h.others.push(OtherLine::Structured { key: "PEDIGREE".into(), id: "TumourSample".into(), fields: vec![("Original".into(), "GermlineID".into())] });
        }
        if rng.chance(1, 3) {
            h.others.push(OtherLine::Structured { key: "myTool".into(), id: ident(rng, 2, 6), fields: vec![("cmd".into(), header_text(rng, o.model)), ("n".into(), "3".into())] });
        }
    }

    assign_idx(rng, &mut h, o.idx);
    h
}

/// Adds the shapes of "other" meta lines a key-indexed header model tends to lose (call after
/// `gen_header`; kept out of it so that users of `gen_header` keep their streams): the same
/// unstructured `##key=value` line 2 or 3 times (adjacent, or separated by other lines), one key with
/// distinct values (and one value repeated between them), structured lines of one key whose non-ID
/// fields are equal. Returns the names of the shapes added.
pub fn add_other_line_variants(rng: &mut Rng, h: &mut HeaderDesc) -> Vec<&'static str> {
    let mut added = Vec::new();
    let place = |rng: &mut Rng, h: &mut HeaderDesc, l: OtherLine, adjacent_to: Option<usize>| -> usize {
        let at = match adjacent_to {
            Some(p) => p + 1,
            None => rng.urange(0, h.others.len()),
        };
        h.others.insert(at, l);
        at
    };
    let un = |k: &str, v: &str| OtherLine::Unstructured { key: k.into(), value: v.into() };
    if rng.chance(1, 2) {
        // two equal copies, adjacent
        let p = place(rng, h, un("annotateCommand", "annotate --db x.vcf --mark \"a b\""), None);
        place(rng, h, un("annotateCommand", "annotate --db x.vcf --mark \"a b\""), Some(p));
        added.push("equal-x2-adjacent");
    }
    if rng.chance(1, 2) {
        // three equal copies, wherever they fall
        for _ in 0..3 {
            place(rng, h, un("bcftools_viewCommand", "view -Ob in.vcf; Date=Mon Jan  1 00:00:00 2024"), None);
        }
        added.push("equal-x3-scattered");
    }
    if rng.chance(1, 3) {
        // two equal copies with at least one other line between them
        h.others.insert(0, un("cmdline", "tool run"));
        h.others.push(un("spacer", "1"));
        h.others.push(un("cmdline", "tool run"));
        added.push("equal-x2-separated");
    }
    if rng.chance(1, 2) {
        place(rng, h, un("history", "step one"), None);
        place(rng, h, un("history", "step two"), None);
        if rng.bool() {
            place(rng, h, un("history", "step one"), None);
            added.push("distinct-values-one-repeated");
        } else {
            added.push("distinct-values");
        }
    }
    if rng.chance(1, 2) {
        for id in ["a1", "a2", "a3"] {
            place(rng, h, OtherLine::Structured { key: "annotation".into(), id: id.into(), fields: vec![("Tool".into(), "vep".into()), ("Version".into(), "110.1".into())] }, None);
        }
        added.push("structured-equal-fields");
    }
    if h.fileformat >= (4, 3) && rng.chance(1, 3) {
        for id in ["Organ", "Stage"] {
            if !h.others.iter().any(|l| matches!(l, OtherLine::Structured { key, id: i, .. } if key == "META" && i == id)) {
                place(rng, h, OtherLine::Structured { key: "META".into(), id: id.into(), fields: vec![("Type".into(), "String".into()), ("Number".into(), ".".into()), ("Values".into(), "[A, B]".into())] }, None);
            }
        }
        added.push("meta-equal-fields");
    }
    added
}

/// Assigns `IDX=` values. Same-named INFO/FILTER/FORMAT lines share one dictionary entry and so get
/// the same index; `PASS` is always 0; contigs have their own dictionary.
pub fn assign_idx(rng: &mut Rng, h: &mut HeaderDesc, mode: IdxMode) {
    if mode == IdxMode::None {
        return;
    }
    // dictionary in order of appearance of the *written* text: INFO, FILTER, FORMAT
    let mut names: Vec<String> = vec!["PASS".into()];
    for n in h.infos.iter().map(|d| &d.id).chain(h.filters.iter().map(|d| &d.id)).chain(h.formats.iter().map(|d| &d.id)) {
        if !names.contains(n) {
            names.push(n.clone());
        }
    }
    let n = names.len() - 1;
    let mut idx: Vec<usize> = (1..=n).collect();
    match mode {
        IdxMode::Natural | IdxMode::None => {}
        IdxMode::Permuted => rng.shuffle(&mut idx),
        IdxMode::Sparse => {
            let mut v: Vec<usize> = Vec::new();
            while v.len() < n {
                let c = match rng.below(6) {
                    0 => rng.urange(1, 20),
                    1 => rng.urange(120, 135),
                    2 => rng.urange(250, 260),
                    3 => rng.urange(32760, 32775),
                    _ => rng.urange(1, 400),
                };
                if !v.contains(&c) {
                    v.push(c);
                }
            }
            idx = v;
        }
    }
    let of = |name: &str| -> usize { if name == "PASS" { 0 } else { idx[names.iter().position(|x| x == name).unwrap() - 1] } };
    for d in &mut h.infos {
        d.idx = Some(of(&d.id));
    }
    for d in &mut h.filters {
        d.idx = Some(of(&d.id));
    }
    for d in &mut h.formats {
        d.idx = Some(of(&d.id));
    }
    let nc = h.contigs.len();
    let mut cidx: Vec<usize> = (0..nc).collect();
    match mode {
        IdxMode::Permuted => rng.shuffle(&mut cidx),
        IdxMode::Sparse => {
            let mut v: Vec<usize> = Vec::new();
            while v.len() < nc {
                let c = rng.urange(0, 40);
                if !v.contains(&c) {
                    v.push(c);
                }
            }
            cidx = v;
        }
        _ => {}
    }
    for (d, i) in h.contigs.iter_mut().zip(cidx) {
        d.idx = Some(i);
    }
}

pub const INT_BOUNDARY: &[i32] = &[
    0, 1, -1, 127, 128, -120, -121, -127, -128, 255, 256, 32767, 32768, -32760, -32761, -32767, -32768, 65535, 65536, i32::MAX, i32::MIN + 8, i32::MIN + 9, 2147483646,
];

pub fn gen_int(rng: &mut Rng, o: &RecOpts) -> i32 {
    if o.invalid_ints && rng.chance(1, 300) {
        return i32::MIN + rng.below(8) as i32;
    }
    if o.model == Model::Common {
        return rng.range(0, 300) as i32;
    }
    match rng.below(10) {
        0..=4 => *rng.pick(INT_BOUNDARY),
        5 | 6 => rng.range(-130, 130) as i32,
        7 => rng.range(-33000, 33000) as i32,
        _ => rng.range(i32::MIN as i64 + 8, i32::MAX as i64) as i32,
    }
}

pub const FLOAT_BOUNDARY: &[u32] = &[
    0x0000_0000, // +0
    0x8000_0000, // -0
    0x3f80_0000, // 1
    0xbfc0_0000, // -1.5
    0x3dcc_cccd, // 0.1
    0x0000_0001, // smallest subnormal
    0x007f_ffff, // largest subnormal
    0x0080_0000, // smallest normal
    0x7f7f_ffff, // f32::MAX
    0xff7f_ffff, // f32::MIN
    0x7f80_0000, // +inf
    0xff80_0000, // -inf
    0x4b80_0000, // 16777216
    0x501502f9, // 1e10
    0x47f1_2065, // 123456.79
    0x3a83_126f, // 0.001
];

pub const NAN_PATTERNS: &[u32] = &[0x7fc0_0000, 0xffc0_0000, 0x7fc1_2345, 0x7fff_ffff];

pub fn gen_float(rng: &mut Rng, o: &RecOpts) -> u32 {
    if o.model == Model::Common {
        return ((rng.below(100000) as f32) / 100.0).to_bits();
    }
    if o.nan && rng.chance(1, 25) {
        return *rng.pick(NAN_PATTERNS);
    }
    match rng.below(10) {
        0..=3 => *rng.pick(FLOAT_BOUNDARY),
        4 | 5 => ((rng.range(-100000, 100000) as f32) / 1000.0).to_bits(),
        6 => (rng.range(0, 1000) as f32).to_bits(),
        _ => loop {
            let b = rng.next_u32();
            if !f32::from_bits(b).is_nan() {
                break b;
            }
        },
    }
}

const PLAIN_CHARS: &[char] = &['a', 'Z', '0', '9', '_', '-', '+', '!', '#', '$', '&', '*', '/', '<', '>', '?', '@', '[', ']', '^', '|', '~', '"', '\'', '\\', '(', ')'];
const RESERVED_CHARS: &[char] = &[';', '=', '%', ',', ':', '\t', '\r', '\n', '.'];

pub fn gen_char(rng: &mut Rng, o: &RecOpts, allow_reserved: bool) -> char {
    match o.model {
        Model::Common => *rng.pick(&['A', 'C', 'G', 'T', 'x', 'y', '1']),
        Model::Bcf => match rng.below(10) {
            0 => *rng.pick(&['\u{e9}', '\u{141}', '\u{3b1}', '\u{7ff}', '\u{800}', '\u{4e2d}', '\u{fffd}', '\u{10000}']),
            1 => *rng.pick(&[';', '=', ':']),
            2 => ' ',
            _ => *rng.pick(PLAIN_CHARS),
        },
        Model::Full => {
            if allow_reserved {
                *rng.pick(RESERVED_CHARS)
            } else {
                match rng.below(10) {
                    0 => 'é',
                    1 => ' ',
                    2 => '\u{4e2d}',
                    _ => *rng.pick(PLAIN_CHARS),
                }
            }
        }
    }
}

pub fn gen_string(rng: &mut Rng, o: &RecOpts) -> String {
    let len = match rng.below(40) {
        0 => 15,
        1 => 16,
        2 => 127,
        3 => 128,
        4 => 300,
        _ => rng.urange(1, 10),
    };
    match o.model {
        Model::Common => word(rng, len.min(12)),
        Model::Bcf => {
            let mut s = String::new();
            let special = rng.below(8);
            while s.chars().count() < len {
                let c = match (special, rng.below(6)) {
                    (0, 0) => *rng.pick(&[';', '=', ':']),
                    (1, 0) => ' ',
                    (2, 0) => *rng.pick(&['é', 'ß', '中']),
                    (3, 0) => '.',
                    (4, 0) => '\t',
                    _ => *rng.pick(ALNUM) as char,
                };
                s.push(c);
            }
            if s == "." {
                s = "x".into();
            }
            s
        }
        Model::Full => {
            match rng.below(30) {
                0 => return ".".into(),
                1 => return "..".into(),
                2 => return "%41".into(),
                3 => return "100%".into(),
                4 => return "%".into(),
                5 => return "a,b".into(),
                6 => return ".a".into(),
                7 => return "%2".into(),
                _ => {}
            }
            let mut s = String::new();
            let special = rng.below(6);
            while s.chars().count() < len {
                let c = match (special, rng.below(5)) {
                    (0, 0) | (1, 0) => *rng.pick(&[';', '=', '%', ',', ':', '\t', '\r', '\n']),
                    (2, 0) => ' ',
                    (3, 0) => *rng.pick(&['é', 'ß', '中', '.']),
                    _ => *rng.pick(ALNUM) as char,
                };
                s.push(c);
            }
            s
        }
    }
}

fn gen_opt_vec<T>(rng: &mut Rng, n: usize, all_missing: bool, mut f: impl FnMut(&mut Rng) -> T) -> Vec<Option<T>> {
    let p_missing = if all_missing { 1 } else if rng.chance(1, 4) { 3 } else { 0 };
    (0..n).map(|_| if all_missing || (p_missing > 0 && rng.chance(1, p_missing)) { None } else { Some(f(rng)) }).collect()
}

/// Expected number of values of a `Number`, given the record.
pub fn expected_len(rng: &mut Rng, num: Num, n_alt: usize, ploidy: usize) -> usize {
    match num {
        Num::Count(c) => c as usize,
        Num::A => n_alt,
        Num::R => n_alt + 1,
        Num::G => {
            // number of genotypes = C(alleles + ploidy - 1, ploidy)
            let n = n_alt + 1;
            let p = ploidy.max(1);
            let mut c: usize = 1;
            for i in 0..p {
                c = c * (n + i) / (i + 1);
            }
            c.min(40)
        }
        Num::P => ploidy.max(1),
        Num::Dot | Num::LA | Num::LR | Num::LG | Num::M => rng.urange(1, 5),
    }
}

/// A value for definition `(num, ty)`; `None` = no sensible value (Number=A without ALT): missing.
pub fn gen_value(rng: &mut Rng, o: &RecOpts, num: Num, ty: Ty, n_alt: usize, ploidy: usize, reserved_char: bool) -> Option<Val> {
    if ty == Ty::Flag {
        return Some(Val::Flag);
    }
    if num.is_scalar() {
        return Some(match ty {
            Ty::Integer => Val::Int(gen_int(rng, o)),
            Ty::Float => Val::Float(gen_float(rng, o)),
            Ty::Character => Val::Char(gen_char(rng, o, reserved_char)),
            Ty::String => Val::Str(gen_string(rng, o)),
            Ty::Flag => unreachable!(),
        });
    }
    let n = expected_len(rng, num, n_alt, ploidy);
    if n == 0 {
        return None;
    }
    let all_missing = n >= 2 && rng.chance(1, 30);
    Some(match ty {
        Ty::Integer => Val::Ints(gen_opt_vec(rng, n, all_missing, |r| gen_int(r, o))),
        Ty::Float => Val::Floats(gen_opt_vec(rng, n, all_missing, |r| gen_float(r, o))),
        Ty::Character => Val::Chars(gen_opt_vec(rng, n, all_missing, |r| gen_char(r, o, reserved_char))),
        Ty::String => Val::Strs(gen_opt_vec(rng, n, all_missing, |r| gen_string(r, o))),
        Ty::Flag => unreachable!(),
    })
}

const BASES: &[u8] = b"ACGTN";

fn bases(rng: &mut Rng, n: usize, lower: bool) -> String {
    (0..n).map(|_| {
        let b = *rng.pick(BASES) as char;
        if lower { b.to_ascii_lowercase() } else { b }
    }).collect()
}

const SYMBOLIC: &[&str] = &["<DEL>", "<DUP>", "<DUP:TANDEM>", "<INS>", "<INS:ME:ALU>", "<INV>", "<CNV>", "<NON_REF>", "<*>"];

/// ALT alleles: `(text, kind)`.
fn gen_alt(rng: &mut Rng, o: &RecOpts, reference: &str) -> (String, &'static str) {
    let k = if o.model == Model::Common { rng.below(5) } else { rng.below(12) };
    match k {
        0..=5 => {
            let (n, lower) = (rng.urange(1, 6), rng.chance(1, 10));
            let mut s = bases(rng, n, lower);
            if s == reference {
                s.push('A');
            }
            (s, "bases")
        }
        6 => ("*".into(), "star"),
        7 | 8 => (rng.pick(SYMBOLIC).to_string(), "symbolic"),
        9 => {
            let t = bases(rng, 1, false);
            let mate = format!("{}:{}", rng.pick(&["2", "chr17", "13", "ctg|7"]), rng.range(1, 300_000_000));
            (
                match rng.below(4) {
                    0 => format!("{t}]{mate}]"),
                    1 => format!("]{mate}]{t}"),
                    2 => format!("{t}[{mate}["),
                    _ => format!("[{mate}[{t}"),
                },
                "breakend",
            )
        }
        10 => (if rng.bool() { format!(".{}", bases(rng, 2, false)) } else { format!("{}.", bases(rng, 2, false)) }, "single-breakend"),
        _ => (format!("<ctg{}>", rng.below(9)), "symbolic"),
    }
}

pub fn gen_gt(rng: &mut Rng, ploidy: usize, n_alt: usize, fileformat: (u32, u32), phased_missing: bool) -> Vec<GtAllele> {
    let style = rng.below(4); // 0 all unphased, 1 all phased, 2/3 mixed
    let mut g: Vec<GtAllele> = (0..ploidy.max(1))
        .map(|_| {
            let allele = if rng.chance(1, 8) { None } else { Some(rng.below(n_alt as u64 + 1) as u32) };
            let phased = match style {
                0 => false,
                1 => true,
                _ => rng.bool(),
            };
            GtAllele { allele, phased }
        })
        .collect();
    // a haploid missing call is written `.`, which is the missing *value*: not generated
    if g.len() == 1 && g[0].allele.is_none() {
        g[0].allele = Some(0);
    }
    if !phased_missing {
        // phased missing alleles only where asked for (rare shape)
        for a in g.iter_mut().skip(1) {
            if a.allele.is_none() {
                a.phased = false;
            }
        }
    }
    // the first allele's phasing cannot be written before 4.4: keep the implied value there
    let implied = implied_first_phasing(&g);
    g[0].phased = if fileformat >= (4, 4) && rng.chance(1, 3) { rng.bool() } else { implied };
    if !phased_missing && fileformat >= (4, 4) && g[0].allele.is_none() {
        g[0].phased = false;
    }
    g
}

/// A record consistent with `h`. `uid` makes the ID column unique within a set (0 = random IDs).
pub fn gen_record(rng: &mut Rng, h: &HeaderDesc, o: &RecOpts) -> RecDesc {
    gen_record_at(rng, h, o, None, 0)
}

pub fn gen_record_at(rng: &mut Rng, h: &HeaderDesc, o: &RecOpts, place: Option<(&str, u64, u64)>, uid: u64) -> RecDesc {
    let ff = h.fileformat;
    let full = o.model == Model::Full;
    let rare = |rng: &mut Rng| rng.chance(1, o.rare.max(1));

    // CHROM
    let (chrom, contig_len) = match place {
        Some((c, _, _)) => (c.to_string(), h.contigs.iter().find(|d| d.id == c).and_then(|d| d.length)),
        None => {
            if !h.contigs.is_empty() && (!full || rng.chance(9, 10)) {
                let c = rng.pick(&h.contigs);
                (c.id.clone(), c.length)
            } else if rng.chance(1, 8) {
                ("<ctg1>".to_string(), None)
            } else {
                (rng.pick(&["17", "chrUn_x", "contig.9"]).to_string(), None)
            }
        }
    };
    let maxpos = contig_len.map(|l| l as u64).unwrap_or(1 << 29).min((1 << 31) - 2).max(1);

    // REF
    let reflen = match place {
        Some((_, _, l)) if l <= 20 => l as usize,
        Some(_) => 1,
        None => match rng.below(40) {
            0 => 15,
            1 => 16,
            2 => 127,
            3 => 128,
            4 => 300,
            5..=24 => 1,
            _ => rng.urange(2, 8),
        },
    };
    let lower_ref = rng.chance(1, 12);
    let reference = bases(rng, reflen, lower_ref);

    // POS
    let pos = match place {
        Some((_, p, _)) => p,
        None => match rng.below(20) {
            0 if full => 0,
            1 => 1,
            2 => maxpos,
            3 => *rng.pick(&[16384u64, 16385, 131072, 1 << 20, (1 << 29) - 1, 1 << 29]).min(&maxpos),
            _ => rng.range(1, maxpos as i64) as u64,
        },
    };

    // ALT
    let n_alt = match rng.below(20) {
        0..=2 => 0,
        3..=13 => 1,
        14..=17 => rng.urange(2, 3),
        18 => rng.urange(4, 6),
        _ => rng.urange(7, 12),
    };
    let mut alts: Vec<String> = Vec::new();
    let mut kinds: Vec<&'static str> = Vec::new();
    for _ in 0..n_alt {
        let (a, k) = gen_alt(rng, o, &reference);
        alts.push(a);
        kinds.push(k);
    }
    if let Some((_, _, l)) = place {
        if l > 20 && alts.is_empty() {
            alts.push("<DEL>".into());
            kinds.push("symbolic");
        } else if l > 20 {
            alts[0] = "<DEL>".into();
            kinds[0] = "symbolic";
        }
    }
    let has_symbolic = kinds.iter().any(|k| *k == "symbolic");

    // ID
    let mut ids: Vec<String> = Vec::new();
    if uid > 0 {
        ids.push(format!("v{uid}"));
    } else {
        let n = match rng.below(10) {
            0..=4 => 0,
            5..=8 => 1,
            _ => rng.urange(2, 3),
        };
        for _ in 0..n {
            let id = unique(rng, &mut ids.clone(), |r| match r.below(4) {
                0 if full => format!("id:{}|x,y", r.below(100)),
                1 => format!("esv{}", r.below(100000)),
                _ => format!("rs{}", r.below(1_000_000_000)),
            });
            ids.push(id);
        }
    }

    // QUAL
    let qual = match rng.below(12) {
        0..=2 => None,
        3 | 4 => Some((rng.range(0, 100) as f32).to_bits()),
        5 => Some(0f32.to_bits()),
        6 => Some(12.5f32.to_bits()),
        7 => Some((rng.range(0, 1_000_000) as f32 / 1000.0).to_bits()),
        8 if o.model != Model::Common => Some(*rng.pick(&[0x7f7f_ffffu32, 0x0000_0001, 0x7f80_0000, 0x501502f9, 0x0080_0000])),
        9 if o.nan && o.model != Model::Common => Some(*rng.pick(NAN_PATTERNS)),
        _ => Some((rng.range(1, 9999) as f32 / 10.0).to_bits()),
    };

    // FILTER
    let declared: Vec<&String> = h.filters.iter().map(|d| &d.id).filter(|f| *f != "PASS").collect();
    let filters: Vec<String> = match rng.below(10) {
        0..=2 => vec![],
        3..=6 => vec!["PASS".into()],
        7 | 8 if !declared.is_empty() => vec![rng.pick(&declared).to_string()],
        9 if declared.len() >= 2 => {
            let mut d: Vec<String> = declared.iter().map(|s| s.to_string()).collect();
            rng.shuffle(&mut d);
            d.truncate(rng.urange(2, d.len()));
            d
        }
        _ if full && rng.chance(1, 3) => vec!["undeclared_filter".into()],
        _ => vec![],
    };

    // span-driving fields
    let span_len: u64 = match place {
        Some((_, _, l)) => l,
        None => {
            if has_symbolic || rng.chance(1, 10) {
                let cap = maxpos.saturating_sub(pos.max(1)) + 1;
                (*rng.pick(&[1u64, 2, 100, 16383, 16384, 16385, 131072, 1 << 20, 5_000_000])).min(cap).max(1)
            } else {
                0
            }
        }
    };

    // INFO
    let mut info: Vec<(String, Option<Val>)> = Vec::new();
    let ploidy_hint = 2usize;
    let mut defs: Vec<&FieldDef> = h.infos.iter().collect();
    rng.shuffle(&mut defs);
    let n_info = match rng.below(10) {
        0 => 0,
        1..=5 => rng.urange(1, 3),
        _ => rng.urange(2, 7),
    }
    .min(defs.len());
    let char_reserved_record = full && rare(rng);
    let missing_info_record = rng.chance(1, o.rare.max(1).saturating_mul(2));
    for d in defs.iter().take(n_info) {
        if d.id == "END" || d.id == "SVLEN" {
            continue; // handled below
        }
        let v = if missing_info_record && d.ty != Ty::Flag && rng.chance(1, 2) { None } else { gen_value(rng, o, d.num, d.ty, n_alt, ploidy_hint, char_reserved_record && d.ty == Ty::Character) };
        info.push((d.id.clone(), v));
    }
    if span_len > 0 {
        let end_declared = h.info("END").is_some();
        let svlen_def = h.info("SVLEN");
        let end_usable = end_declared || (full && ff >= (4, 3));
        if end_usable && (ff < (4, 5) || rng.bool()) {
            let end = (pos.max(1) + span_len.max(reference.len() as u64) - 1).min(i32::MAX as u64);
            info.push(("END".into(), Some(Val::Int(end as i32))));
        }
        let svlen_usable = svlen_def.is_some() || (full && ff >= (4, 3));
        if svlen_usable && n_alt > 0 && (ff >= (4, 5) || rng.bool()) {
            let num = svlen_def.map(|d| d.num).unwrap_or(if ff >= (4, 4) { Num::A } else { Num::Dot });
            let n = if num == Num::A { n_alt } else { rng.urange(1, n_alt.max(1)) };
            let mut v: Vec<Option<i32>> = Vec::new();
            for i in 0..n {
                let sym = kinds.get(i).map(|k| *k == "symbolic").unwrap_or(false);
                if sym || rng.chance(1, 4) {
                    let l = span_len.min(i32::MAX as u64) as i32;
                    v.push(Some(if ff < (4, 4) && alts.get(i).map(|a| a == "<DEL>").unwrap_or(false) { -l } else { l }));
                } else {
                    v.push(None);
                }
            }
            if v.iter().all(|e| e.is_none()) && v.len() == 1 {
                v[0] = Some(span_len as i32);
            }
            info.push(("SVLEN".into(), Some(Val::Ints(v))));
        }
    } else if let Some(d) = h.info("END") {
        // an END that merely restates the REF span
        if rng.chance(1, 12) && ff < (4, 5) {
            let _ = d;
            info.push(("END".into(), Some(Val::Int((pos.max(1) + reference.len() as u64 - 1).min(i32::MAX as u64) as i32))));
        }
    }
    if full {
        if rng.chance(1, 15) {
            info.push(("undeclaredFlag".into(), Some(Val::Flag)));
        }
        if rng.chance(1, 15) {
            info.push(("undeclaredStr".into(), Some(Val::Str(gen_string(rng, o)))));
        }
        if ff >= (4, 3) && rng.chance(1, 15) && h.info("NS").is_none() {
            info.push(("NS".into(), Some(Val::Int(rng.range(0, 500) as i32))));
        }
        if ff >= (4, 3) && rng.chance(1, 15) && h.info("DB").is_none() {
            info.push(("DB".into(), Some(Val::Flag)));
        }
    }
    if rng.chance(1, 3) {
        rng.shuffle(&mut info);
    }

    // FORMAT / samples
    let ns = h.samples.len();
    let mut format: Vec<String> = Vec::new();
    let mut samples: Vec<Vec<Option<Val>>> = Vec::new();
    if ns > 0 {
        let has_gt = h.format("GT").is_some() && rng.chance(5, 6);
        if has_gt {
            format.push("GT".into());
        }
        let mut fdefs: Vec<&FieldDef> = h.formats.iter().filter(|d| d.id != "GT").collect();
        rng.shuffle(&mut fdefs);
        let nf = match rng.below(10) {
            0 => 0,
            1..=5 => rng.urange(1, 2),
            _ => rng.urange(2, 6),
        }
        .min(fdefs.len());
        for d in fdefs.iter().take(nf) {
            if d.id == "LEN" && !(ff >= (4, 5)) {
                continue;
            }
            format.push(d.id.clone());
        }
        if full && ff >= (4, 3) && rng.chance(1, 20) && h.format("GQ").is_none() {
            format.push("GQ".into());
        }
        if format.is_empty() {
            match h.formats.first() {
                Some(d) => format.push(d.id.clone()),
                None => format.push(if full { "undeclaredFmt".into() } else { "GT".into() }),
            }
        }
        let base_ploidy = match rng.below(10) {
            0 => 1,
            1..=7 => 2,
            8 => 3,
            _ => 4,
        };
        let mixed_ploidy = rare(rng);
        let phased_missing = rare(rng);
        let missing_gt = rare(rng);
        let char_reserved_fmt = full && rare(rng);
        // keys that are missing in every sample (rare shape)
        let all_missing_key: Option<usize> = if rare(rng) && format.len() > 1 { Some(rng.urange(1, format.len() - 1)) } else { None };
        for _si in 0..ns {
            let ploidy = if mixed_ploidy { rng.urange(1, 4) } else { base_ploidy };
            let mut row: Vec<Option<Val>> = Vec::new();
            let whole_missing = rng.chance(1, 25);
            for (fi, k) in format.iter().enumerate() {
                if k == "GT" {
                    if missing_gt && rng.chance(1, 2) {
                        row.push(None);
                    } else {
                        row.push(Some(Val::Gt(gen_gt(rng, ploidy, n_alt, ff, phased_missing))));
                    }
                    continue;
                }
                if whole_missing || Some(fi) == all_missing_key || rng.chance(1, 10) {
                    row.push(None);
                    continue;
                }
                let (num, ty) = h.format(k).map(|d| (d.num, d.ty)).or_else(|| crate::text::reserved_def(ff, k, false)).unwrap_or((Num::Count(1), Ty::String));
                if k == "LEN" {
                    row.push(Some(Val::Int(if span_len > 0 { span_len.min(i32::MAX as u64) as i32 } else { rng.range(1, 50) as i32 })));
                    continue;
                }
                if k == "GQ" || k == "DP" {
                    row.push(Some(Val::Int(rng.range(0, 400) as i32)));
                    continue;
                }
                row.push(gen_value(rng, o, num, ty, n_alt, ploidy, char_reserved_fmt && ty == Ty::Character));
            }
            // now and then drop trailing missing values, as writers may
            if rng.chance(1, 6) {
                while row.len() > 1 && row.last().map(|v| v.is_none()).unwrap_or(false) {
                    row.pop();
                }
            }
            samples.push(row);
        }
    }

    RecDesc { chrom, pos, ids, reference, alts, qual, filters, info, format, samples }
}

/// A deliberately *rich* record (for stale-state tests of reused buffers): three IDs, 3..5 plain
/// ALTs, QUAL, every declared filter, every declared INFO key with a value (Flag, scalars, arrays),
/// every FORMAT key, tetraploid genotypes, no missing value, long strings now and then.
pub fn gen_rich_record(rng: &mut Rng, h: &HeaderDesc, o: &RecOpts) -> RecDesc {
    let base = gen_record(rng, h, &RecOpts { rare: u64::MAX, invalid_ints: false, ..o.clone() });
    let ff = h.fileformat;
    let o = RecOpts { rare: u64::MAX, invalid_ints: false, ..o.clone() };
    let n_alt = rng.urange(3, 5);
    let mut alts: Vec<String> = Vec::new();
    while alts.len() < n_alt {
        let n = rng.urange(1, 6);
        let a = bases(rng, n, false);
        if a != base.reference && !alts.contains(&a) {
            alts.push(a);
        }
    }
    let ids: Vec<String> = (0..3).map(|i| format!("rs{}{i}", rng.below(1_000_000))).collect();
    let mut filters: Vec<String> = h.filters.iter().map(|d| d.id.clone()).filter(|f| f != "PASS").collect();
    if filters.is_empty() {
        filters.push("PASS".into());
    }
    let mut info: Vec<(String, Option<Val>)> = Vec::new();
    for d in h.infos.iter().take(14) {
        if d.id == "END" || d.id == "SVLEN" {
            continue;
        }
        let mut v = gen_value(rng, &o, d.num, d.ty, n_alt, 4, false);
        fill_missing(rng, &o, &mut v);
        if v.is_some() {
            info.push((d.id.clone(), v));
        }
    }
    let mut format: Vec<String> = Vec::new();
    let mut samples: Vec<Vec<Option<Val>>> = Vec::new();
    if !h.samples.is_empty() {
        if h.format("GT").is_some() {
            format.push("GT".into());
        }
        for d in h.formats.iter().filter(|d| d.id != "GT").take(10) {
            if d.id == "LEN" && ff < (4, 5) {
                continue;
            }
            format.push(d.id.clone());
        }
        if format.is_empty() {
            format.push(if o.model == Model::Full { "undeclaredFmt".into() } else { "GT".into() });
        }
        for _ in 0..h.samples.len() {
            let mut row = Vec::new();
            for k in &format {
                if k == "GT" {
                    let g: Vec<GtAllele> = (0..4).map(|i| GtAllele { allele: Some(rng.below(n_alt as u64 + 1) as u32), phased: i > 0 && rng.bool() }).collect();
                    let mut g = g;
                    g[0].phased = implied_first_phasing(&g);
                    row.push(Some(Val::Gt(g)));
                    continue;
                }
                let (num, ty) = h.format(k).map(|d| (d.num, d.ty)).unwrap_or((Num::Count(1), Ty::String));
                let mut v = if k == "LEN" { Some(Val::Int(rng.range(1, 50) as i32)) } else { gen_value(rng, &o, num, ty, n_alt, 4, false) };
                fill_missing(rng, &o, &mut v);
                if v.is_none() {
                    v = Some(match ty {
                        Ty::Integer => Val::Ints(vec![Some(1), Some(2), Some(3)]),
                        Ty::Float => Val::Floats(vec![Some(1f32.to_bits()), Some(2f32.to_bits())]),
                        Ty::Character => Val::Chars(vec![Some('a'), Some('b')]),
                        _ => Val::Strs(vec![Some("long".into()), Some("value".into())]),
                    });
                    if num.is_scalar() {
                        v = gen_value(rng, &o, num, ty, n_alt, 4, false);
                    }
                }
                row.push(v);
            }
            samples.push(row);
        }
    }
    RecDesc { chrom: base.chrom, pos: base.pos.max(1), ids, reference: base.reference, alts, qual: Some((rng.range(1, 9999) as f32 / 10.0).to_bits()), filters, info, format, samples }
}

fn fill_missing(rng: &mut Rng, o: &RecOpts, v: &mut Option<Val>) {
    match v {
        Some(Val::Ints(a)) => a.iter_mut().for_each(|e| {
            if e.is_none() {
                *e = Some(gen_int(rng, o));
            }
        }),
        Some(Val::Floats(a)) => a.iter_mut().for_each(|e| {
            if e.is_none() {
                *e = Some(gen_float(rng, o));
            }
        }),
        Some(Val::Chars(a)) => a.iter_mut().for_each(|e| {
            if e.is_none() {
                *e = Some(gen_char(rng, o, false));
            }
        }),
        Some(Val::Strs(a)) => a.iter_mut().for_each(|e| {
            if e.is_none() {
                *e = Some(gen_string(rng, o));
            }
        }),
        _ => {}
    }
}

/// A *minimal* record at the place of `at` (CHROM/POS kept, one-base REF). `kind % 4`:
/// 0 = every optional column `.`, every sample column `.` (one FORMAT key);
/// 1 = FILTER PASS, one short INFO string or flag, samples carry the first key only (haploid GT);
/// 2 = as 0 but the samples keep two keys with the trailing value dropped;
/// 3 = as 0 with no FORMAT keys at all (`format` and `samples` empty) — valid text only when the
///     header has no samples; BCF stores it as n_fmt = 0.
pub fn minimal_record(h: &HeaderDesc, at: &RecDesc, kind: u64) -> RecDesc {
    let mut r = RecDesc { chrom: at.chrom.clone(), pos: at.pos.max(1), ids: vec![], reference: "N".into(), alts: vec![], qual: None, filters: vec![], info: vec![], format: vec![], samples: vec![] };
    let ns = h.samples.len();
    let first = h.formats.first().map(|d| d.id.clone()).unwrap_or_else(|| "GT".into());
    let value_of = |k: &str| -> Option<Val> {
        if k == "GT" {
            return Some(Val::Gt(vec![GtAllele { allele: Some(0), phased: true }]));
        }
        let d = h.format(k)?;
        Some(match (d.num.is_scalar(), d.ty) {
            (true, Ty::Integer) => Val::Int(1),
            (true, Ty::Float) => Val::Float(0),
            (true, Ty::Character) => Val::Char('x'),
            (true, _) => Val::Str("s".into()),
            (false, Ty::Integer) => Val::Ints(vec![Some(1)]),
            (false, Ty::Float) => Val::Floats(vec![Some(0)]),
            (false, Ty::Character) => Val::Chars(vec![Some('x')]),
            (false, _) => Val::Strs(vec![Some("s".into())]),
        })
    };
    match kind % 4 {
        1 => {
            r.filters = vec!["PASS".into()];
            if let Some(d) = h.infos.iter().find(|d| d.ty == Ty::Flag || (d.ty == Ty::String && d.num.is_scalar())) {
                r.info.push((d.id.clone(), Some(if d.ty == Ty::Flag { Val::Flag } else { Val::Str("s".into()) })));
            }
            if ns > 0 {
                r.format = vec![first.clone()];
                r.samples = (0..ns).map(|_| vec![value_of(&first)]).collect();
            }
        }
        2 => {
            if ns > 0 {
                r.format = h.formats.iter().take(2).map(|d| d.id.clone()).collect();
                if r.format.is_empty() {
                    r.format.push(first.clone());
                }
                let k0 = r.format[0].clone();
                r.samples = (0..ns).map(|_| vec![value_of(&k0)]).collect();
            }
        }
        3 => {}
        _ => {
            if ns > 0 {
                r.format = vec![first];
                r.samples = (0..ns).map(|_| vec![None]).collect();
            }
        }
    }
    r
}

/// Deterministic records (site columns of `at`, FORMAT `GT` only) whose genotypes have ploidy 3 and 4
/// with EVERY order of `/` and `|` separators; from VCF 4.4 on each also with the first allele's
/// phasing explicitly opposite to the implied one. Sample 0 carries the pattern, the other samples
/// the mirrored pattern. Empty when the header has no samples or no GT definition.
pub fn gt_separator_matrix(h: &HeaderDesc, at: &RecDesc) -> Vec<RecDesc> {
    let mut out = Vec::new();
    if h.samples.is_empty() || h.format("GT").is_none() {
        return out;
    }
    let n_alleles = at.alts.len() as u32 + 1;
    for ploidy in [3usize, 4] {
        for mask in 0..(1u32 << (ploidy - 1)) {
            let firsts: &[bool] = if h.fileformat >= (4, 4) { &[false, true] } else { &[false] };
            for &flip_first in firsts {
                let build = |m: u32| -> Vec<GtAllele> {
                    let mut g: Vec<GtAllele> = (0..ploidy).map(|i| GtAllele { allele: Some(i as u32 % n_alleles), phased: i > 0 && (m >> (i - 1)) & 1 == 1 }).collect();
                    let implied = implied_first_phasing(&g);
                    g[0].phased = implied != flip_first;
                    g
                };
                let mirror = (0..ploidy - 1).fold(0u32, |acc, i| acc | (((mask >> i) & 1) << (ploidy - 2 - i)));
                let mut r = at.clone();
                r.info.clear();
                r.format = vec!["GT".into()];
                r.samples = (0..h.samples.len()).map(|si| vec![Some(Val::Gt(build(if si == 0 { mask } else { mirror })))]).collect();
                out.push(r);
            }
        }
    }
    out
}

/// A coordinate-sorted set over the contigs of `h` (in header order) with unique IDs `v1..vN`:
/// spans straddling the 16 kb / 128 kb / 1 Mb / 8 Mb / 64 Mb bin edges, long-before-short patterns
/// inside one window, several records at one position, empty contigs. Needs declared contigs; their
/// lengths (if given) bound the positions.
pub fn coordinate_sorted_set(rng: &mut Rng, h: &HeaderDesc, n: usize, o: &RecOpts) -> Vec<RecDesc> {
    let mut out: Vec<(usize, u64, RecDesc)> = Vec::new();
    if h.contigs.is_empty() {
        return vec![];
    }
    let edges: [u64; 5] = [1 << 14, 1 << 17, 1 << 20, 1 << 23, 1 << 26];
    let mut uid = 0u64;
    // some contigs stay empty
    let mut active: Vec<usize> = (0..h.contigs.len()).filter(|_| rng.chance(4, 5)).collect();
    if active.is_empty() {
        active.push(0);
    }
    while out.len() < n {
        let ci = *rng.pick(&active);
        let c = &h.contigs[ci];
        let clen = c.length.map(|l| l as u64).unwrap_or(1 << 28).min((1 << 31) - 2).max(1);
        let (pos, len): (u64, u64) = match rng.below(8) {
            0 | 1 => {
                // straddle / touch a bin edge
                let e = *rng.pick(&edges) * rng.range(1, 3) as u64;
                let len = *rng.pick(&[1u64, 2, 3, 100, 20000]);
                let back = rng.below(len + 2);
                (e.saturating_sub(back).max(1), len)
            }
            2 => {
                // long record first, short ones inside it afterwards
                let p = rng.range(1, clen as i64) as u64;
                let len = *rng.pick(&[70_000u64, 200_000, 2_000_000]);
                let k = rng.urange(1, 4);
                for j in 0..k {
                    if out.len() + 1 >= n {
                        break;
                    }
                    let q = p + 1 + rng.below(len) + j as u64;
                    if q <= clen {
                        uid += 1;
                        let r = gen_record_at(rng, h, o, Some((&c.id, q, 1)), uid);
                        out.push((ci, q, r));
                    }
                }
                (p, len)
            }
            3 => {
                // several records at one position
                let p = rng.range(1, clen as i64) as u64;
                let k = rng.urange(1, 3);
                for _ in 0..k {
                    if out.len() + 1 >= n {
                        break;
                    }
                    uid += 1;
                    let l = rng.range(1, 4) as u64;
                    let r = gen_record_at(rng, h, o, Some((&c.id, p, l)), uid);
                    out.push((ci, p, r));
                }
                (p, 1)
            }
            _ => (rng.range(1, clen as i64) as u64, rng.range(1, 6) as u64),
        };
        let pos = pos.min(clen).max(1);
        let len = len.min(clen - pos + 1).max(1);
        uid += 1;
        let r = gen_record_at(rng, h, o, Some((&c.id, pos, len)), uid);
        out.push((ci, pos, r));
    }
    out.sort_by_key(|e| (e.0, e.1));
    out.into_iter().map(|e| e.2).collect()
}

/// Feature tokens of a record (shape classes, no data): what the distinct-case count is made of.
pub fn features(r: &RecDesc, h: &HeaderDesc) -> Vec<String> {
    let mut f: Vec<String> = Vec::new();
    let ff = format!("v{}.{}", h.fileformat.0, h.fileformat.1);
    let mut add = |s: String| {
        let t = format!("{ff}|{s}");
        if !f.contains(&t) {
            f.push(t);
        }
    };
    add(format!("pos:{}", match r.pos { 0 => "0", 1 => "1", _ => "n" }));
    add(format!("ids:{}", r.ids.len().min(3)));
    add(format!("reflen:{}", match r.reference.len() { 1 => "1", 2..=14 => "short", 15..=126 => "15+", 127..=299 => "127+", _ => "300+" }));
    add(format!("nalt:{}", match r.alts.len() { 0 => "0", 1 => "1", 2..=3 => "2-3", 4..=6 => "4-6", _ => "7+" }));
    for a in &r.alts {
        let k = if a == "*" { "star" } else if a.starts_with('<') { "symbolic" } else if a.contains('[') || a.contains(']') { "breakend" } else if a.starts_with('.') || a.ends_with('.') { "single-breakend" } else { "bases" };
        add(format!("alt:{k}"));
    }
    add(format!("qual:{}", match r.qual.map(f32::from_bits) { None => "missing", Some(q) if q.is_nan() => "nan", Some(q) if q.is_infinite() => "inf", Some(q) if q == 0.0 => "zero", Some(q) if q.fract() == 0.0 => "integral", Some(q) if q.is_subnormal() => "subnormal", Some(_) => "fraction" }));
    add(format!("filter:{}", if r.filters.is_empty() { "missing" } else if r.filters == ["PASS"] { "PASS" } else if r.filters.len() == 1 { "one" } else { "many" }));
    add(format!("ninfo:{}", r.info.len().min(4)));
    add(format!("nsamples:{}", match r.samples.len() { 0 => "0", 1 => "1", 2..=3 => "2-3", _ => "4+" }));
    let int_class = |n: i32| -> &'static str {
        match n {
            -120..=127 => if n == -120 || n == 127 { "i8-edge" } else { "i8" },
            -121 | 128 => "i16-low-edge",
            -32760..=32767 => if n == -32760 || n == 32767 { "i16-edge" } else { "i16" },
            -32761 | 32768 => "i32-low-edge",
            n if n == i32::MIN + 8 || n == i32::MAX => "i32-edge",
            n if n < i32::MIN + 8 => "invalid",
            _ => "i32",
        }
    };
    let flt_class = |b: u32| -> &'static str {
        let x = f32::from_bits(b);
        if x.is_nan() { "nan" } else if x.is_infinite() { "inf" } else if x == 0.0 { if b == 0 { "+0" } else { "-0" } } else if x.is_subnormal() { "subnormal" } else { "finite" }
    };
    let str_class = |s: &str| -> Vec<&'static str> {
        let mut c = Vec::new();
        if s == "." { c.push("lone-dot"); }
        for (ch, name) in [(';', ";"), ('=', "="), ('%', "%"), (',', ","), (':', ":"), ('\t', "TAB"), ('\r', "CR"), ('\n', "LF"), (' ', "space")] {
            if s.contains(ch) { c.push(name); }
        }
        if !s.is_ascii() { c.push("non-ascii"); }
        match s.len() { 15..=126 => c.push("len15+"), 127..=299 => c.push("len127+"), 300.. => c.push("len300+"), _ => {} }
        if c.is_empty() { c.push("plain"); }
        c
    };
    let val_feat = |col: &str, num: Num, v: &Option<Val>, add: &mut dyn FnMut(String)| {
        let n = num.class();
        match v {
            None => add(format!("{col}|{n}|missing-value")),
            Some(v) => {
                add(format!("{col}|{n}|{}", v.kind()));
                match v {
                    Val::Int(x) => add(format!("{col}|int:{}", int_class(*x))),
                    Val::Ints(a) => {
                        for x in a.iter().flatten() { add(format!("{col}|int[]:{}", int_class(*x))); }
                        if a.iter().any(|e| e.is_none()) { add(format!("{col}|int[]:missing-entry")); }
                        if a.iter().all(|e| e.is_none()) { add(format!("{col}|int[]:all-missing")); }
                    }
                    Val::Float(b) => add(format!("{col}|float:{}", flt_class(*b))),
                    Val::Floats(a) => {
                        for b in a.iter().flatten() { add(format!("{col}|float[]:{}", flt_class(*b))); }
                        if a.iter().any(|e| e.is_none()) { add(format!("{col}|float[]:missing-entry")); }
                    }
                    Val::Char(c) => for k in str_class(&c.to_string()) { add(format!("{col}|char:{k}")); },
                    Val::Chars(a) => {
                        for c in a.iter().flatten() { for k in str_class(&c.to_string()) { add(format!("{col}|char[]:{k}")); } }
                        if a.iter().any(|e| e.is_none()) { add(format!("{col}|char[]:missing-entry")); }
                    }
                    Val::Str(s) => for k in str_class(s) { add(format!("{col}|str:{k}")); },
                    Val::Strs(a) => {
                        for s in a.iter().flatten() { for k in str_class(s) { add(format!("{col}|str[]:{k}")); } }
                        if a.iter().any(|e| e.is_none()) { add(format!("{col}|str[]:missing-entry")); }
                    }
                    Val::Gt(g) => {
                        add(format!("GT|ploidy:{}", g.len()));
                        if g.iter().any(|a| a.allele.is_none()) { add("GT|missing-allele".into()); }
                        if g.iter().skip(1).any(|a| a.allele.is_none() && a.phased) { add("GT|phased-missing-allele".into()); }
                        let p: Vec<bool> = g.iter().skip(1).map(|a| a.phased).collect();
                        add(format!("GT|phasing:{}", if p.is_empty() { "haploid" } else if p.iter().all(|x| *x) { "phased" } else if p.iter().all(|x| !*x) { "unphased" } else { "mixed" }));
                        if g[0].phased != implied_first_phasing(g) { add("GT|explicit-first-phasing".into()); }
                        if g.iter().filter_map(|a| a.allele).any(|a| a >= 10) { add("GT|allele>=10".into()); }
                    }
                    Val::Flag => {}
                }
            }
        }
    };
    for (k, v) in &r.info {
        let num = h.info(k).map(|d| d.num).or_else(|| crate::text::reserved_def(h.fileformat, k, true).map(|d| d.0));
        match num {
            Some(n) => val_feat("INFO", n, v, &mut add),
            None => add(format!("INFO|undeclared|{}", v.as_ref().map(|v| v.kind()).unwrap_or("missing"))),
        }
        if k == "END" { add("INFO|END".into()); }
        if k == "SVLEN" { add("INFO|SVLEN".into()); }
    }
    let mut ploidies: Vec<usize> = Vec::new();
    for row in &r.samples {
        if row.len() < r.format.len() { add("FORMAT|trailing-dropped".into()); }
        for (fi, k) in r.format.iter().enumerate() {
            let v = row.get(fi).cloned().unwrap_or(None);
            if let Some(Val::Gt(g)) = &v { ploidies.push(g.len()); }
            let num = if k == "GT" { Some(Num::Count(1)) } else { h.format(k).map(|d| d.num).or_else(|| crate::text::reserved_def(h.fileformat, k, false).map(|d| d.0)) };
            match num {
                Some(n) => val_feat("FORMAT", n, &v, &mut add),
                None => add("FORMAT|undeclared".into()),
            }
            if k == "LEN" { add("FORMAT|LEN".into()); }
        }
    }
    if ploidies.iter().any(|p| *p != ploidies[0]) { add("GT|mixed-ploidy".into()); }
    for (fi, k) in r.format.iter().enumerate() {
        if !r.samples.is_empty() && r.samples.iter().all(|row| row.get(fi).map(|v| v.is_none()).unwrap_or(true)) {
            add(format!("FORMAT|all-samples-missing:{}", if k == "GT" { "GT" } else { "other" }));
        }
        let lens: Vec<usize> = r.samples.iter().filter_map(|row| row.get(fi).and_then(|v| v.as_ref()).and_then(|v| v.array_len())).collect();
        if lens.iter().any(|l| *l != lens[0]) { add("FORMAT|ragged-arrays".into()); }
    }
    f
}
