//! genvcf — the shared VCF data model of the monitoring harness (C04, C09, C10, C12–C14, C16, C20).
//!
//! # API (kept small and stable)
//!
//! Descriptions (plain data, no noodles types; oracles are computed from these):
//! * [`HeaderDesc`] `{ fileformat, infos, filters, formats, alts, contigs, others, samples }` with
//!   [`FieldDef`], [`FilterDef`], [`AltDef`], [`ContigDef`], [`OtherLine`], [`Num`], [`Ty`];
//! * [`RecDesc`] `{ chrom, pos (0 = telomere), ids, reference, alts, qual (f32 bits), filters
//!   ([] = missing, ["PASS"]), info [(key, Option<Val>)], format, samples [[Option<Val>]] }` with
//!   [`Val`] (`Flag Int Float(bits) Char Str Ints Floats Chars Strs Gt`) and [`GtAllele`].
//!
//! Generators (pure functions of the `vcore::Rng` handed in):
//! * [`gen_header`]`(&mut Rng, &HeaderOpts) -> HeaderDesc` — `HeaderOpts { fileformat, max_samples,
//!   idx: IdxMode::{None,Natural,Permuted,Sparse}, model, extras, min_contig_len, v45_numbers }`
//!   (build with `HeaderOpts::full() / ::bcf(idx) / ::common() / ::indexable(min_len)` or
//!   `..Default::default()`: fields may be added);
//! * [`add_other_line_variants`]`(&mut Rng, &mut HeaderDesc)` — repeated / same-key / equal-field other lines
//!   (opt-in, not part of `gen_header`);
//! * [`gen_record`]`(&mut Rng, &HeaderDesc, &RecOpts) -> RecDesc` — `RecOpts { model:
//!   Model::{Full,Bcf,Common}, nan, invalid_ints, rare }` (`RecOpts::full() / ::bcf() / ::common()`); consistent with the header (Number=A/R/G
//!   lengths follow the ALT count, FORMAT keys / sample count follow the header, first-allele
//!   phasing is the implied one before VCF 4.4);
//! * [`coordinate_sorted_set`]`(&mut Rng, &HeaderDesc, n, &RecOpts) -> Vec<RecDesc>` — sorted by
//!   (contig order, POS), unique IDs `v1..`, spans straddling the index bin edges;
//! * [`gen_rich_record`]`(&mut Rng, &HeaderDesc, &RecOpts)` / [`minimal_record`]`(&HeaderDesc, at, kind)` — the
//!   two ends of the shape range, for "rich record followed by minimal record" adjacency in files read
//!   through one reused buffer;
//! * [`gt_separator_matrix`]`(&HeaderDesc, at)` — ploidy 3/4 genotypes with every order of `/` `|` separators;
//! * [`features`]`(&RecDesc, &HeaderDesc) -> Vec<String>` — data-free shape tokens (coverage /
//!   distinct-case fingerprints).
//!
//! Independent text side (written from the VCF specification, not from noodles):
//! * [`to_vcf_line`]`(&RecDesc, &HeaderDesc) -> Vec<u8>` (with LF), [`to_vcf_header`]`(&HeaderDesc) -> String`;
//! * [`rec_from_line`]`(&[u8], &HeaderDesc) -> Result<RecDesc, String>` — TAB/`;`/`,`/`:` splitter +
//!   percent-decoding, typed by the header *description*; [`header_from_text`] likewise for headers;
//! * [`percent_encode`] / [`percent_decode`], [`span`]`(&RecDesc, fileformat) -> Result<(start, end), String>`.
//!
//! noodles side (public builders / accessors only, never a parser):
//! * [`to_noodles_header`]`(&HeaderDesc) -> Result<vcf::Header, String>`, [`to_record_buf`]`(&RecDesc) -> RecordBuf`;
//! * [`header_desc_of`]`(&vcf::Header)`, [`rec_desc_of_buf`]`(&RecordBuf)`,
//!   [`rec_desc_of_record`]`(&Header, &impl variant::Record)` (works for `vcf::Record`, `bcf::Record`),
//!   [`series_of_record`] (column-wise view).
//!
//! Comparison: [`diff_records`]`(exp, got, &Tol) -> Vec<FieldDiff>` (column, key, diagnostic class,
//! detail), [`diff_headers`], tolerances [`Tol::TEXT`] (NaN == NaN, trailing missing sample values,
//! `[.]` == missing) / [`Tol::BITS`] (floats by bit pattern) / [`Tol::EXACT`];
//! [`canon_first_phasing`] for files before VCF 4.4.

pub mod conv;
pub mod r#gen;
pub mod model;
pub mod text;

pub use conv::{header_desc_of, rec_desc_of_buf, rec_desc_of_record, series_of_record, to_noodles_header, to_record_buf};
pub use r#gen::{add_other_line_variants, HeaderOpts, IdxMode, Model, RecOpts, assign_idx, coordinate_sorted_set, features, format_combos, gen_header, gen_record, gen_record_at, gen_rich_record, gt_separator_matrix, info_combos, minimal_record};
pub use model::{AltDef, ContigDef, FieldDef, FieldDiff, FilterDef, GtAllele, HeaderDesc, Num, OtherLine, RecDesc, Tol, Ty, Val, classify, diff_headers, diff_records, opt_val_eq, show_val, val_eq};
pub use text::{gt_text, header_from_text, implied_first_phasing, parse_gt, percent_decode, percent_encode, rec_from_line, reserved_def, span, to_vcf_header, to_vcf_line};

/// Before VCF 4.4 the phasing of a genotype's first allele cannot be written; both sides of a
/// comparison are brought to the implied value.
pub fn canon_first_phasing(r: &mut RecDesc) {
    for row in &mut r.samples {
        for v in row.iter_mut() {
            if let Some(Val::Gt(g)) = v {
                if !g.is_empty() {
                    let implied = implied_first_phasing(g);
                    g[0].phased = implied;
                }
            }
        }
    }
}

/// Data-free class of an error value: its `Debug` rendering with string literals dropped and digit
/// runs collapsed (`InvalidInfo(InvalidField(InvalidValue(_, InvalidCharacter)))`).
pub fn err_class(e: &dyn std::fmt::Debug) -> String {
    let s = format!("{e:?}");
    let mut out = String::new();
    let mut chars = s.chars().peekable();
    let mut prev_hash = false;
    while let Some(c) = chars.next() {
        if c == '"' {
            // skip the literal
            let mut esc = false;
            for d in chars.by_ref() {
                if esc {
                    esc = false;
                } else if d == '\\' {
                    esc = true;
                } else if d == '"' {
                    break;
                }
            }
            out.push('_');
            prev_hash = false;
        } else if c.is_ascii_digit() {
            if !prev_hash {
                out.push('#');
            }
            prev_hash = true;
        } else {
            prev_hash = false;
            if !c.is_whitespace() {
                out.push(c);
            }
        }
        if out.len() > 200 {
            break;
        }
    }
    out
}

/// `io::Error` -> class of its inner error (its message for plain string errors, with literals and
/// digits dropped), or of its kind when there is none.
pub fn io_err_class(e: &std::io::Error) -> String {
    match e.get_ref() {
        Some(inner) => {
            // an io::Error wrapped in an io::Error: the innermost one names the cause
            if let Some(io) = inner.downcast_ref::<std::io::Error>() {
                return io_err_class(io);
            }
            let dbg = format!("{inner:?}");
            if dbg.starts_with('"') {
                // a plain message: `io::Error::new(kind, "text")`
                let msg = inner.to_string();
                let cut = msg.split(':').next().unwrap_or("").to_string();
                format!("{:?}:{}", e.kind(), err_class(&DisplayAsDebug(&cut)))
            } else {
                err_class(&inner)
            }
        }
        None => format!("{:?}", e.kind()),
    }
}

struct DisplayAsDebug<'a>(&'a str);

impl std::fmt::Debug for DisplayAsDebug<'_> {
    fn fmt(&self, f: &mut std::fmt::Formatter<'_>) -> std::fmt::Result {
        f.write_str(&self.0.replace(' ', "-"))
    }
}

#[cfg(test)]
mod tests {
    use super::*;
    use vcore::Rng;

    #[test]
    fn independent_writer_and_splitter_are_inverse() {
        for seed in 0..40u64 {
            let mut rng = Rng::new(seed, 1, 0);
            let h = gen_header(&mut rng, &HeaderOpts::full());
            for _ in 0..100 {
                let mut r = gen_record(&mut rng, &h, &RecOpts::full());
                let line = to_vcf_line(&r, &h);
                let mut back = rec_from_line(&line, &h).unwrap_or_else(|e| panic!("{e}: {}", String::from_utf8_lossy(&line)));
                if h.fileformat < (4, 4) {
                    canon_first_phasing(&mut r);
                    canon_first_phasing(&mut back);
                }
                let d = diff_records(&r, &back, &Tol::TEXT);
                assert!(d.is_empty(), "{d:?}\n{}", String::from_utf8_lossy(&line));
            }
            let text = to_vcf_header(&h);
            let hb = header_from_text(&text).unwrap();
            assert!(diff_headers(&h, &hb).is_empty(), "{:?}", diff_headers(&h, &hb));
        }
    }

    #[test]
    fn percent_coding() {
        for s in ["a;b=c%d,e:f\tg\r\n", ".", "..", "%41", "100%", "%", "é中", "%2"] {
            assert_eq!(percent_decode(&percent_encode(s)).as_deref(), Some(s));
        }
        assert_eq!(percent_encode("."), "%2E");
        assert_eq!(percent_encode("a:b"), "a%3Ab");
        assert_eq!(percent_decode("%3a%3B"), Some(":;".to_string()));
    }

    #[test]
    fn span_rules() {
        let mut r = RecDesc { chrom: "1".into(), pos: 100, ids: vec![], reference: "ACG".into(), alts: vec!["<DEL>".into()], qual: None, filters: vec![], info: vec![], format: vec![], samples: vec![] };
        assert_eq!(span(&r, (4, 3)), Ok((100, 102)));
        r.info = vec![("END".into(), Some(Val::Int(500))), ("SVLEN".into(), Some(Val::Ints(vec![Some(1000)])))];
        assert_eq!(span(&r, (4, 4)), Ok((100, 500)));
        assert_eq!(span(&r, (4, 5)), Ok((100, 1099)));
        r.format = vec!["LEN".into()];
        r.samples = vec![vec![Some(Val::Int(2000))], vec![None]];
        assert_eq!(span(&r, (4, 5)), Ok((100, 2099)));
        r.pos = 0;
        assert_eq!(span(&r, (4, 5)), Ok((1, 2000)));
    }

    #[test]
    fn sorted_sets_are_sorted_with_unique_ids() {
        for seed in 0..10u64 {
            let mut rng = Rng::new(seed, 2, 0);
            let h = gen_header(&mut rng, &HeaderOpts::indexable(1 << 28));
            let set = coordinate_sorted_set(&mut rng, &h, 300, &RecOpts::common());
            assert!(set.len() >= 300);
            let order = |r: &RecDesc| (h.contigs.iter().position(|c| c.id == r.chrom).unwrap(), r.pos);
            assert!(set.windows(2).all(|w| order(&w[0]) <= order(&w[1])));
            let mut ids: Vec<&String> = set.iter().map(|r| &r.ids[0]).collect();
            ids.sort();
            ids.dedup();
            assert_eq!(ids.len(), set.len());
            for r in &set {
                let (s, e) = span(r, h.fileformat).unwrap();
                assert!(s == r.pos && e >= s);
                if let Some(l) = h.contigs.iter().find(|c| c.id == r.chrom).and_then(|c| c.length) {
                    assert!(r.pos as usize <= l);
                }
            }
        }
    }

    #[test]
    fn builders_accept_every_generated_value() {
        for seed in 0..20u64 {
            let mut rng = Rng::new(seed, 3, 0);
            for o in [HeaderOpts::full(), HeaderOpts::bcf(IdxMode::Sparse), HeaderOpts::common()] {
                let h = gen_header(&mut rng, &o);
                let nh = to_noodles_header(&h).unwrap();
                assert!(diff_headers(&h, &header_desc_of(&nh)).is_empty());
                for _ in 0..50 {
                    let r = gen_record(&mut rng, &h, &RecOpts::full());
                    let b = to_record_buf(&r);
                    assert!(diff_records(&r, &rec_desc_of_buf(&b), &Tol::EXACT).is_empty());
                }
            }
        }
    }
}
