//! genvcf — stub (to be implemented).
