//! Conversions between the harness' descriptions and noodles values. Descriptions are turned into
//! noodles values through the public *builders* only (never through a parser); noodles values are
//! read back through their public accessors.

use std::io;

use noodles_core::Position;
use noodles_vcf as vcf;
use vcf::header::record::value::{
    Collection, Map,
    map::{AlternativeAllele, Contig, Filter, Format, Info, Other, format, info},
};
use vcf::variant::RecordBuf;
use vcf::variant::record::samples::series::value::genotype::Phasing;
use vcf::variant::record_buf as rb;

use crate::model::*;

fn info_number(n: Num) -> Result<info::Number, String> {
    Ok(match n {
        Num::Count(c) => info::Number::Count(c as usize),
        Num::A => info::Number::AlternateBases,
        Num::R => info::Number::ReferenceAlternateBases,
        Num::G => info::Number::Samples,
        Num::Dot => info::Number::Unknown,
        other => return Err(format!("Number={} is not an INFO number", other.text())),
    })
}

fn format_number(n: Num) -> format::Number {
    match n {
        Num::Count(c) => format::Number::Count(c as usize),
        Num::A => format::Number::AlternateBases,
        Num::R => format::Number::ReferenceAlternateBases,
        Num::G => format::Number::Samples,
        Num::Dot => format::Number::Unknown,
        Num::LA => format::Number::LocalAlternateBases,
        Num::LR => format::Number::LocalReferenceAlternateBases,
        Num::LG => format::Number::LocalSamples,
        Num::P => format::Number::Ploidy,
        Num::M => format::Number::BaseModifications,
    }
}

fn info_type(t: Ty) -> info::Type {
    match t {
        Ty::Flag => info::Type::Flag,
        Ty::Integer => info::Type::Integer,
        Ty::Float => info::Type::Float,
        Ty::Character => info::Type::Character,
        Ty::String => info::Type::String,
    }
}

fn format_type(t: Ty) -> Result<format::Type, String> {
    Ok(match t {
        Ty::Flag => return Err("FORMAT cannot be a Flag".into()),
        Ty::Integer => format::Type::Integer,
        Ty::Float => format::Type::Float,
        Ty::Character => format::Type::Character,
        Ty::String => format::Type::String,
    })
}

/// `vcf::Header` built through `Header::builder()` / `Map::<_>::builder()`.
pub fn to_noodles_header(h: &HeaderDesc) -> Result<vcf::Header, String> {
    let mut b = vcf::Header::builder().set_file_format(vcf::header::FileFormat::new(h.fileformat.0, h.fileformat.1));
    for d in &h.infos {
        let mut m = Map::<Info>::builder().set_number(info_number(d.num)?).set_type(info_type(d.ty)).set_description(d.desc.clone());
        if let Some(i) = d.idx {
            m = m.set_idx(i);
        }
        for (k, v) in &d.extra {
            m = m.insert(k.parse().map_err(|_| format!("bad tag {k}"))?, v.clone());
        }
        b = b.add_info(d.id.clone(), m.build().map_err(|e| e.to_string())?);
    }
    for d in &h.filters {
        let mut m = Map::<Filter>::builder().set_description(d.desc.clone());
        if let Some(i) = d.idx {
            m = m.set_idx(i);
        }
        for (k, v) in &d.extra {
            m = m.insert(k.parse().map_err(|_| format!("bad tag {k}"))?, v.clone());
        }
        b = b.add_filter(d.id.clone(), m.build().map_err(|e| e.to_string())?);
    }
    for d in &h.formats {
        let mut m = Map::<Format>::builder().set_number(format_number(d.num)).set_type(format_type(d.ty)?).set_description(d.desc.clone());
        if let Some(i) = d.idx {
            m = m.set_idx(i);
        }
        for (k, v) in &d.extra {
            m = m.insert(k.parse().map_err(|_| format!("bad tag {k}"))?, v.clone());
        }
        b = b.add_format(d.id.clone(), m.build().map_err(|e| e.to_string())?);
    }
    for d in &h.alts {
        let mut m = Map::<AlternativeAllele>::builder().set_description(d.desc.clone());
        for (k, v) in &d.extra {
            m = m.insert(k.parse().map_err(|_| format!("bad tag {k}"))?, v.clone());
        }
        b = b.add_alternative_allele(d.id.clone(), m.build().map_err(|e| e.to_string())?);
    }
    for d in &h.contigs {
        let mut m = Map::<Contig>::builder();
        if let Some(n) = d.length {
            m = m.set_length(n);
        }
        if let Some(x) = &d.md5 {
            m = m.set_md5(x.clone());
        }
        if let Some(x) = &d.url {
            m = m.set_url(x.clone());
        }
        if let Some(i) = d.idx {
            m = m.set_idx(i);
        }
        for (k, v) in &d.extra {
            m = m.insert(k.parse().map_err(|_| format!("bad tag {k}"))?, v.clone());
        }
        b = b.add_contig(d.id.clone(), m.build().map_err(|e| e.to_string())?);
    }
    for l in &h.others {
        match l {
            OtherLine::Unstructured { key, value } => {
                let k: vcf::header::record::key::Other = key.parse().map_err(|_| format!("bad key {key}"))?;
                b = b.insert(k, vcf::header::record::Value::from(value.as_str())).map_err(|e| e.to_string())?;
            }
            OtherLine::Structured { key, id, fields } => {
                let k: vcf::header::record::key::Other = key.parse().map_err(|_| format!("bad key {key}"))?;
                let mut m = Map::<Other>::builder();
                for (fk, fv) in fields {
                    m = m.insert(fk.parse().map_err(|_| format!("bad tag {fk}"))?, fv.clone());
                }
                let m = m.build().map_err(|e| e.to_string())?;
                b = b.insert(k, vcf::header::record::Value::Map(id.clone(), m)).map_err(|e| e.to_string())?;
            }
        }
    }
    for s in &h.samples {
        b = b.add_sample_name(s.clone());
    }
    Ok(b.build())
}

fn num_of_info(n: info::Number) -> Num {
    match n {
        info::Number::Count(c) => Num::Count(c as u32),
        info::Number::AlternateBases => Num::A,
        info::Number::ReferenceAlternateBases => Num::R,
        info::Number::Samples => Num::G,
        info::Number::Unknown => Num::Dot,
    }
}

fn num_of_format(n: format::Number) -> Num {
    match n {
        format::Number::Count(c) => Num::Count(c as u32),
        format::Number::AlternateBases => Num::A,
        format::Number::ReferenceAlternateBases => Num::R,
        format::Number::Samples => Num::G,
        format::Number::LocalAlternateBases => Num::LA,
        format::Number::LocalReferenceAlternateBases => Num::LR,
        format::Number::LocalSamples => Num::LG,
        format::Number::Ploidy => Num::P,
        format::Number::BaseModifications => Num::M,
        format::Number::Unknown => Num::Dot,
    }
}

/// The description of a noodles header, read through its public accessors.
pub fn header_desc_of(h: &vcf::Header) -> HeaderDesc {
    let ff = h.file_format();
    let mut d = HeaderDesc { fileformat: (ff.major(), ff.minor()), infos: vec![], filters: vec![], formats: vec![], alts: vec![], contigs: vec![], others: vec![], samples: vec![] };
    for (id, m) in h.infos() {
        let ty = match m.ty() {
            info::Type::Flag => Ty::Flag,
            info::Type::Integer => Ty::Integer,
            info::Type::Float => Ty::Float,
            info::Type::Character => Ty::Character,
            info::Type::String => Ty::String,
        };
        d.infos.push(FieldDef { id: id.clone(), num: num_of_info(m.number()), ty, desc: m.description().to_string(), idx: m.idx(), extra: m.other_fields().iter().map(|(k, v)| (k.as_ref().to_string(), v.clone())).collect() });
    }
    for (id, m) in h.filters() {
        d.filters.push(FilterDef { id: id.clone(), desc: m.description().to_string(), idx: m.idx(), extra: m.other_fields().iter().map(|(k, v)| (k.as_ref().to_string(), v.clone())).collect() });
    }
    for (id, m) in h.formats() {
        let ty = match m.ty() {
            format::Type::Integer => Ty::Integer,
            format::Type::Float => Ty::Float,
            format::Type::Character => Ty::Character,
            format::Type::String => Ty::String,
        };
        d.formats.push(FieldDef { id: id.clone(), num: num_of_format(m.number()), ty, desc: m.description().to_string(), idx: m.idx(), extra: m.other_fields().iter().map(|(k, v)| (k.as_ref().to_string(), v.clone())).collect() });
    }
    for (id, m) in h.alternative_alleles() {
        d.alts.push(AltDef { id: id.clone(), desc: m.description().to_string(), extra: m.other_fields().iter().map(|(k, v)| (k.as_ref().to_string(), v.clone())).collect() });
    }
    for (id, m) in h.contigs() {
        d.contigs.push(ContigDef { id: id.clone(), length: m.length(), md5: m.md5().map(String::from), url: m.url().map(String::from), idx: m.idx(), extra: m.other_fields().iter().map(|(k, v)| (k.as_ref().to_string(), v.clone())).collect() });
    }
    for (key, coll) in h.other_records() {
        match coll {
            Collection::Unstructured(vs) => {
                for v in vs {
                    d.others.push(OtherLine::Unstructured { key: key.as_ref().to_string(), value: v.clone() });
                }
            }
            Collection::Structured(maps) => {
                for (id, m) in maps {
                    d.others.push(OtherLine::Structured { key: key.as_ref().to_string(), id: id.clone(), fields: m.other_fields().iter().map(|(k, v)| (k.as_ref().to_string(), v.clone())).collect() });
                }
            }
        }
    }
    d.samples = h.sample_names().iter().cloned().collect();
    d
}

fn info_value(v: &Val) -> rb::info::field::Value {
    use rb::info::field::Value as V;
    match v {
        Val::Flag => V::Flag,
        Val::Int(n) => V::Integer(*n),
        Val::Float(b) => V::Float(f32::from_bits(*b)),
        Val::Char(c) => V::Character(*c),
        Val::Str(s) => V::String(s.clone()),
        Val::Ints(a) => V::from(a.clone()),
        Val::Floats(a) => V::from(a.iter().map(|e| e.map(f32::from_bits)).collect::<Vec<_>>()),
        Val::Chars(a) => V::from(a.clone()),
        Val::Strs(a) => V::from(a.clone()),
        Val::Gt(_) => panic!("a genotype is not an INFO value"),
    }
}

fn sample_value(v: &Val) -> rb::samples::sample::Value {
    use rb::samples::sample::Value as V;
    use rb::samples::sample::value::genotype::Allele;
    match v {
        Val::Flag => panic!("a flag is not a FORMAT value"),
        Val::Int(n) => V::Integer(*n),
        Val::Float(b) => V::Float(f32::from_bits(*b)),
        Val::Char(c) => V::Character(*c),
        Val::Str(s) => V::String(s.clone()),
        Val::Ints(a) => V::from(a.clone()),
        Val::Floats(a) => V::from(a.iter().map(|e| e.map(f32::from_bits)).collect::<Vec<_>>()),
        Val::Chars(a) => V::from(a.clone()),
        Val::Strs(a) => V::from(a.clone()),
        Val::Gt(g) => V::Genotype(g.iter().map(|a| Allele::new(a.allele.map(|n| n as usize), if a.phased { Phasing::Phased } else { Phasing::Unphased })).collect()),
    }
}

/// `RecordBuf` built through `RecordBuf::builder()`.
pub fn to_record_buf(r: &RecDesc) -> RecordBuf {
    let mut b = RecordBuf::builder()
        .set_reference_sequence_name(r.chrom.clone())
        .set_ids(r.ids.iter().cloned().collect())
        .set_reference_bases(r.reference.clone())
        .set_alternate_bases(rb::AlternateBases::from(r.alts.clone()))
        .set_filters(r.filters.iter().cloned().collect())
        .set_info(r.info.iter().map(|(k, v)| (k.clone(), v.as_ref().map(info_value))).collect());
    if r.pos > 0 {
        b = b.set_variant_start(Position::new(r.pos as usize).expect("pos > 0"));
    }
    if let Some(q) = r.qual {
        b = b.set_quality_score(f32::from_bits(q));
    }
    if !r.samples.is_empty() || !r.format.is_empty() {
        let keys: rb::samples::Keys = r.format.iter().cloned().collect();
        let values: Vec<Vec<Option<rb::samples::sample::Value>>> = r.samples.iter().map(|row| row.iter().map(|v| v.as_ref().map(sample_value)).collect()).collect();
        b = b.set_samples(rb::Samples::new(keys, values));
    }
    let mut rec = b.build();
    if r.pos == 0 {
        *rec.variant_start_mut() = None;
    }
    rec
}

fn val_of_info(v: &rb::info::field::Value) -> Val {
    use rb::info::field::{Value as V, value::Array as A};
    match v {
        V::Integer(n) => Val::Int(*n),
        V::Float(f) => Val::Float(f.to_bits()),
        V::Flag => Val::Flag,
        V::Character(c) => Val::Char(*c),
        V::String(s) => Val::Str(s.clone()),
        V::Array(A::Integer(a)) => Val::Ints(a.clone()),
        V::Array(A::Float(a)) => Val::Floats(a.iter().map(|e| e.map(f32::to_bits)).collect()),
        V::Array(A::Character(a)) => Val::Chars(a.clone()),
        V::Array(A::String(a)) => Val::Strs(a.clone()),
    }
}

fn val_of_sample(v: &rb::samples::sample::Value) -> Val {
    use rb::samples::sample::{Value as V, value::Array as A};
    match v {
        V::Integer(n) => Val::Int(*n),
        V::Float(f) => Val::Float(f.to_bits()),
        V::Character(c) => Val::Char(*c),
        V::String(s) => Val::Str(s.clone()),
        V::Genotype(g) => Val::Gt(g.as_ref().iter().map(|a| GtAllele { allele: a.position().map(|p| p as u32), phased: a.phasing() == Phasing::Phased }).collect()),
        V::Array(A::Integer(a)) => Val::Ints(a.clone()),
        V::Array(A::Float(a)) => Val::Floats(a.iter().map(|e| e.map(f32::to_bits)).collect()),
        V::Array(A::Character(a)) => Val::Chars(a.clone()),
        V::Array(A::String(a)) => Val::Strs(a.clone()),
    }
}

/// The description of a `RecordBuf`, read through its inherent accessors.
pub fn rec_desc_of_buf(r: &RecordBuf) -> RecDesc {
    RecDesc {
        chrom: r.reference_sequence_name().to_string(),
        pos: r.variant_start().map(|p| usize::from(p) as u64).unwrap_or(0),
        ids: r.ids().as_ref().iter().cloned().collect(),
        reference: r.reference_bases().to_string(),
        alts: r.alternate_bases().as_ref().to_vec(),
        qual: r.quality_score().map(f32::to_bits),
        filters: r.filters().as_ref().iter().cloned().collect(),
        info: r.info().as_ref().iter().map(|(k, v)| (k.clone(), v.as_ref().map(val_of_info))).collect(),
        format: r.samples().keys().as_ref().iter().cloned().collect(),
        samples: r.samples().values().map(|s| s.values().iter().map(|v| v.as_ref().map(val_of_sample)).collect()).collect(),
    }
}

fn val_of_info_ref(v: vcf::variant::record::info::field::Value<'_>) -> io::Result<Val> {
    use vcf::variant::record::info::field::{Value as V, value::Array as A};
    Ok(match v {
        V::Integer(n) => Val::Int(n),
        V::Float(f) => Val::Float(f.to_bits()),
        V::Flag => Val::Flag,
        V::Character(c) => Val::Char(c),
        V::String(s) => Val::Str(s.into_owned()),
        V::Array(A::Integer(a)) => Val::Ints(a.iter().collect::<io::Result<_>>()?),
        V::Array(A::Float(a)) => Val::Floats(a.iter().map(|e| e.map(|o| o.map(f32::to_bits))).collect::<io::Result<_>>()?),
        V::Array(A::Character(a)) => Val::Chars(a.iter().collect::<io::Result<_>>()?),
        V::Array(A::String(a)) => Val::Strs(a.iter().map(|e| e.map(|o| o.map(|s| s.into_owned()))).collect::<io::Result<_>>()?),
    })
}

pub fn val_of_series_ref(v: vcf::variant::record::samples::series::Value<'_>) -> io::Result<Val> {
    use vcf::variant::record::samples::series::{Value as V, value::Array as A};
    Ok(match v {
        V::Integer(n) => Val::Int(n),
        V::Float(f) => Val::Float(f.to_bits()),
        V::Character(c) => Val::Char(c),
        V::String(s) => Val::Str(s.into_owned()),
        V::Genotype(g) => Val::Gt(g.iter().map(|e| e.map(|(p, ph)| GtAllele { allele: p.map(|p| p as u32), phased: ph == Phasing::Phased })).collect::<io::Result<_>>()?),
        V::Array(A::Integer(a)) => Val::Ints(a.iter().collect::<io::Result<_>>()?),
        V::Array(A::Float(a)) => Val::Floats(a.iter().map(|e| e.map(|o| o.map(f32::to_bits))).collect::<io::Result<_>>()?),
        V::Array(A::Character(a)) => Val::Chars(a.iter().collect::<io::Result<_>>()?),
        V::Array(A::String(a)) => Val::Strs(a.iter().map(|e| e.map(|o| o.map(|s| s.into_owned()))).collect::<io::Result<_>>()?),
    })
}

/// The description of any `variant::Record` (lazy `vcf::Record`, `bcf::Record`, `RecordBuf`), read
/// through the trait: every site accessor, INFO iteration typed by the header, and the samples one
/// row at a time (`Samples::iter` + `Sample::iter`).
pub fn rec_desc_of_record<R>(header: &vcf::Header, record: &R) -> io::Result<RecDesc>
where
    R: vcf::variant::Record + ?Sized,
{
    use vcf::variant::record::{AlternateBases as _, Filters as _, Ids as _, Info as _, ReferenceBases as _, Samples as _, samples::Sample as _};
    let chrom = record.reference_sequence_name(header)?.to_string();
    let pos = match record.variant_start() {
        None => 0,
        Some(p) => usize::from(p?) as u64,
    };
    let ids: Vec<String> = record.ids().iter().map(String::from).collect();
    let reference = String::from_utf8(record.reference_bases().iter().collect::<io::Result<Vec<u8>>>()?).map_err(|e| io::Error::new(io::ErrorKind::InvalidData, e))?;
    let alts: Vec<String> = record.alternate_bases().iter().map(|r| r.map(String::from)).collect::<io::Result<_>>()?;
    let qual = record.quality_score().transpose()?.map(f32::to_bits);
    let filters: Vec<String> = record.filters().iter(header).map(|r| r.map(String::from)).collect::<io::Result<_>>()?;
    let mut info_out = Vec::new();
    {
        let info = record.info();
        for e in info.iter(header) {
            let (k, v) = e?;
            info_out.push((k.to_string(), v.map(val_of_info_ref).transpose()?));
        }
    }
    let samples = record.samples()?;
    let format: Vec<String> = samples.column_names(header).map(|r| r.map(String::from)).collect::<io::Result<_>>()?;
    let mut rows = Vec::new();
    for s in samples.iter() {
        let mut row = Vec::new();
        for e in s.iter(header) {
            let (_, v) = e?;
            row.push(v.map(val_of_series_ref).transpose()?);
        }
        rows.push(row);
    }
    Ok(RecDesc { chrom, pos, ids, reference, alts, qual, filters, info: info_out, format, samples: rows })
}

/// The samples of any `variant::Record` read column-wise: `Samples::series()` -> `(name, values)`.
pub fn series_of_record<R>(header: &vcf::Header, record: &R) -> io::Result<Vec<(String, Vec<Option<Val>>)>>
where
    R: vcf::variant::Record + ?Sized,
{
    use vcf::variant::record::Samples as _;
    let samples = record.samples()?;
    let mut out = Vec::new();
    for s in samples.series() {
        let s = s?;
        let name = s.name(header)?.to_string();
        let mut col = Vec::new();
        for v in s.iter(header) {
            col.push(v?.map(val_of_series_ref).transpose()?);
        }
        out.push((name, col));
    }
    Ok(out)
}
